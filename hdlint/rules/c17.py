"""C17: no request value makes the client panic (level: other)."""
import re
from core import norm, L_call, L_variant
import panics

META = {
    "thorough_extra": ["mocks", "client-only", "aws"],
    "level": "other",
    "explanation": "E-PANIC: every panic-capable site (panic!/unreachable!/assert! expansions, Option/Result unwrap/expect, slice/str/container indexing, from_static, "
                   "Instant/Duration arithmetic, overflow/bounds/division Assert terminators) is inventoried from the MIR of the whole crate; the sites in functions reachable "
                   "(resolved call graph + closures + class-hierarchy expansion for crate-local traits) from the request entry points - every Service::call / poll_ready, "
                   "Future::poll and async body of client/**, service/**, bridge/**, happy_eyeballs, body - must each be discharged: automatically (state-option: unwrap of an "
                   "Option field of the future/service itself; constant-input), or by a table entry that names the site and carries a reason and, where the safety rests on a "
                   "check in the code, a machine-checked guard (dominance of the guarding edge). Anything else is reported with the shortest call chain.",
    "trusted_base": ["rustc type/borrow checker", "http / hyper / rustls / tokio do not panic on the values handed to them", "third-party macro bodies (tracing, pin-project) are request-independent"],
    "assumptions": ["poll-after-completion and calling outside a tokio runtime are contract violations of the caller, not request values"],
    "undecided": "panics inside dependencies; arithmetic overflow in release builds is wrapping, not panicking (debug-build Assert terminators are inventoried)",
    "level_text": "static reachability of undischarged panic sites from request entry points; discharge reasons are enumerated and, where a guard is claimed, checked by dominance",
}

CLIENT_MODULES = ("client::", "<client::", "service::", "<service::", "bridge::", "<bridge::", "happy_eyeballs", "<happy_eyeballs", "body::", "<body::")


def client_entries(facts):
    out = []
    for f in facts.fns.values():
        if not f.nkey.startswith(CLIENT_MODULES):
            continue
        d = f.d
        tr = (d.get("impl_trait") or "").split("::")[-1]
        nm = d.get("name")
        if (tr == "Service" and nm in ("call", "poll_ready")) or (tr == "Future" and nm == "poll") or (tr == "Stream" and nm == "poll_next") \
                or (tr in ("Transport", "Protocol", "Connection", "ExecuteRequest") ) or (tr == "Layer" and nm == "layer"):
            out.append(f.key)
        elif d.get("kind") == "Closure" and d.get("coroutine"):
            out.append(f.key)
        elif d.get("reachable") and d.get("kind") in ("Fn", "AssocFn") and f.nkey.startswith(("client::", "service::")):
            out.append(f.key)
    return out


def _guard(pred_builder, why):
    def g(facts, s):
        ok, w = s.fn.guarded(s.bb, pred_builder(s.fn))
        return ok, why
    return g


def _tls_domain_validated(facts, s):
    """The domain reaching TlsStream::new on the request path was validated by TlsTransportWrapper::call."""
    try:
        call = facts.unit(facts.method("client::conn::transport::tls::TlsTransportWrapper", "Service", "call"), expand=True)
    except KeyError:
        return False, "TlsTransportWrapper::call not found"
    # decided by the host table of C12.3 (abstract evaluation): a TLS future is built only in the scenario in which
    # ServerName::try_from(host) succeeded, and for exactly that host
    import c12
    call, tab = c12.tls_host_table(facts)
    for scen in ("no-host", "invalid-host", "valid-host", "bracketed-host"):
        got = tab[scen]
        if isinstance(got, Exception):
            return False, "the host table of TlsTransportWrapper::call is undecided (%s)" % got
        for log in got:
            if log is None:
                return False, "the host table of TlsTransportWrapper::call is undecided"
            built = [e for e in log if e.startswith("new:")]
            if built and scen not in ("valid-host", "bracketed-host"):
                return False, "TlsConnectionFuture::new is reachable without ServerName::try_from(host) having succeeded"
            if any(e not in ("new:HOST_valid", "new:HOST_inner_valid") for e in built):
                return False, "the domain given to the TLS future is not the value that was validated with ServerName::try_from"
    callers = {x.fn.nkey for x in facts.call_sites_of("client::conn::transport::tls::future::TlsConnectionFuture::new")}
    if not callers <= ({call.nkey} | {norm(k) for k in call.inlined}):
        return False, "TlsConnectionFuture::new has other callers: %s" % sorted(callers)
    return True, ""


def _take_of_bounced(facts, s):
    f = s.fn
    from core import CallSite
    c = CallSite(f, s.bb, f.term(s.bb))
    rr = f.roots(c.args[0], through_calls=True)
    ok = any(r.kind == "call" and r.site.is_("client::pool::Pooled::take") for r in rr) and any(r.kind == "call" and r.site.is_("tokio::sync::oneshot::Sender::send") for r in rr)
    return ok, "the unwrap is no longer applied to Pooled::take() of a Pooled bounced back by send()"


def _host_guard(facts, s):
    # set_host_header closure: `uri.host().expect(..)` inside or_insert_with, reached only when uri.authority()/host() is Some
    f = facts.unit(facts.fn("service::host::set_host_header"), expand=True)
    sites = [c for c in f.calls() if c.matches(r"VacantEntry.*::(insert|insert_entry|try_insert)$|Entry.*::or_insert_with$")]
    if not sites:
        return False, "no insertion into the Host entry found in set_host_header"
    for c in sites:
        ok, w = f.guarded(c.bb, lambda lab: (lab.kind == "variant" and lab.variants == {"Some"}) or
                          (lab.kind == "bool" and lab.cond.kind == "call" and lab.cond.site.matches(r"Option.*::is_(none|some)$") and
                           lab.value is (norm(lab.cond.site.name).endswith("is_some"))))
        if not ok:
            return False, "the Host header is built without first checking that the URI has a host"
    return True, ""


TABLE = {
    r"^client::conn::transport::tcp::TcpConnecting::(connect|new)\|duration-arith\|div": ("guarded", "timeout / addresses.len(): the division is under the non-empty guard of the address list (the delay table of C11.6 evaluates the empty list: a division by zero is not an outcome there)", None),
    r"^happy_eyeballs::EyeballSet::process_all\|panic\|panic_fmt": ("by-construction", "unreachable!/panic! on an internal state of the eyeball set (queue/task bookkeeping), not on request data"),
    r"^happy_eyeballs::EyeballSet::len\|assert-Overflow": ("by-construction", "queue.len() + tasks.len(): bounded by the number of resolved addresses"),
    r"^body::Body::as_boxed\|panic\|panic\|internal error: entered unreachable code": ("by-construction", "map_err on an Infallible error type"),
    r"^<bridge::io::TokioIo as tokio::io::AsyncRead>::poll_read\|assert-Overflow": ("by-construction", "filled + sub_filled <= capacity of one buffer"),
    r"^client::builder::Builder::build_service\|result-unwrap\|expect\|user-agent should be a valid http header\|<=HeaderValue::from_str$": ("constant-input", "user agent assembled from crate constants at build time, not from a request"),
    r"^<client::pool::checkout::Checkout as futures_core::Future>::poll\|panic\|panic_fmt": ("by-construction", "ConnectingWithDelayDrop(None) exists only after as_delayed() moved the connector out, which happens in drop: polling afterwards is impossible"),
    r"^client::pool::key::TokenMap::insert\|option-unwrap\|unwrap\|<=Option::or$": ("by-construction", "checked_add(1).or(NonZero::new(1)) is always Some"),
    r"^<client::pool::key::UriKey as std::convert::TryFrom>::try_from\|result-unwrap\|unwrap\|<=Uri::from_parts$": ("by-construction", "Uri::from_parts of parts obtained from Uri::into_parts round-trips"),
    r"^client::pool::PoolInner::\w+\|option-unwrap\|unwrap\|<=Pooled::take$": ("guarded", "Pooled::take() of the Pooled that was just built with connection: Some(..) and bounced back by oneshot send()", lambda facts, s: _take_of_bounced(facts, s)),
    r"^client::conn::transport::TransportExt::with_optional_tls\|panic": ("by-construction", "builder-time assertion (configuration), not on the request path"),
    r"^client::Client::get\|result-unwrap\|unwrap\|<=Builder::body$": ("by-construction", "Request::builder() with only a uri and method GET: building cannot fail for a Uri value"),
    r"^service::host::set_host_header\|option-unwrap\|expect\|authority implies host\|<=Uri::host$": ("guarded", "reached only after uri.host() was checked to be present", _host_guard),
    r"^service::host::set_host_header\|result-unwrap\|expect\|uri host is valid header value\|<=\?$": ("by-construction", "every byte http::Uri accepts in a host (and a decimal port) is a legal header-value byte"),
    r"^service::http::http1::(authority_form|check_http1_request)\|result-unwrap\|expect\|authority is valid\|<=Uri::from_parts$": ("by-construction", "Uri::from_parts with only an authority taken from a valid Uri is authority-form"),
    r"^service::http::http1::(origin_form|check_http1_request)\|result-unwrap\|expect\|path is valid uri\|<=Uri::from_parts$": ("by-construction", "Uri::from_parts with only the path_and_query of a valid Uri is origin-form"),
    r"^service::http::http1::origin_form\|panic\|panic\|assertion failed: Uri::default\(\)": ("constant-input", "debug_assert on a constant expression"),
    r"^<&str as helpers::IntoRequestParts>::into_request_parts\|result-unwrap\|unwrap\|<=Builder::body$|^<http::Uri as helpers::IntoRequestParts>::into_request_parts\|result-unwrap\|unwrap\|<=Builder::body$": ("by-construction", "test/convenience helper for building request parts from a caller-supplied address (TransportExt::oneshot); a malformed &str is the caller's literal, the http::Uri form cannot fail"),
    r"^polled_span\|option-unwrap\|expect\|Missing ID; this is a bug\|<=Span::id$": ("by-construction", "tracing span bookkeeping"),
    r"^<stream::tcp::TcpStream as info::HasConnectionInfo>::info\|result-unwrap\|expect\|(peer|local)_addr is available for stream\|<=TcpStream::(peer|local)_addr$": ("by-construction", "getpeername/getsockname on a socket that connect() just reported as connected"),
    r"^<stream::unix::UnixStream as info::HasConnectionInfo>::info\|result-unwrap\|expect\|(peer|local)_addr is available for unix stream\|<=UnixStream::(peer|local)_addr$": ("by-construction", "address of a connected unix socket; the path is the caller's own configuration"),
    r"^<rewind::Rewind as hyper::rt::Read>::poll_read\|": ("guarded", "n = min(prefix.len(), remaining): C08.5"),
    r"^client::conn::stream::tls::TlsStream::new\|result-unwrap\|expect\|should be valid dns name\|<=ServerName::try_from$": ("guarded", "on the request path the domain was validated with ServerName::try_from in TlsTransportWrapper::call before any connection is made", _tls_domain_validated),
    r"^<client::conn::stream::tls::TlsStream as std::convert::From>::from\|option-unwrap\|expect\|tls connect should have stream\|<=Connect::get_ref$": ("by-construction", "tokio_rustls::Connect::get_ref() is Some for the Connect future that TlsStream::new created in the previous statement (not yet polled)"),
    r"^client::conn::stream::Stream::map\|panic": ("by-construction", "API misuse (map on a TLS stream) by the embedding program, never called by the crate on the request path"),
    r"^client::default_tls_config\|result-unwrap\|(unwrap|expect)(\|could not load platform certs)?\|<=(RootCertStore::add|rustls_native_certs::load_native_certs|\?)$": ("by-construction", "platform certificate store is loaded when the client is configured, before any request exists"),
    r"^client::conn::stream::Stream::tls\|panic": ("by-construction", "Stream::tls called twice: the transport calls it once on a freshly built plain stream (ClientStream::new(..).tls(..))"),
    r"^<client::conn::transport::tls::future::TlsConnectionFuture as futures_core::Future>::poll\|panic": ("by-construction", "state machine: project_replace on the state the enclosing arm just matched / polled after ready"),
    r"^client::conn::transport::tcp::.*\|panic\|": ("by-construction", "socket option plumbing independent of request values"),
    r"^info::tls::.*\|": ("by-construction", "TLS info channel state"),
    r"^client::conn::dns::.*\|(slice-index|container-index|assert-)": ("guarded", "indices recorded by the scan in sort_preferred (C16.3)"),
}


def C17(ctx, facts):
    entries = client_entries(facts)
    ctx.floor("client-entries", len(entries), 60, "request entry points (Service::call / Future::poll / async bodies / public client fns)")

    def scope(fn):
        return not fn.nkey.startswith(("server::", "<server::"))
    st = panics.run(ctx, facts, entries, TABLE, "client", min_sites=30, scope=scope)
    ctx.assume("E-PANIC client (%s): %s" % (ctx.cur_config, st))


def C17_ext(ctx, facts):
    """A panic precondition outside the crate: hyper's HTTP/2 client strips a `Connection` header with
    `to_str().unwrap()` inside the connection task hyperdriver spawns, so an opaque (non-ASCII, yet valid) Connection value
    panics that task.  hyperdriver's guard is that every request sent on an HTTP/2 connection has had the connection-specific
    headers removed (check_http2_request); the rule re-uses C13.4's all-paths obligation for exactly that removal."""
    import c13
    n0 = len(ctx.obs)
    c13.C13_4(ctx, facts)
    mine = [o for o in ctx.obs[n0:] if "h2-table|HTTP_2|GET" in o.key or "h2-table-rows" in o.key]
    ctx.obs[n0:] = mine
    ctx.floor("check_http2_request|connection-header-obligations", len(mine), 2, "obligations on the removal of connection-specific headers")
    # second external precondition: hyper's HTTP/1 encoder panics on a request version it cannot write (`unexpected request
    # version` for HTTP/0.9).  hyperdriver's guard is that every request handed to an HTTP/1 sender is stamped HTTP/1.1 first
    # (C13.5, H1 arm); From<Version> for HttpProtocol sends every non-HTTP/2 version to an HTTP/1 connection and relies on it.
    n1 = len(ctx.obs)
    c13.C13_5(ctx, facts)
    mine2 = [o for o in ctx.obs[n1:] if "H1-version" in o.key]
    ctx.obs[n1:] = mine2
    ctx.floor("HttpConnection::send_request|h1-stamp-obligation", len(mine2), 1, "obligation that HTTP/1 requests are stamped HTTP/1.1")
    ctx.assume("hyper 1.x h2 client: headers.remove(CONNECTION) followed by to_str().unwrap() (proto/h2/mod.rs) is the only header-dependent panic "
               "of the vendored hyper reachable from a request that hyperdriver forwards; found by a seeded change, not by a scan of hyper")


RULES = [
    ("E-PANIC", C17, ["default", "tls"]),
    ("C17.ext", C17_ext, ["default"]),
]

THOROUGH_RULES = [("clippy-xref", panics.clippy_crosscheck)]
