"""hdlint analysis primitives over mirfacts JSON (DESIGN.md section 3).

P-dom / P-cut   : Fn.dominates, Fn.reach, Fn.path (block / edge deletion reachability)
P-edge / P-guard: Fn.edges with Label (variant of a discriminant, truth value of a modelled predicate)
P-slice         : Fn.roots (backward def-use slice to parameters / call results / constants)
P-calls / P-who : Fn.calls, Facts.callers
P-reach         : Facts.reach (call graph with CHA expansion for unresolved trait calls)
P-type          : Facts.adts / impls / traits lookups

Everything is computed from the fact file; no hyperdriver code is executed.
"""
import re
from collections import defaultdict, deque

from mir import place_str, op_place, op_str, rv_str, term_str, is_noise, callee_name


# ---------------------------------------------------------------- path normalisation

def norm(path):
    """Strip generic arguments from a def path so that keys survive renaming of type parameters.

    `client::pool::PoolInner::<C, B>::push`                     -> `client::pool::PoolInner::push`
    `<client::pool::WhenReady<C, B> as std::ops::Drop>::drop`   -> `<client::pool::WhenReady as std::ops::Drop>::drop`
    `a::_::<impl a::Waiting<C, B>>::project`                    -> `a::_::<impl a::Waiting>::project`
    """
    if path is None:
        return None
    out = []
    i = 0
    n = len(path)

    def skip_balanced(j):
        depth = 0
        while j < n:
            c = path[j]
            if c == "<":
                depth += 1
            elif c == ">" and not (j > 0 and path[j - 1] == "-"):
                depth -= 1
                if depth == 0:
                    return j + 1
            j += 1
        return n

    while i < n:
        c = path[i]
        if c == "<":
            prev = path[i - 1] if i > 0 else ""
            if path.startswith("<impl ", i):
                out.append(c)
                i += 1
                continue
            if prev == ":" and path[i - 2:i] == "::":
                # turbofish: drop `::<...>`
                j = skip_balanced(i)
                # remove the trailing '::' already emitted
                while out and out[-1] == ":":
                    out.pop()
                i = j
                continue
            if prev.isalnum() or prev == "_":
                i = skip_balanced(i)
                continue
            out.append(c)
            i += 1
            continue
        out.append(c)
        i += 1
    return "".join(out)


# ---------------------------------------------------------------- labels

class Label:
    """Label of a CFG edge leaving a SwitchInt."""

    def __init__(self, kind, **kw):
        self.kind = kind  # 'variant' | 'bool' | 'int'
        self.__dict__.update(kw)

    def __repr__(self):
        if self.kind == "variant":
            return "<%s is %s>" % (place_str(self.place), "|".join(sorted(self.variants)))
        if self.kind == "bool":
            return "<%s == %s>" % (self.cond, self.value)
        return "<int %s>" % (self.value,)


class Cond:
    """Provenance of a boolean switch operand."""

    def __init__(self, kind, neg=False, **kw):
        self.kind = kind  # 'call' | 'binop' | 'const' | 'multi' | 'unknown'
        self.neg = neg
        self.__dict__.update(kw)

    def __repr__(self):
        n = "!" if self.neg else ""
        if self.kind == "call":
            return "%s%s@bb%d" % (n, norm(self.site.name), self.site.bb)
        if self.kind == "binop":
            return "%s%s(%s,%s)" % (n, self.op, op_str(self.a), op_str(self.b))
        if self.kind == "arg":
            return "%sarg:%s" % (n, self.name)
        if self.kind == "place":
            return "%s%s" % (n, place_str(self.place))
        return "%s%s" % (n, self.kind)


class CallSite:
    def __init__(self, fn, bb, t):
        self.fn = fn
        self.bb = bb
        self.t = t
        self.res = t.get("res")
        self.decl = t.get("decl")
        self.name = self.res or self.decl or ("<indirect %s>" % t.get("fty"))
        self.nres = norm(self.res)
        self.ndecl = norm(self.decl)
        self.args = t.get("args", [])
        self.dest = t.get("dest")
        self.target = t.get("t")
        self.line = t.get("fl") or t.get("l")
        self.noise = is_noise(t)

    def is_(self, *names):
        """True if the resolved or declared callee (generics stripped) equals / ends with one of names."""
        for nm in names:
            for cand in (self.nres, self.ndecl):
                if cand is None:
                    continue
                if cand == nm or cand.endswith("::" + nm) or (nm.startswith("<") and cand == nm):
                    return True
        return False

    def matches(self, regex):
        for cand in (self.nres, self.ndecl, self.res, self.decl):
            if cand is not None and re.search(regex, cand):
                return True
        return False

    def where(self):
        return "%s:%s" % (self.fn.blocks[self.bb].get("file") or self.fn.file, self.line)

    def __repr__(self):
        return "call %s @bb%d (%s)" % (norm(self.name), self.bb, self.where())


class Root:
    def __init__(self, kind, desc, **kw):
        self.kind = kind  # 'arg' | 'call' | 'const' | 'agg' | 'unknown' | 'upvar'
        self.desc = desc
        self.__dict__.update(kw)

    def __hash__(self):
        return hash((self.kind, self.desc))

    def __eq__(self, o):
        return (self.kind, self.desc) == (o.kind, o.desc)

    def __repr__(self):
        return "%s:%s" % (self.kind, self.desc)


STD_DISPATCH = {"From", "TryFrom", "FromStr", "Display", "Default", "Clone", "PartialEq", "PartialOrd", "Ord", "Hash", "AsRef", "AsMut",
                "Deref", "DerefMut", "FromIterator", "Extend", "IntoIterator", "Iterator", "Borrow", "ToOwned", "Error"}

TRANSPARENT = ("Deref::deref", "DerefMut::deref_mut", "Pin::as_mut", "Pin::get_mut", "Pin::as_ref", "Pin::get_ref",
               "Pin::get_unchecked_mut", "Pin::into_ref", "Pin::new", "Pin::new_unchecked", "Pin::into_inner",
               "Pin::set", "AsMut::as_mut", "AsRef::as_ref", "Borrow::borrow", "BorrowMut::borrow_mut")


def is_transparent(site):
    """Calls through which a field path of the result is the same field path of the receiver:
    Deref / Pin plumbing and pin-project's struct `project()` (projection structs keep field names)."""
    n = norm(site.name)
    for t in TRANSPARENT:
        if n.endswith("::" + t) or n.endswith(">::" + t.split("::")[-1]) and t.split("::")[0] in n:
            return True
    last = n.split("::")[-1]
    if last in ("project", "project_ref") and "::_::<impl " in n:
        return True
    return False


# ---------------------------------------------------------------- function model

class Fn:
    def __init__(self, facts, key, d):
        self.facts = facts
        self.key = key
        self.nkey = norm(key)
        self.d = d
        self.file = d.get("file")
        self.span = d.get("span")
        self.argc = int(d["argc"])
        self.locals = d["locals"]
        self.blocks = d["blocks"]
        self.n = len(self.blocks)
        self._build_cfg()
        self._defs = None
        self._idom = None
        self._edges = None
        self._calls = None

    # ---- basic accessors
    def term(self, b):
        return self.blocks[b]["t"]

    def stmts(self, b):
        return self.blocks[b]["s"]

    def where(self, b=None):
        if b is None:
            return self.span
        return "%s:%s" % (self.blocks[b].get("file") or self.file, self.term(b).get("l"))

    def local_name(self, l):
        for n, p in self.d["names"]:
            if p["l"] == l and not p["p"]:
                return n
        return None

    def named_local(self, name):
        """All locals bound to a user variable name (shadowing gives several)."""
        return [p["l"] for n, p in self.d["names"] if n == name and not p["p"]]

    # ---- CFG
    def _build_cfg(self):
        succ = [[] for _ in range(self.n)]
        unreachable = set()
        for b, blk in enumerate(self.blocks):
            if blk["t"]["k"] == "unreachable":
                unreachable.add(b)
        self.unreachable_blocks = unreachable
        for b, blk in enumerate(self.blocks):
            t = blk["t"]
            k = t["k"]
            out = []
            if k in ("goto", "drop", "assert", "false_edge", "false_unwind", "yield"):
                out.append(t["t"])
            elif k == "call":
                if t.get("t") is not None:
                    out.append(t["t"])
            elif k == "switch":
                for _, tb in t["ts"]:
                    out.append(tb)
                out.append(t["else"])
            seen = []
            for o in out:
                if o is None or o in seen:
                    continue
                seen.append(o)
            succ[b] = seen
        self.succ_all = succ
        # normal successors: drop compiler-made unreachable blocks and cleanup blocks
        self.succ = [[s for s in ss if s not in unreachable and not self.blocks[s]["cleanup"]] for ss in succ]
        pred = [[] for _ in range(self.n)]
        for b, ss in enumerate(self.succ):
            for s in ss:
                pred[s].append(b)
        self.pred = pred
        self.live = self.reach([0]) if self.n else set()
        self.returns = [b for b in self.live if self.term(b)["k"] == "return"]

    def reach(self, srcs, avoid_blocks=(), avoid_edges=(), include_src=True):
        """Blocks reachable from srcs without entering avoid_blocks / taking avoid_edges.

        A source block that is itself in avoid_blocks is still expanded (the path *starts* there)."""
        avoid_blocks = set(avoid_blocks)
        avoid_edges = set(avoid_edges)
        seen = set()
        dq = deque()
        for s in srcs:
            if s not in seen:
                seen.add(s)
                dq.append(s)
        first = set(srcs)
        while dq:
            b = dq.popleft()
            if b in avoid_blocks and b not in first:
                continue
            for s in self.succ[b]:
                if (b, s) in avoid_edges or s in avoid_blocks and False:
                    continue
                if s in seen:
                    continue
                if s in avoid_blocks:
                    # entering an avoided block is not allowed
                    continue
                seen.add(s)
                dq.append(s)
        if not include_src:
            # only blocks reached by at least one edge
            res = set()
            for b in seen:
                if b not in first:
                    res.add(b)
                else:
                    # source reached again through a cycle?
                    for p in self.pred[b]:
                        if p in seen and (p, b) not in avoid_edges and not (p in avoid_blocks and p not in first):
                            res.add(b)
                            break
            return res
        return seen

    def path(self, src, dsts, avoid_blocks=(), avoid_edges=()):
        """Shortest block path src -> any of dsts under the same avoidance rules, or None."""
        avoid_blocks = set(avoid_blocks)
        avoid_edges = set(avoid_edges)
        dsts = set(dsts)
        prev = {src: None}
        dq = deque([src])
        while dq:
            b = dq.popleft()
            if b in dsts and (b != src or prev[b] is not None):
                out = []
                x = b
                while x is not None:
                    out.append(x)
                    x = prev[x]
                return list(reversed(out))
            if b in avoid_blocks and b != src:
                continue
            for s in self.succ[b]:
                if (b, s) in avoid_edges or s in avoid_blocks or s in prev:
                    continue
                prev[s] = b
                dq.append(s)
        if src in dsts:
            return [src]
        return None

    def path_desc(self, path):
        if not path:
            return ""
        return " -> ".join("bb%d@%s" % (b, self.term(b).get("l")) for b in path)

    # ---- dominators (iterative, on live non-cleanup blocks)
    def _compute_idom(self):
        order = []
        seen = set()

        def dfs(b):
            stack = [(b, iter(self.succ[b]))]
            seen.add(b)
            while stack:
                node, it = stack[-1]
                adv = False
                for s in it:
                    if s not in seen:
                        seen.add(s)
                        stack.append((s, iter(self.succ[s])))
                        adv = True
                        break
                if not adv:
                    order.append(node)
                    stack.pop()

        dfs(0)
        rpo = list(reversed(order))
        idx = {b: i for i, b in enumerate(rpo)}
        idom = {0: 0}
        changed = True
        while changed:
            changed = False
            for b in rpo[1:]:
                new = None
                for p in self.pred[b]:
                    if p in idom:
                        if new is None:
                            new = p
                        else:
                            a, c = p, new
                            while a != c:
                                while idx[a] > idx[c]:
                                    a = idom[a]
                                while idx[c] > idx[a]:
                                    c = idom[c]
                            new = a
                if new is not None and idom.get(b) != new:
                    idom[b] = new
                    changed = True
        self._idom = idom

    def dominates(self, a, b):
        if self._idom is None:
            self._compute_idom()
        if b not in self._idom or a not in self._idom:
            return False
        x = b
        while True:
            if x == a:
                return True
            if x == 0:
                return False
            x = self._idom[x]

    # ---- definitions
    def defs(self, local):
        """All definition sites of a whole local: ('stmt', bb, idx, stmt) / ('call', bb, term) / ('yield', bb, term)."""
        if self._defs is None:
            d = defaultdict(list)
            for b, blk in enumerate(self.blocks):
                if blk["cleanup"]:
                    continue
                for i, s in enumerate(blk["s"]):
                    if s["k"] == "assign":
                        p = s["p"]
                        d[p["l"]].append(("stmt", b, i, s))
                t = blk["t"]
                if t["k"] == "call":
                    d[t["dest"]["l"]].append(("call", b, t))
                elif t["k"] == "yield":
                    d[t["ra"]["l"]].append(("yield", b, t))
            self._defs = d
        return self._defs.get(local, [])

    def whole_defs(self, local):
        out = []
        for d in self.defs(local):
            if d[0] == "stmt":
                if not d[3]["p"]["p"]:
                    out.append(d)
            elif d[0] == "call":
                if not d[2]["dest"]["p"]:
                    out.append(d)
            else:
                out.append(d)
        return out

    def unique_def(self, local):
        ds = self.whole_defs(local)
        if len(ds) == 1:
            return ds[0]
        return None

    def call_defining(self, place_or_local, depth=12):
        """CallSite whose result flows (through moves / copies / refs / field projections) into the local."""
        l = place_or_local if isinstance(place_or_local, int) else place_or_local["l"]
        seen = set()
        while depth > 0 and l not in seen:
            seen.add(l)
            depth -= 1
            d = self.unique_def(l)
            if d is None:
                return None
            if d[0] == "call":
                return CallSite(self, d[1], d[2])
            if d[0] != "stmt":
                return None
            r = d[3]["r"]
            if r["k"] in ("use", "cast"):
                p = op_place(r["o"])
                if p is None:
                    return None
                # a field of a tuple built just before (`let (a, b) = (&x[i..], &y[i..]);`): follow that component
                fs = [e for e in p["p"] if isinstance(e, dict) and "f" in e]
                if len(fs) == 1 and len(p["p"]) == 1:
                    dt = self.unique_def(p["l"])
                    if dt is not None and dt[0] == "stmt" and dt[3]["r"]["k"] == "agg" and not dt[3]["r"].get("adt") and int(fs[0]["f"]) < len(dt[3]["r"].get("ops", [])):
                        q = op_place(dt[3]["r"]["ops"][int(fs[0]["f"])])
                        if q is None:
                            return None
                        l = q["l"]
                        continue
                l = p["l"]
            elif r["k"] in ("ref", "copyderef", "rawptr"):
                l = r["p"]["l"]
            else:
                return None
        return None

    # ---- calls
    def calls(self, *names, noise=False):
        if self._calls is None:
            cs = []
            for b in sorted(self.live):
                t = self.term(b)
                if t["k"] == "call":
                    cs.append(CallSite(self, b, t))
            self._calls = cs
        out = []
        for c in self._calls:
            if c.noise and not noise:
                continue
            if not names or c.is_(*names):
                out.append(c)
        return out

    def aggregates(self, adt=None, variant=None):
        """(bb, idx, stmt) of Aggregate assignments building `adt` (normalised path suffix) [::variant]."""
        out = []
        for b in sorted(self.live):
            for i, s in enumerate(self.stmts(b)):
                if s["k"] != "assign" or s["r"]["k"] != "agg":
                    continue
                r = s["r"]
                if adt is not None:
                    a = r.get("adt")
                    if a is None or not (a == adt or a.endswith("::" + adt)):
                        continue

                if variant is not None and r.get("v") != variant:
                    continue
                out.append((b, i, s))
        return out

    def closures_created(self):
        out = []
        for b in sorted(self.live):
            for i, s in enumerate(self.stmts(b)):
                if s["k"] == "assign" and s["r"]["k"] == "agg":
                    r = s["r"]
                    for kk in ("closure", "coroutine", "coroutine_closure"):
                        if kk in r:
                            out.append((b, i, s, r[kk]))
        return out

    # ---- edge labels
    def reaching_defs(self, local, at):
        """The whole-local definitions that can reach the end of block `at` (a later definition on the way kills an earlier
        one).  Copies of a block made by jump threading define the same local in several places; only one reaches a test."""
        ds = self.whole_defs(local)
        if len(ds) <= 1 or at is None:
            return ds
        blocks = {d[1] for d in ds}
        here = [d for d in ds if d[1] == at]
        if here:
            return here[-1:]
        out = []
        for d in ds:
            starts = [d[2]["t"]] if d[0] == "call" and d[2].get("t") is not None else list(self.succ[d[1]])
            if d[0] == "call" and at == d[2].get("t"):
                out.append(d)
                continue
            other = blocks - ({d[1]} if d[0] != "call" else set())
            if any(x == at or (x not in other and self.path(x, [at], avoid_blocks=other) is not None) for x in starts):
                out.append(d)
        return out

    def cond_of(self, operand, depth=10, at=None):
        p = op_place(operand)
        if p is None:
            k = operand.get("k", {})
            return Cond("const", value=k.get("v"))
        if p["p"]:
            return Cond("unknown")
        neg = False
        l = p["l"]
        while depth > 0:
            depth -= 1
            ds = self.whole_defs(l)
            if not ds and 1 <= l <= self.argc:
                return Cond("arg", neg=neg, local=l, name=self.local_name(l))
            if len(ds) > 1 and at is not None:
                ds = self.reaching_defs(l, at)
            if len(ds) != 1:
                return Cond("multi" if ds else "unknown", neg=neg, local=l, defs=ds)
            d = ds[0]
            if at is not None:
                at = d[1]    # continue from where this definition sits
            if d[0] == "call":
                return Cond("call", neg=neg, site=CallSite(self, d[1], d[2]))
            if d[0] != "stmt":
                return Cond("unknown", neg=neg)
            r = d[3]["r"]
            if r["k"] == "use":
                q = op_place(r["o"])
                if q is None:
                    return Cond("const", neg=neg, value=r["o"]["k"].get("v"))
                if q["p"]:
                    return Cond("place", neg=neg, place=q)
                l = q["l"]
                continue
            if r["k"] == "unop" and r["op"] == "Not":
                q = op_place(r["o"])
                if q is None or q["p"]:
                    return Cond("unknown", neg=neg)
                neg = not neg
                l = q["l"]
                continue
            if r["k"] == "binop":
                return Cond("binop", neg=neg, op=r["op"], a=r["a"], b=r["b"], bb=d[1])
            return Cond("unknown", neg=neg)
        return Cond("unknown", neg=neg)

    def edges(self):
        """List of (src, dst, Label|None) over live blocks."""
        if self._edges is not None:
            return self._edges
        out = []
        for b in sorted(self.live):
            t = self.term(b)
            if t["k"] != "switch":
                for s in self.succ[b]:
                    out.append((b, s, None))
                continue
            o = t["o"]
            p = op_place(o)
            lab = None
            discr = None
            if p is not None and not p["p"]:
                ds = self.whole_defs(p["l"])
                if len(ds) == 1 and ds[0][0] == "stmt" and ds[0][3]["r"]["k"] == "discr":
                    discr = ds[0][3]["r"]
            if discr is not None and "vars" in discr:
                vmap = {v: name for v, name in discr["vars"]}
                allv = set(vmap.values())
                named = set()
                tmp = []
                for v, tb in t["ts"]:
                    nm = vmap.get(v, "?" + v)
                    named.add(nm)
                    tmp.append((tb, {nm}))
                tmp.append((t["else"], allv - named))
                # merge per target
                per = defaultdict(set)
                for tb, vs in tmp:
                    per[tb] |= vs
                for tb in self.succ[b]:
                    out.append((b, tb, Label("variant", place=discr["p"], adt=discr.get("adt"), variants=per.get(tb, set()), sw=b)))
                continue
            if t.get("oty") == "bool":
                cond = self.cond_of(o, at=b)
                # `[0: F, else: T]`
                fb = None
                for v, tb in t["ts"]:
                    if v == "0":
                        fb = tb
                tb_true = t["else"]
                for tb in self.succ[b]:
                    if tb == fb and tb != tb_true:
                        val = False
                    elif tb == tb_true and tb != fb:
                        val = True
                    else:
                        val = None
                    if val is not None and cond.neg:
                        eff = not val
                    else:
                        eff = val
                    out.append((b, tb, Label("bool", cond=cond, value=eff, raw=val, sw=b)))
                continue
            for v, tb in t["ts"]:
                if tb in self.succ[b]:
                    out.append((b, tb, Label("int", value=v, operand=o, sw=b)))
            if t["else"] in self.succ[b]:
                out.append((b, t["else"], Label("int", value="else", operand=o, sw=b)))
        self._edges = out
        return out

    def edges_where(self, pred):
        return [(a, b) for (a, b, lab) in self.edges() if lab is not None and pred(lab)]

    def guarded(self, block, pred, frm=0):
        """Every path frm -> block takes at least one edge whose label satisfies pred.

        Returns (True, None) or (False, witness_path)."""
        good = set(self.edges_where(pred))
        if not good:
            return (False, self.path(frm, [block]))
        p = self.path(frm, [block], avoid_edges=good)
        if p is None:
            return (True, None)
        # the syntactic path may be infeasible (`matches!` / bool temporaries): retry path-sensitively
        try:
            reached, _ = AbsPaths(self).explore(frm, avoid_edges=good)
            if block not in reached:
                return (True, None)
        except AbsPaths.Undecided:
            pass
        return (False, p)

    def must_pass(self, frm, dsts, through_blocks):
        """P-cut: every path frm -> dsts passes through one of through_blocks. Returns (ok, witness)."""
        if frm in set(through_blocks):
            return (True, None)
        p = self.path(frm, dsts, avoid_blocks=through_blocks)
        if p is None:
            return (True, None)
        # the syntactic path may be infeasible (a helper's `Err` return cannot take the caller's `Ok` arm, ...): retry with the
        # path-sensitive exploration, which knows the variants of values it has seen constructed
        try:
            reached, _ = AbsPaths(self, limit=6000).explore(frm, stop_blocks=set(through_blocks))
            if not (set(dsts) & (reached - (set(through_blocks) - {frm}))):
                return (True, None)
        except AbsPaths.Undecided:
            pass
        return (False, p)

    # ---- slicing
    def roots(self, operand_or_place, through_calls=True, max_nodes=4000, stop_at_call=None):
        """Backward slice of a value to its roots.

        Roots: arg:<n><.fields>, call:<callee>@bb, const:<v>, upvar:<name>.  When through_calls is set,
        a call result is rooted in the call itself *and* in the roots of its arguments.
        `stop_at_call(site)` may return True to stop at a given call."""
        if "l" in operand_or_place and "p" in operand_or_place:
            place = operand_or_place
        else:
            place = op_place(operand_or_place)
            if place is None:
                k = operand_or_place.get("k", {})
                return {Root("const", k.get("item") or k.get("fn") or k.get("v"))}
        roots = set()
        seen = set()
        work = [(place["l"], self._fields(place))]
        count = 0
        while work:
            l, fields = work.pop()
            keyv = (l, fields)
            if keyv in seen:
                continue
            seen.add(keyv)
            count += 1
            if count > max_nodes:
                roots.add(Root("unknown", "slice-budget"))
                break
            if 1 <= l <= self.argc:
                nm = self.local_name(l) or ("_%d" % l)
                roots.add(Root("arg", nm + "".join("." + f for f in fields), index=l, fields=fields))
                # arguments may still be reassigned; continue into defs as well
            ds = self.defs(l)
            if not ds and not (1 <= l <= self.argc):
                roots.add(Root("unknown", "undef:_%d" % l))
            for d in ds:
                if d[0] == "call":
                    site = CallSite(self, d[1], d[2])
                    if d[2]["dest"]["p"]:
                        # call writes into a projection of the local
                        pass
                    roots.add(Root("call", "%s@bb%d" % (norm(site.name), site.bb), site=site, fields=fields))
                    if through_calls and not (stop_at_call and stop_at_call(site)):
                        carry = fields if (site.args and is_transparent(site)) else ()
                        for ai, a in enumerate(site.args):
                            ap = op_place(a)
                            if ap is not None:
                                work.append((ap["l"], self._fields(ap) + (carry if ai == 0 else ())))
                            else:
                                k = a.get("k", {})
                                if "closure" in k or k.get("ty", "").startswith("{closure"):
                                    continue
                    continue
                if d[0] == "yield":
                    roots.add(Root("unknown", "resume-arg"))
                    continue
                s = d[3]
                if 1 <= l <= self.argc and s["p"]["p"] and s["p"]["p"][0] == "*":
                    # a write through a reference parameter updates the pointee; the parameter itself is the root
                    continue
                tgt_fields = self._fields(s["p"])
                # assignment to a sub-place only matters if it overlaps the requested fields
                if tgt_fields and fields and not self._overlap(tgt_fields, fields):
                    continue
                r = s["r"]
                rest = fields[len(tgt_fields):] if len(fields) >= len(tgt_fields) else ()
                k = r["k"]
                if k in ("use", "cast", "repeat", "unop"):
                    q = op_place(r["o"])
                    if q is None:
                        kk = r["o"].get("k", {})
                        roots.add(Root("const", kk.get("item") or kk.get("fn") or kk.get("v")))
                    else:
                        work.append((q["l"], self._fields(q) + rest))
                elif k in ("ref", "copyderef", "rawptr", "discr"):
                    q = r["p"]
                    work.append((q["l"], self._fields(q) + rest))
                elif k == "binop":
                    for o in (r["a"], r["b"]):
                        q = op_place(o)
                        if q is None:
                            kk = o.get("k", {})
                            roots.add(Root("const", kk.get("item") or kk.get("v")))
                        else:
                            work.append((q["l"], self._fields(q)))
                elif k == "agg":
                    ops = r["ops"]
                    names = r.get("fields")
                    sel = None
                    if rest:
                        f0 = rest[0]
                        if names and f0 in names and len(names) == len(ops):
                            sel = names.index(f0)
                        elif f0.isdigit() and int(f0) < len(ops):
                            sel = int(f0)
                        elif f0.startswith("cap:"):
                            sel = None
                    chosen = [ops[sel]] if sel is not None else ops
                    sub = rest[1:] if sel is not None else ()
                    for kk in ("closure", "coroutine", "coroutine_closure"):
                        if kk in r:
                            roots.add(Root("closure", r[kk], key=r[kk]))
                    if not ops and "adt" in r:
                        roots.add(Root("agg", "%s::%s" % (r.get("adt"), r.get("v"))))
                    for o in chosen:
                        q = op_place(o)
                        if q is None:
                            kk = o.get("k", {})
                            roots.add(Root("const", kk.get("item") or kk.get("fn") or kk.get("v")))
                        else:
                            work.append((q["l"], self._fields(q) + sub))
                else:
                    roots.add(Root("unknown", k))
        return roots

    @staticmethod
    def _fields(place):
        out = []
        for e in place["p"]:
            if isinstance(e, dict) and "f" in e:
                out.append(e["n"] if e.get("n") is not None else str(e["f"]))
        return tuple(out)

    @staticmethod
    def _overlap(a, b):
        n = min(len(a), len(b))
        return a[:n] == b[:n]

    def block_of_stmt_assigning(self, pred):
        out = []
        for b in sorted(self.live):
            for i, s in enumerate(self.stmts(b)):
                if s["k"] == "assign" and pred(s):
                    out.append((b, i, s))
        return out

    def dump(self, quiet=True):
        from mir import fn_str
        return fn_str(self.key, self.d, quiet=quiet)


_ATOMS = None
# functions some rule treats as one step although it names them only through a pattern
EXTRA_ATOMS = {"stream::duplex::DuplexConnectionRequest::ack"}


def atoms():
    """Crate-local function paths that some rule refers to by name: these stay calls (atoms) when units are built."""
    global _ATOMS
    if _ATOMS is None:
        import glob
        import os
        names = set()
        here = os.path.dirname(os.path.abspath(__file__))
        for p in glob.glob(os.path.join(here, "*.py")):
            with open(p) as fh:
                src = fh.read()
            for m in re.finditer(r'"(<?(?:client|server|service|stream|bridge|rewind|happy_eyeballs|info|body)::[A-Za-z0-9_:<> ]+)"', src):
                names.add(norm(m.group(1)))
        _ATOMS = names | EXTRA_ATOMS
    return _ATOMS


# ---------------------------------------------------------------- whole-crate model

class Facts:
    def __init__(self, data, config="default"):
        self.data = data
        self.config = config
        self.fns = {}
        self.by_norm = defaultdict(list)
        for k, d in data["fns"].items():
            f = Fn(self, k, d)
            self.fns[k] = f
            self.by_norm[f.nkey].append(f)
        self.adts = {a["path"]: a for a in data["adts"]}
        self.impls = data["impls"]
        self.traits = {t["path"]: t for t in data["traits"]}
        self._callers = None
        self._cg = None
        self.drop_impls = []
        # trait item -> impl fn keys (for CHA)
        self.trait_impls = defaultdict(list)
        for im in self.impls:
            tr = im.get("trait")
            if not tr:
                continue
            for it in im["items"]:
                if it["kind"].startswith("Fn"):
                    self.trait_impls[(norm(tr), it["name"])].append(it["key"])
                    if tr.split("::")[-1] in ("Drop", "PinnedDrop") and im.get("self_adt"):
                        self.drop_impls.append((im["self_adt"], it["key"]))

    def inl(self, fn, depth=2, want=None):
        """`fn` with crate-local callees spliced in (see inline.py); cached per (fn, depth) when no filter is given."""
        import inline
        if want is not None:
            return inline.inline(self, fn, depth, want)
        key = (fn.key, depth)
        if not hasattr(self, "_inl"):
            self._inl = {}
        if key not in self._inl:
            self._inl[key] = inline.inline(self, fn, depth)
        return self._inl[key]

    def _capture_index(self, fn, capname):
        def walk(x):
            if isinstance(x, list):
                for y in x:
                    r = walk(y)
                    if r is not None:
                        return r
            elif isinstance(x, dict):
                if isinstance(x.get("l"), int) and isinstance(x.get("p"), list):
                    if x["l"] == 1:
                        for e in x["p"]:
                            if isinstance(e, dict) and e.get("n") == capname and "f" in e:
                                return e["f"]
                    return None
                for v in x.values():
                    if isinstance(v, (dict, list)):
                        r = walk(v)
                        if r is not None:
                            return r
            return None
        for blk in fn.blocks:
            r = walk(blk["s"])
            if r is None:
                r = walk(blk["t"])
            if r is not None:
                return r
        return None

    def roots_up(self, fn, operand_or_place, depth=3, **kw):
        """Backward slice that continues through closure captures into the function that created the closure:
        a root `arg:_1.cap:x` of a closure body is replaced by the roots of the captured operand at the creation site.
        A value computed outside a closure and captured, or computed inside it, then has the same roots."""
        rr = fn.roots(operand_or_place, **kw)
        if depth <= 0:
            return rr
        parent = self.fns.get(fn.d.get("parent")) if fn.d.get("kind") in ("Closure", "InlineConst") or "{closure" in fn.key else None
        if parent is None:
            return rr
        out = set()
        for r in rr:
            caps = [f for f in (getattr(r, "fields", ()) or ()) if isinstance(f, str) and f.startswith("cap:")]
            if r.kind == "arg" and getattr(r, "index", None) == 1 and caps:
                idx = self._capture_index(fn, caps[0])
                sites = [(b, i, st) for (b, i, st, k) in parent.closures_created() if k == fn.key]
                if idx is not None and sites and idx < len(sites[0][2]["r"]["ops"]):
                    for (b, i, st) in sites:
                        out |= self.roots_up(parent, st["r"]["ops"][idx], depth - 1, **kw)
                    continue
            out.add(r)
        return out

    def unit(self, fn, depth=3, expand=False):
        """`fn` as a unit of analysis: its body with every crate-local helper spliced in, except the functions the rules
        treat as atoms (those a rule names - see atoms()) and trait-impl methods.  A rule evaluated on unit(f) gives the same
        verdict whether a step of f sits inline, in a freshly extracted private helper, or in a method split off f."""
        if not hasattr(self, "_units"):
            self._units = {}
        key = (fn.key, depth, expand)
        if key not in self._units:
            at = atoms()

            def want(ck, raw):
                if "::_::" in ck:
                    return False  # pin-project's generated project()/project_replace() (modelled as transparent)
                if raw.get("impl_trait") and raw["impl_trait"].split("::")[-1] not in ("From", "TryFrom", "Into", "TryInto", "FromStr", "Default"):
                    return False  # trait impls stay calls, except crate-local conversions (logic "pushed into a From impl")
                n = norm(ck)
                if n in at:
                    return False
                for a in at:
                    if "::" in a and n.endswith("::" + a):
                        return False
                return True
            import inline
            self._units[key] = inline.inline(self, fn, depth, want, expand=expand)
        return self._units[key]

    def family(self, fn, depth=3):
        """`fn` together with the code that is lexically / structurally part of it wherever a maintainer puts it: the closures
        and async blocks it creates, the crate-local functions it calls (resolved callees with a body), function items it
        passes by name, and the same for those, `depth` levels deep.  Used by site rules ("somewhere in the making of X, Y
        is called with ...") so that extracting a helper or naming a closure does not move the site out of sight."""
        seen = {fn.key: fn}
        frontier = [fn]
        for _ in range(depth):
            nxt = []
            for g in frontier:
                keys = [k for (_, _, _, k) in g.closures_created()]
                for b in g.live:
                    t = g.term(b)
                    if t["k"] == "call":
                        if t.get("resl") and t.get("res") in self.fns and not is_noise(t):
                            keys.append(t["res"])
                        for a in t.get("args", []):
                            k = a.get("k") if isinstance(a, dict) else None
                            if k and k.get("fn") in self.fns:
                                keys.append(k["fn"])
                            if k and k.get("fna") in self.fns:
                                keys.append(k["fna"])
                for k in keys:
                    if k in self.fns and k not in seen:
                        seen[k] = self.fns[k]
                        nxt.append(self.fns[k])
            frontier = nxt
        return list(seen.values())

    def calls_in_family(self, fn, *names, depth=3):
        return [c for g in self.family(fn, depth) for c in g.calls(*names)]

    def fn(self, nkey, required=True):
        """Function by generics-stripped key (exact) or unique `::`-suffix."""
        c = self.by_norm.get(nkey)
        if c:
            if len(c) == 1:
                return c[0]
            raise KeyError("ambiguous function key %s: %s" % (nkey, [f.key for f in c]))
        cands = [f for k, fs in self.by_norm.items() for f in fs if k.endswith("::" + nkey)]
        if len(cands) == 1:
            return cands[0]
        if required:
            raise KeyError("function not found: %s (%d candidates)" % (nkey, len(cands)))
        return None

    def method(self, self_ty, trait, name, required=True):
        """Method `name` of the impl of `trait` (last path segment; None = inherent) for `self_ty`
        (generics-stripped path suffix of the impl's self type)."""
        out = []
        for f in self.fns.values():
            d = f.d
            if d.get("name") != name or "impl_self" not in d:
                continue
            st = norm(d["impl_self"])
            if not (st == self_ty or st.endswith("::" + self_ty)):
                continue
            tr = d.get("impl_trait")
            if trait is None:
                if tr is not None:
                    continue
            else:
                if tr is None or tr.split("::")[-1] != trait.split("::")[-1]:
                    continue
                if "::" in trait and not (tr == trait or tr.endswith("::" + trait)):
                    continue
            out.append(f)
        if len(out) == 1:
            return out[0]
        if not out and not required:
            return None
        raise KeyError("method %s of <%s as %s>: %d candidates" % (name, self_ty, trait, len(out)))

    def fns_matching(self, regex):
        r = re.compile(regex)
        return [f for f in self.fns.values() if r.search(f.nkey)]

    def adt(self, suffix):
        for p, a in self.adts.items():
            if p == suffix or p.endswith("::" + suffix):
                return a
        return None

    def impls_of(self, trait_suffix=None, self_adt_suffix=None):
        out = []
        for im in self.impls:
            tr = im.get("trait")
            if trait_suffix is not None:
                if tr is None or not (tr == trait_suffix or tr.endswith("::" + trait_suffix)):
                    continue
            if self_adt_suffix is not None:
                sa = im.get("self_adt")
                if sa is None or not (sa == self_adt_suffix or sa.endswith("::" + self_adt_suffix)):
                    continue
            out.append(im)
        return out

    # ---- call graph
    def callgraph(self, cha="local"):
        """Call graph over local function keys.

        Resolved local callees and closure creation always give edges.  Unresolved trait-method calls are
        expanded by class-hierarchy analysis: cha='local' only for traits *defined in this crate* (Accept,
        Transport, Protocol, PoolableConnection, HasConnectionInfo, ...), cha='all' for every trait with a
        local impl (Future::poll, Service::call, ... -> very coarse), cha='none' never."""
        if self._cg is None:
            self._cg = {}
        if cha in self._cg:
            return self._cg[cha]
        cg = defaultdict(set)
        for k, f in self.fns.items():
            for c in f.calls(noise=True):
                if c.res and c.t.get("resl") and c.res in self.fns:
                    cg[k].add(c.res)
                elif c.decl and cha != "none":
                    m = re.match(r"^(.*)::([A-Za-z_0-9]+)$", norm(c.decl))
                    if m and (cha == "all" or m.group(1) in self.traits or m.group(1).split("::")[-1] in STD_DISPATCH):
                        for ik in self.trait_impls.get((m.group(1), m.group(2)), []):
                            if ik in self.fns:
                                cg[k].add(ik)
                    if c.res and c.res in self.fns:
                        cg[k].add(c.res)
                # std generic adaptors that call back into local impls: Into -> From, TryInto -> TryFrom,
                # ToString -> Display, str::parse -> FromStr
                if c.decl and cha != "none":
                    nd = norm(c.decl)
                    back = None
                    if nd.endswith("convert::Into::into"):
                        back = ("From", "from", 1)
                    elif nd.endswith("convert::TryInto::try_into"):
                        back = ("TryFrom", "try_from", 1)
                    elif nd.endswith("string::ToString::to_string"):
                        back = ("Display", "fmt", 0)
                    elif nd.endswith("str::parse") or nd.endswith("<impl str>::parse"):
                        back = ("FromStr", "from_str", 0)
                    if back is not None:
                        targs = c.t.get("targs") or []
                        want = norm(targs[back[2]]) if len(targs) > back[2] else None
                        for (tr, meth), iks in self.trait_impls.items():
                            if tr.split("::")[-1] != back[0] or meth != back[1]:
                                continue
                            for ik in iks:
                                g = self.fns.get(ik)
                                if g is None:
                                    continue
                                st = norm(g.d.get("impl_self", ""))
                                generic = want is None or re.fullmatch(r"[A-Z][A-Za-z0-9]*", want) or want.startswith("<")
                                if generic or st == want or st.lstrip("&") == want.lstrip("&"):
                                    cg[k].add(ik)
            # function items used as values (fn pointers, e.g. PreprocessService::new(svc, check_http1_request))
            for b in f.live:
                for st in f.stmts(b):
                    if st["k"] != "assign":
                        continue
                    r = st["r"]
                    ops = [r.get("o")] if r.get("o") else (r.get("ops") or [])
                    for o in ops:
                        kk = o.get("k") if o else None
                        if kk and kk.get("fn") in self.fns:
                            cg[k].add(kk["fn"])
                t = f.term(b)
                if t["k"] == "call":
                    for a in t["args"]:
                        kk = a.get("k")
                        if kk and kk.get("fn") in self.fns:
                            cg[k].add(kk["fn"])
            # drop glue of local types with a Drop impl
            for b in f.live:
                t = f.term(b)
                if t["k"] == "drop":
                    for (adt, dk) in self.drop_impls:
                        # the dropped type mentions the ADT (as itself or as a type argument): match whole paths only
                        # (`checkout::Checkout` is not `checkout::CheckoutSource`)
                        if re.search(r"(^|[<,( &])" + re.escape(adt) + r"($|[<>,) ])", norm(t["pty"])):
                            cg[k].add(dk)
            for (_, _, _, ck) in f.closures_created():
                if ck in self.fns:
                    cg[k].add(ck)
            # closures passed as constants (non-capturing)
            for b in f.live:
                t = f.term(b)
                if t["k"] == "call":
                    for a in t["args"]:
                        kk = a.get("k")
                        if kk and kk.get("closure") in self.fns:
                            cg[k].add(kk["closure"])
        self._cg[cha] = cg
        return cg

    def callers(self, key):
        if self._callers is None:
            rev = defaultdict(set)
            for a, bs in self.callgraph().items():
                for b in bs:
                    rev[b].add(a)
            self._callers = rev
        return self._callers.get(key, set())

    def call_sites_of(self, *names):
        out = []
        for f in self.fns.values():
            out.extend(f.calls(*names))
        return out

    def reach(self, entries, cha="local"):
        cg = self.callgraph(cha)
        seen = set(entries)
        prev = {e: None for e in entries}
        dq = deque(entries)
        while dq:
            k = dq.popleft()
            for s in cg.get(k, ()):
                if s not in seen:
                    seen.add(s)
                    prev[s] = k
                    dq.append(s)
        return seen, prev

    @staticmethod
    def chain(prev, k):
        out = []
        while k is not None:
            out.append(k)
            k = prev.get(k)
        return list(reversed(out))


# ---------------------------------------------------------------- label predicates

def L_call(fn, names, value, recv_root=None):
    """Edge predicate: bool switch on the result of a call to one of `names`, taking the `value` branch.
    recv_root(roots_of_first_arg) may further constrain the receiver."""
    if isinstance(names, str):
        names = (names,)

    def pred(lab):
        if lab.kind != "bool" or lab.value is not value:
            return False
        c = lab.cond
        if c.kind != "call" or not c.site.is_(*names):
            return False
        if recv_root is not None:
            if not c.site.args:
                return False
            return recv_root(fn.roots(c.site.args[0]))
        return True

    return pred


def L_variant(fn, variant, of_call=None, proj=None):
    """Edge predicate: discriminant switch taking exactly `variant`; optionally the scrutinee local is the
    result of a call to one of `of_call`; optionally the scrutinee place has the given projection
    rendered by place_str (e.g. '(_ as Ready).0' is matched loosely by variant path list)."""
    if isinstance(of_call, str):
        of_call = (of_call,)

    def pred(lab):
        if lab.kind != "variant" or lab.variants != {variant}:
            return False
        if proj is not None:
            downs = [e.get("d") for e in lab.place["p"] if isinstance(e, dict) and "d" in e]
            if downs != list(proj):
                return False
        if of_call is not None:
            site = fn.call_defining(lab.place["l"])
            if site is None or not site.is_(*of_call):
                return False
        return True

    return pred


def L_opt(fn, some, root_pred):
    """Edge predicate, shape-independent: taking the edge implies that an Option whose value satisfies root_pred(roots)
    is Some (some=True) / is None (some=False).  Recognised tests: is_some() / is_none() / is_some_and(..) / is_none_or(..),
    their negations, and a discriminant switch (`match`, `if let`, `let else`, `?`) on the place itself."""

    def recv_ok(site):
        return bool(site.args) and root_pred(fn.roots(site.args[0]))

    def pred(lab):
        if lab.kind == "bool" and lab.value is not None and lab.cond.kind == "call":
            c = lab.cond.site
            v = lab.value
            if c.matches(r"Option.*::is_some$") and recv_ok(c):
                return v is some
            if c.matches(r"Option.*::is_none$") and recv_ok(c):
                return v is (not some)
            if c.matches(r"Option.*::is_some_and$") and recv_ok(c):
                return some and v is True
            if c.matches(r"Option.*::is_none_or$") and recv_ok(c):
                return some and v is False
            return False
        if lab.kind == "variant" and (lab.adt or "").endswith("option::Option"):
            want = {"Some"} if some else {"None"}
            if lab.variants != want:
                return False
            base = {"l": lab.place["l"], "p": [e for e in lab.place["p"]]}
            return root_pred(fn.roots(base))
        return False

    return pred


def L_poll(fn, ready, poll_blocks):
    """Edge predicate, shape-independent: taking the edge implies that the `poll` call sitting in one of poll_blocks
    answered Ready (ready=True) / Pending (ready=False).  Recognised: a discriminant switch on the call's result (`match`,
    `if let Poll::Ready(..)`, `ready!`), and `is_ready()` / `is_pending()` tests of it, negated or not."""
    poll_blocks = set(poll_blocks)

    def pred(lab):
        if lab.kind == "variant" and lab.variants and lab.variants <= {"Ready", "Pending"}:
            if lab.variants != ({"Ready"} if ready else {"Pending"}):
                return False
            s = fn.call_defining(lab.place["l"])
            if s is not None:
                return s.bb in poll_blocks
            # the poll result travelled through temporaries / a tuple before being tested
            rr = fn.roots({"l": lab.place["l"], "p": [e for e in lab.place["p"] if not (isinstance(e, dict) and "d" in e)]}, through_calls=False)
            calls = [r for r in rr if r.kind == "call"]
            return bool(calls) and all(r.site.bb in poll_blocks for r in calls)
        if lab.kind == "bool" and lab.value is not None and lab.cond.kind == "call":
            c = lab.cond.site
            if c.matches(r"Poll.*::is_ready$"):
                val = lab.value
            elif c.matches(r"Poll.*::is_pending$"):
                val = not lab.value
            else:
                return False
            if val is not ready or not c.args:
                return False
            return any(r.kind == "call" and r.site.bb in poll_blocks for r in fn.roots(c.args[0]))
        return False

    return pred


def L_result(fn, ok, site_blocks, variants=None):
    """Edge predicate, shape-independent: taking the edge implies that the Result produced by a call sitting in one of
    site_blocks (possibly wrapped in Poll::Ready / moved through temporaries / unpacked by `ready!` and `?`) is Ok
    (ok=True) / Err (ok=False)."""
    site_blocks = set(site_blocks)
    want = variants or ({"Ok"} if ok else {"Err"})

    def pred(lab):
        if lab.kind != "variant" or lab.variants != want:
            return False
        base = {"l": lab.place["l"], "p": list(lab.place["p"])}
        return any(r.kind == "call" and r.site.bb in site_blocks for r in fn.roots(base, through_calls=False))

    return pred


def fields_of(facts, adt_suffix):
    a = facts.adt(adt_suffix)
    return [(fl["name"], fl["ty"]) for fl in a["variants"][0]["fields"]] if a else []


def field_where(facts, adt_suffix, ty_pred):
    """Names of the fields of a struct whose declared type satisfies ty_pred (roles are found by type, not by name)."""
    return [n for (n, t) in fields_of(facts, adt_suffix) if ty_pred(t)]


def root_has(roots, kind=None, contains=None):
    for r in roots:
        if kind is not None and r.kind != kind:
            continue
        if contains is not None and contains not in r.desc:
            continue
        return True
    return False


def arms(fn, adt_suffix, place_pred=None):
    """Regions of a `match` on an enum: {variant: set(blocks exclusive to that arm)}, and the switch block.

    Looks for the discriminant switch on an ADT whose path ends with adt_suffix.  The exclusive region of
    an arm is what is reachable from its edge target and from no other arm's target."""
    sw = None
    targets = {}
    for (a, b, lab) in fn.edges():
        if lab is None or lab.kind != "variant":
            continue
        adt = lab.adt or ""
        if not (adt == adt_suffix or adt.endswith("::" + adt_suffix)):
            continue
        if place_pred is not None and not place_pred(lab.place):
            continue
        if sw is None:
            sw = a
        if a != sw:
            continue
        for v in lab.variants:
            targets.setdefault(v, set()).add(b)
    if sw is None:
        return None, {}
    # do not follow a loop back through the switch itself
    reach = {v: fn.reach(list(ts), avoid_blocks={sw}) for v, ts in targets.items()}
    out = {}
    for v, r in reach.items():
        others = set()
        for w, r2 in reach.items():
            if w != v and targets[w] != targets[v]:
                others |= r2
        out[v] = r - others
    return sw, out


def _return_locals(fn):
    """Locals whose whole value is copied / moved (possibly through several temporaries) into the return place `_0`:
    `_0 = move _7; _7 = move _12` makes {0, 7, 12}.  Splicing a helper turns its `_0` into such a temporary."""
    rl = {0}
    changed = True
    while changed:
        changed = False
        for b in fn.live:
            for s in fn.stmts(b):
                if s["k"] == "assign" and s["p"]["l"] in rl and not s["p"]["p"] and s["r"]["k"] == "use":
                    q = op_place(s["r"]["o"])
                    if q is not None and not q["p"] and q["l"] not in rl and not (1 <= q["l"] <= fn.argc):
                        rl.add(q["l"])
                        changed = True
    return rl


def carriers(fn, block, local):
    """Forward value flow of the value stored in `local` at `block`: the (block, local) pairs it is moved / copied /
    wrapped (as operand of an aggregate) into, transitively.  Used to find *where* an eagerly built value is actually
    chosen (e.g. the `None` arm an `unwrap_or(default)` expands to) rather than where it is constructed."""
    seen = {local}
    out = [(block, local)]
    changed = True
    while changed:
        changed = False
        for b in sorted(fn.live):
            for st in fn.stmts(b):
                if st["k"] != "assign" or st["p"]["p"]:
                    continue
                r = st["r"]
                ops = []
                if r["k"] in ("use", "cast"):
                    ops = [r["o"]]
                elif r["k"] == "agg":
                    ops = r["ops"]
                for o in ops:
                    q = op_place(o)
                    if q is not None and (not q["p"] or r["k"] in ("use", "cast")) and q["l"] in seen and st["p"]["l"] not in seen:
                        seen.add(st["p"]["l"])
                        out.append((b, st["p"]["l"]))
                        changed = True
    return out


def assigns_to_return(fn, blocks):
    """The definitions of the returned value located inside `blocks`: statements `_r = <rvalue>` and calls with destination
    `_r`, for `_r` the return place or a temporary that is moved whole into it; pure forwarding moves between such
    temporaries are not definitions."""
    rl = _return_locals(fn)
    out = []
    for b in sorted(blocks):
        for i, s in enumerate(fn.stmts(b)):
            if s["k"] == "assign" and s["p"]["l"] in rl and not s["p"]["p"]:
                if s["r"]["k"] == "use":
                    q = op_place(s["r"]["o"])
                    if q is not None and not q["p"] and q["l"] in rl:
                        continue
                out.append(("stmt", b, s))
        t = fn.term(b)
        if t["k"] == "call" and t["dest"]["l"] in rl and not t["dest"]["p"]:
            out.append(("call", b, t))
    return out


def const_of(operand):
    k = operand.get("k")
    if not k:
        return None
    return k.get("item") or k.get("v")


CMP = {"lt": "Lt", "le": "Le", "gt": "Gt", "ge": "Ge", "eq": "Eq", "ne": "Ne"}


def returned_comparison(fn):
    """If fn's return value is a single comparison, return (op, a_operand, b_operand) with op in Lt/Le/Gt/Ge/Eq/Ne.
    Handles PartialOrd/PartialEq method calls and primitive BinaryOp."""
    rets = assigns_to_return(fn, fn.live)
    if len(rets) != 1:
        return None
    k, b, x = rets[0]
    if k == "call":
        site = CallSite(fn, b, x)
        nm = norm(site.name).split("::")[-1]
        if nm in CMP and site.matches(r"cmp::Partial(Ord|Eq)|PartialOrd|PartialEq"):
            return (CMP[nm], site.args[0], site.args[1])
        return None
    r = x["r"]
    if r["k"] == "binop" and r["op"] in CMP.values():
        return (r["op"], r["a"], r["b"])
    if r["k"] == "use":
        p = op_place(r["o"])
        if p is not None and not p["p"]:
            d = fn.unique_def(p["l"])
            if d and d[0] == "call":
                site = CallSite(fn, d[1], d[2])
                nm = norm(site.name).split("::")[-1]
                if nm in CMP:
                    return (CMP[nm], site.args[0], site.args[1])
            if d and d[0] == "stmt" and d[3]["r"]["k"] == "binop":
                r2 = d[3]["r"]
                return (r2["op"], r2["a"], r2["b"])
    return None


def closure_arg_of(fn, site, index):
    """Key of the closure passed as argument `index` of a call site (closure aggregate or const closure)."""
    a = site.args[index]
    k = a.get("k")
    if k and k.get("closure"):
        return k["closure"]
    p = op_place(a)
    if p is None:
        return None
    for r in fn.roots(a, through_calls=False):
        if r.kind == "closure":
            return r.key
    return None


def sig(roots):
    """Significant roots: drop Deref/Pin/project plumbing calls and literal constants."""
    return {r for r in roots if not (r.kind == "call" and is_transparent(r.site)) and r.kind != "const"}


# ---------------------------------------------------------------- P-var: variant-set abstract paths

PURE_PREDICATES = {
    "Poll::is_ready": lambda v: _is_variant(v, "Ready"),
    "Poll::is_pending": lambda v: _is_variant(v, "Pending"),
    "Option::is_some": lambda v: _is_variant(v, "Some"),
    "Option::is_none": lambda v: _is_variant(v, "None"),
    "Result::is_ok": lambda v: _is_variant(v, "Ok"),
    "Result::is_err": lambda v: _is_variant(v, "Err"),
}


def _str_const(v):
    while v is not None and v[0] == "refval":
        v = v[1]
    if v is not None and v[0] == "const" and isinstance(v[1], str) and v[1].startswith('"'):
        return v[1].strip('"')
    return None


def oracle_str_eq(site, vals):
    """Scenario-independent oracle: equality of two known string constants (`s == "https"`, `matches!(s, "https")`)."""
    if len(vals) != 2:
        return None
    a, b = _str_const(vals[0]), _str_const(vals[1])
    if a is None or b is None:
        return None
    eq = (a == b)
    if norm(site.name).endswith("::ne"):
        eq = not eq
    return ("const", "true" if eq else "false")


def oracle_int_eq(site, vals):
    """Scenario-independent oracle: comparison of two known integer constants through the PartialEq / PartialOrd traits."""
    if len(vals) != 2:
        return None
    vs = []
    for v in vals:
        while v is not None and v[0] == "refval":
            v = v[1]
        vs.append(_as_int(v))
    if vs[0] is None or vs[1] is None:
        return None
    op = norm(site.name).split("::")[-1]
    res = {"eq": vs[0] == vs[1], "ne": vs[0] != vs[1], "lt": vs[0] < vs[1], "le": vs[0] <= vs[1], "gt": vs[0] > vs[1], "ge": vs[0] >= vs[1]}.get(op)
    return None if res is None else ("const", "true" if res else "false")


def oracle_value_eq(site, vals):
    """Scenario-independent oracle: `==` / `!=` of two fully known abstract values of the same shape (field-less enum
    variants, tagged constants): structural equality."""
    if len(vals) != 2:
        return None
    vs = []
    for v in vals:
        hops = 0
        while v is not None and v[0] == "refval" and hops < 4:
            v = v[1]
            hops += 1
        vs.append(v)
    def strip(v, depth=8):
        # `==` on references compares the pointees: drop reference wrappers at every level
        while v is not None and v[0] == "refval":
            v = v[1]
        if v is not None and v[0] == "variant" and depth > 0:
            return ("variant", v[1], tuple((i, strip(x, depth - 1)) for i, x in v[2]))
        return v
    a, b = strip(vs[0]), strip(vs[1])

    def known(v):
        if v is None:
            return False
        if v[0] == "const":
            return v[1] is not None
        if v[0] == "variant":
            return all(known(x) for _, x in v[2])
        return False
    if not (known(a) and known(b)) or a[0] != b[0]:
        return None
    op = norm(site.name).split("::")[-1]
    if op not in ("eq", "ne"):
        return None
    eq = (a == b)
    return ("const", "true" if (eq if op == "eq" else not eq) else "false")


VALUE_EQ = (r"PartialEq.*::(eq|ne)$", oracle_value_eq)
INT_CMP = (r"Partial(Eq|Ord).*::(eq|ne|lt|le|gt|ge)$", oracle_int_eq)
STR_EQ = (r"PartialEq.*::(eq|ne)$|str::traits::.*::(eq|ne)$", oracle_str_eq)


HTTP_VERSIONS = {"HTTP_09": "Http09", "HTTP_10": "Http10", "HTTP_11": "Http11", "HTTP_2": "H2", "HTTP_3": "H3"}


def http_version(name):
    """`http::Version::HTTP_x` as a structured value (`Version(Http::..)`): a `match` on a version constant reads the inner
    discriminant, `==` compares structurally (see `version_name`)."""
    return ("variant", "Version", ((0, ("variant", HTTP_VERSIONS[name], ())),))


def version_name(v):
    """HTTP_x for either spelling of a version value (the constant's path, or the structured value)."""
    while v is not None and v[0] == "refval":
        v = v[1]
    if v is None:
        return None
    if v[0] == "const":
        m = re.search(r"Version::(HTTP_\w+)$", str(v[1]))
        return m.group(1) if m else None
    if v[0] == "variant" and v[1] == "Version":
        inner = dict(v[2]).get(0)
        if inner is not None and inner[0] == "variant":
            for k, n in HTTP_VERSIONS.items():
                if n == inner[1]:
                    return k
    return None


VERSION_ORDER = {"HTTP_09": 0, "HTTP_10": 1, "HTTP_11": 2, "HTTP_2": 3, "HTTP_3": 4}


def raw_version_cmp(ev, st, t, site):
    """Raw oracle: `==`, `!=`, `<`, `>=`, ... between two known HTTP versions (either spelling)."""
    if len(t.get("args") or []) != 2:
        return False
    a = version_name(deref_value(st, ev._eval_operand(st, t["args"][0])))
    b = version_name(deref_value(st, ev._eval_operand(st, t["args"][1])))
    if a is None or b is None:
        return False
    x, y = VERSION_ORDER[a], VERSION_ORDER[b]
    op = norm(site.name).split("::")[-1]
    r = {"lt": x < y, "le": x <= y, "gt": x > y, "ge": x >= y, "eq": x == y, "ne": x != y}.get(op)
    if r is None:
        return False
    d = t["dest"]
    if d["p"]:
        return False
    st[d["l"]] = ("const", "true" if r else "false")
    return True


VERSION_CMP = (r"Partial(Eq|Ord).*::(eq|ne|lt|le|gt|ge)$", raw_version_cmp)


def deref_value(st, v, hops=8):
    """Follow references of every kind (whole-local, by-value snapshot, path into a known value, modelled cell) to the value."""
    while v is not None and hops > 0:
        hops -= 1
        if v[0] in ("ref", "refmut"):
            v = st.get(v[1])
        elif v[0] == "refval":
            v = v[1]
        elif v[0] == "pref":
            cur = st.get(v[1])
            for f in v[2]:
                cur = dict(cur[2]).get(f) if cur is not None and cur[0] == "variant" else None
            v = cur
        elif v[0] == "cellref":
            v = st.get(v[1])
        elif v[0] == "elemref":
            l = st.get(-v[1])
            v = l[1][v[2]] if l is not None and l[0] == "list" and v[2] < len(l[1]) else None
        else:
            break
    return v


def _as_int(v):
    if v is None or v[0] != "const" or v[1] is None:
        return None
    m = re.match(r"^(-?\d+)(_[iu](8|16|32|64|128|size))?$", str(v[1]))
    return int(m.group(1)) if m else None


def _as_num(v):
    """Integer or float constant (floats only ever compared: `timeout.as_secs_f64() > 0.0`)."""
    i = _as_int(v)
    if i is not None:
        return i
    if v is None or v[0] != "const" or v[1] is None:
        return None
    m = re.match(r"^(-?\d+(\.\d+)?([eE][-+]?\d+)?)(_?f(32|64))?$", str(v[1]))
    return float(m.group(1)) if m else None


def _freeze(v):
    return v


def _is_variant(v, name):
    if v is None or v[0] != "variant":
        return None
    return v[1] == name


class AbsPaths:
    """Path-sensitive forward exploration with a tiny abstract domain (DESIGN.md P-var):
    value of a local = unknown | ('const', text) | ('variant', name, ((field_idx, value), ...)) | ('ref', local).
    Switch edges that contradict the known value are pruned.  Exploration is bounded; exceeding the
    bound raises Undecided (never answers 'held')."""

    class Undecided(Exception):
        pass

    def __init__(self, fn, limit=20000, oracles=None, raw_oracles=None):
        """oracles: list of (callee regex, fn(site, arg_values) -> abstract value | None): scenario inputs, i.e. what a call
        the analysis does not look into is assumed to return in the scenario being evaluated (decision tables)."""
        self.fn = fn
        self.limit = limit
        self.raw_specs = list(raw_oracles or [])
        self.raw = [(re.compile(p), f) for (p, f) in self.raw_specs]
        self.oracle_specs = list(oracles or [])
        self.oracles = [(re.compile(p), f) for (p, f) in self.oracle_specs]
        self.labels = {}
        for (a, b, lab) in fn.edges():
            self.labels[(a, b)] = lab

    # -- evaluation
    def _eval_operand(self, st, o):
        p = op_place(o)
        if p is None:
            k = o.get("k", {})
            return ("const", k.get("item") or k.get("v"))
        return self._eval_place(st, p)

    def _eval_place(self, st, p):
        v = st.get(p["l"])
        projs = list(p["p"])
        i = 0
        while i < len(projs):
            e = projs[i]
            if v is None:
                return None
            if e == "*":
                if v[0] in ("ref", "refmut"):
                    v = st.get(v[1])
                    i += 1
                    continue
                if v[0] == "refval":
                    v = v[1]
                    i += 1
                    continue
                if v[0] == "const":
                    i += 1  # a constant reference (&'static str, &CONST): the pointee is the constant itself
                    continue
                if v[0] == "cellref":
                    v = st.get(v[1])
                    i += 1
                    continue
                if v[0] in ("pref", "elemref"):
                    v = deref_value(st, v, hops=1)
                    i += 1
                    continue
                return None
            if isinstance(e, dict) and "d" in e:
                if v[0] != "variant" or v[1] != e["d"]:
                    return None
                i += 1
                continue
            if isinstance(e, dict) and "f" in e:
                if v[0] != "variant":
                    return None
                fv = dict(v[2]).get(e["f"])
                v = fv
                i += 1
                continue
            return None
        return v

    def _assign(self, st, s):
        p = s["p"]
        if p["p"] == ["*"] and (st.get(p["l"]) or ("",))[0] == "cellref":
            # a store through a reference handed out by a modelled accessor (`*request.version_mut() = v`)
            r = s["r"]
            v = self._eval_operand(st, r["o"]) if r["k"] in ("use", "cast") else None
            key = st[p["l"]][1]
            if v is None:
                st.pop(key, None)
            else:
                st[key] = v
            return
        if p["p"]:
            # a store into part of a known value (`self.error = Some(e)` through `&mut self`): evaluate the right-hand side
            # and rebuild the enclosing value; anything not understood makes the enclosing location unknown
            sub = dict(s)
            sub["p"] = {"l": -999999, "p": []}
            tmp = dict(st)
            self._assign(tmp, sub)
            self._store(st, p, tmp.get(-999999))
            return
        r = s["r"]
        k = r["k"]
        val = None
        if k == "use":
            val = self._eval_operand(st, r["o"])
        elif k == "agg" and ("adt" in r or "tuple" in r or "closure" in r or "coroutine" in r):
            fields = []
            for i, o in enumerate(r["ops"]):
                fv = self._eval_operand(st, o)
                if fv is not None:
                    fields.append((i, fv))
            val = ("variant", r["v"] if "adt" in r else (("{closure}:" + r["closure"]) if "closure" in r else
                                                          (("{coroutine}:" + r["coroutine"]) if "coroutine" in r else "()")), tuple(fields))
        elif k == "agg" and not any(x in r for x in ("adt", "tuple", "closure", "coroutine", "coroutine_closure")) and r.get("ops") is not None:
            # array literal
            fields = []
            for i, o in enumerate(r["ops"]):
                fv = self._eval_operand(st, o)
                fields.append((i, fv))
            val = ("variant", "[]", tuple(fields)) if all(fv is not None for _, fv in fields) else None
        elif k == "ref":
            q = r["p"]
            if not q["p"]:
                val = ("ref", q["l"])
                if r["bk"] == "mut":
                    val = ("refmut", q["l"])
            else:
                base = st.get(q["l"])
                if q["p"] == ["*"] and base is not None and base[0] in ("ref", "refmut", "cellref", "pref", "elemref"):
                    val = base  # a reborrow `&mut *r` designates the same location as r
                else:
                    lp = self._resolve_loc(st, q) if r["bk"] == "mut" else None
                    if lp is not None and lp[1]:
                        # `&mut self.field`: a reference that designates a part of a known location (stores through it land there)
                        val = ("pref", lp[0], tuple(lp[1]))
                    elif lp is not None:
                        val = ("refmut", lp[0])
                    else:
                        # a reference into a known value: carry the value itself (enough for reads through the reference)
                        inner = self._eval_place(st, q)
                        if inner is not None:
                            val = ("refval", inner)
        elif k == "cast":
            val = self._eval_operand(st, r["o"])
        elif k == "discr" and "vars" in r:
            # `discriminant(place)` of a known variant (derived PartialEq compares these)
            v = self._eval_place(st, r["p"])
            if v is not None and v[0] == "variant":
                idx = [i for i, name in r["vars"] if name == v[1]]
                if len(idx) == 1:
                    val = ("const", str(idx[0]))
        elif k == "unop" and r.get("op") == "Not":
            a = self._eval_operand(st, r["o"])
            if a is not None and a[0] == "const" and a[1] in ("true", "false"):
                val = ("const", "false" if a[1] == "true" else "true")
        elif k == "binop":
            a, b = self._eval_operand(st, r["a"]), self._eval_operand(st, r["b"])
            ia, ib = _as_num(a), _as_num(b)
            bools = ("true", "false")
            if a is not None and b is not None and a[0] == b[0] == "const" and a[1] in bools and b[1] in bools and r["op"] in ("BitOr", "BitAnd", "BitXor", "Eq", "Ne"):
                x, y = a[1] == "true", b[1] == "true"
                val = ("const", "true" if {"BitOr": x or y, "BitAnd": x and y, "BitXor": x != y, "Eq": x == y, "Ne": x != y}[r["op"]] else "false")
            elif a is not None and a[0] == "const" and a[1] in bools and r["op"] in ("BitOr", "BitAnd") and (a[1] == "true") == (r["op"] == "BitOr"):
                val = a      # true | x, false & x
            elif b is not None and b[0] == "const" and b[1] in bools and r["op"] in ("BitOr", "BitAnd") and (b[1] == "true") == (r["op"] == "BitOr"):
                val = b
            elif isinstance(ia, int) and isinstance(ib, int) and r["op"] in ("Add", "Sub", "Mul", "AddUnchecked", "SubUnchecked", "AddWithOverflow", "SubWithOverflow", "MulWithOverflow"):
                # index / counter arithmetic on small known integers (`idx - 1`, `seen + n`)
                base = r["op"].replace("WithOverflow", "").replace("Unchecked", "")
                x = {"Add": ia + ib, "Sub": ia - ib, "Mul": ia * ib}[base]
                if x >= 0:
                    val = ("const", str(x))
                    if r["op"].endswith("WithOverflow"):
                        val = ("variant", "()", ((0, val), (1, ("const", "false"))))
            elif ia is not None and ib is not None:
                res = {"Eq": ia == ib, "Ne": ia != ib, "Lt": ia < ib, "Le": ia <= ib, "Gt": ia > ib, "Ge": ia >= ib}.get(r["op"])
                if res is not None:
                    val = ("const", "true" if res else "false")
        if val is None:
            st.pop(p["l"], None)
        else:
            st[p["l"]] = val

    def _resolve_loc(self, st, p):
        """(location, field path) designated by a place, following references that designate locations; None if unknown."""
        loc = p["l"]
        path = []
        for e in p["p"]:
            if e == "*":
                cur = st.get(loc)
                for f in path:
                    cur = dict(cur[2]).get(f) if cur is not None and cur[0] == "variant" else None
                if cur is not None and cur[0] in ("ref", "refmut"):
                    loc, path = cur[1], []
                    continue
                if cur is not None and cur[0] == "pref":
                    loc, path = cur[1], list(cur[2])
                    continue
                return None
            if isinstance(e, dict) and "d" in e:
                continue
            if isinstance(e, dict) and "f" in e:
                path.append(e["f"])
                continue
            return None
        return loc, path

    def _store(self, st, p, val):
        base = st.get(p["l"])
        if p["p"] == ["*"] and base is not None and base[0] == "cellref":
            if val is None:
                st.pop(base[1], None)
            else:
                st[base[1]] = val
            return
        lp = self._resolve_loc(st, p)
        if lp is None:
            st.pop(p["l"], None)
            return
        loc, path = lp

        def put(v, fs):
            if not fs:
                return val
            if v is None or v[0] != "variant":
                return None
            fields = dict(v[2])
            nv = put(fields.get(fs[0]), fs[1:])
            if nv is None:
                fields.pop(fs[0], None)
            else:
                fields[fs[0]] = nv
            return ("variant", v[1], tuple(sorted(fields.items())))
        nv = put(st.get(loc), path)
        if nv is None:
            st.pop(loc, None)
        else:
            st[loc] = nv

    def _call(self, st, t):
        if t["dest"]["p"] and not is_noise(t):
            # the result is written into part of a value / through a reference (`*uri = Uri::from_parts(..)`): evaluate the call
            # into a scratch local, then store
            TMP = -999998
            t2 = dict(t)
            t2["dest"] = {"l": TMP, "p": []}
            forks = self._call(st, t2)
            for s_ in (forks if forks is not None else [st]):
                v = s_.pop(TMP, None)
                self._store(s_, t["dest"], v)
            return forks
        site = CallSite(self.fn, -1, t)
        n = norm(site.name)
        res = None
        # raw oracles (seqmodel.py): abstract semantics of std's sequence API on small tagged lists; they read and update
        # the per-path state themselves and say whether they handled the call
        for rx, rfn in self.raw:
            if any(rx.search(c) for c in (site.nres, site.ndecl, site.res, site.decl) if c):
                r = rfn(self, st, t, site)
                if isinstance(r, list):
                    return r     # a nondeterministic call: the alternative successor states (only `outcomes` follows them)
                if r:
                    return
        if re.search(r"ops::Not.*::not$|ops::bit::Not.*::not$", n) and site.args:
            # `!flag` on a `&bool` is a call of `<&bool as Not>::not`
            av = deref_value(st, self._eval_operand(st, site.args[0]))
            d = t["dest"]
            if av is not None and av[0] == "const" and av[1] in ("true", "false") and not d["p"]:
                st[d["l"]] = ("const", "false" if av[1] == "true" else "true")
                return
        if n.endswith("intrinsics::discriminant_value") and site.args:
            # derived PartialEq / Hash read the discriminant through this intrinsic: the index of a known variant
            av = self._eval_operand(st, site.args[0])
            hops = 0
            av = deref_value(st, av)
            ty = ((t.get("argtys") or [""])[0] or "").lstrip("&").replace("mut ", "").strip()
            a = self.fn.facts.adts.get(norm(ty)) or self.fn.facts.adts.get(ty.split("<")[0])
            d = t["dest"]
            if av is not None and av[0] == "variant" and a is not None and not d["p"]:
                idx = [i for i, vv in enumerate(a["variants"]) if vv["name"] == av[1]]
                if len(idx) == 1:
                    st[d["l"]] = ("const", str(idx[0]))
                    return
            st.pop(d["l"], None)
            return
        # a tuple-variant / tuple-struct constructor of a crate-local type used as a function (`.unwrap_or_else(Eyeball::Timeout)`):
        # the value is the variant itself
        mc = re.match(r"^(.*)::(\w+)$", n)
        if mc and not t["dest"]["p"] and (t.get("res") or t.get("decl")) not in self.fn.facts.fns:
            a = self.fn.facts.adts.get(mc.group(1))
            vv = [v for v in (a["variants"] if a else []) if v["name"] == mc.group(2)]
            if len(vv) == 1 and len(vv[0]["fields"]) == len(site.args):
                fields = tuple((i, self._eval_operand(st, x)) for i, x in enumerate(site.args))
                st[t["dest"]["l"]] = ("variant", mc.group(2), fields)
                return
        matched_oracle = False
        for rx, ofn in self.oracles:
            if any(rx.search(c) for c in (site.nres, site.ndecl, site.res, site.decl) if c):
                vals = []
                for a in site.args:
                    av = self._eval_operand(st, a)
                    av = deref_value(st, av)
                    vals.append(av)
                res = ofn(site, vals)
                if res is None:
                    matched_oracle = True
                    continue   # this oracle has no answer for these values: try the next one
                d = t["dest"]
                if d["p"]:
                    st.pop(d["l"], None)
                else:
                    st[d["l"]] = res
                return
        if matched_oracle:
            st.pop(t["dest"]["l"], None)
            return
        # a crate-local callee that was not spliced (trait impls, atoms): evaluate it abstractly on the argument values; a
        # unique answer is used, anything else is unknown
        if t.get("resl") and t.get("res") in self.fn.facts.fns and getattr(self, "depth", 0) < 3 and not is_noise(t):
            callee = self.fn.facts.fns[t["res"]]
            if callee.d.get("kind") in ("Fn", "AssocFn") and callee.argc == len(site.args):
                vals = []
                for a in site.args:
                    av = self._eval_operand(st, a)
                    hops = 0
                    while av is not None and av[0] in ("ref", "refmut", "pref") and hops < 4:
                        inner = deref_value(st, av, hops=1)
                        av = ("refval", inner) if inner is not None else None
                        hops += 1
                    vals.append(av)
                if any(v is not None for v in vals):
                    try:
                        sub = AbsPaths(self.fn.facts.unit(callee, expand=True), limit=3000, oracles=self.oracle_specs, raw_oracles=self.raw_specs)
                        sub.depth = getattr(self, "depth", 0) + 1
                        outs = {v for (v, _) in sub.outcomes(state={i + 1: v for i, v in enumerate(vals) if v is not None})}
                        if len(outs) == 1:
                            res = outs.pop()
                    except AbsPaths.Undecided:
                        res = None
                    d = t["dest"]
                    if d["p"] or res is None:
                        st.pop(d["l"], None)
                    else:
                        st[d["l"]] = res
                    return
        for pat, fnp in PURE_PREDICATES.items():
            if n.endswith("::" + pat) or n.endswith(pat):
                if site.args:
                    av = self._eval_operand(st, site.args[0])
                    av = deref_value(st, av)
                    r = fnp(av)
                    if r is not None:
                        res = ("const", "true" if r else "false")
                break
        else:
            # unknown callee: anything reachable through a &mut argument is clobbered
            for a in site.args:
                av = self._eval_operand(st, a)
                if av is not None and av[0] == "refmut":
                    st.pop(av[1], None)
                elif av is not None and av[0] == "pref":
                    self._store(st, {"l": av[1], "p": [{"f": f} for f in av[2]]}, None)
        d = t["dest"]
        if d["p"] or res is None:
            st.pop(d["l"], None)
        else:
            st[d["l"]] = res

    def _int_edge_feasible(self, st, t, lab):
        v = _as_int(self._eval_operand(st, t["o"]))
        if v is None:
            return True
        listed = [int(x) for x, _ in t["ts"] if str(x).lstrip("-").isdigit()]
        if lab.value == "else":
            return v not in listed
        return str(lab.value).lstrip("-").isdigit() and int(lab.value) == v

    def outcomes(self, state=None, start=0, observe_blocks=(), extra_keys=(), stop_blocks=()):
        """Decision-table evaluation: explores all feasible paths from `start` under `state` / the oracles and returns the
        set of (abstract return value, frozenset of observe_blocks visited) over the paths that reach a return."""
        fn = self.fn
        out = set()
        observe_blocks = set(observe_blocks)
        seen = set()
        stack = [(start, tuple(sorted((state or {}).items())), frozenset())]
        n = 0
        while stack:
            b, fst, vis = stack.pop()
            if (b, fst, vis) in seen:
                continue
            seen.add((b, fst, vis))
            n += 1
            if n > self.limit:
                raise AbsPaths.Undecided("more than %d abstract states" % self.limit)
            if b in observe_blocks:
                vis = vis | {b}
            st = dict(fst)
            for s in fn.stmts(b):
                if s["k"] == "assign":
                    if is_noise(s):
                        st.pop(s["p"]["l"], None)
                    else:
                        self._assign(st, s)
            t = fn.term(b)
            if t["k"] == "return" or b in stop_blocks:
                # a stop block ends the path like a return does: the state right before its terminator is reported
                rv = st.get(0) if t["k"] == "return" else ("const", "stopped@bb%d" % b)
                if extra_keys:
                    out.add((_freeze(rv), vis, tuple(st.get(k) if not callable(k) else k(st) for k in extra_keys)))
                else:
                    out.add((_freeze(rv), vis))
                continue
            alts = [st]
            if t["k"] == "call":
                if is_noise(t):
                    st.pop(t["dest"]["l"], None)
                else:
                    forks = self._call(st, t)
                    if forks is not None:
                        alts = forks
            elif t["k"] == "yield":
                st.pop(t["ra"]["l"], None)
            for st in alts:
                for s2 in fn.succ[b]:
                    lab = self.labels.get((b, s2))
                    if lab is not None and t["k"] == "switch":
                        if lab.kind == "variant":
                            v = self._eval_place(st, lab.place)
                            if v is not None and v[0] == "variant" and v[1] not in lab.variants:
                                continue
                        elif lab.kind == "bool" and lab.raw is not None:
                            v = self._eval_operand(st, t["o"])
                            if v is not None and v[0] == "const" and v[1] in ("true", "false") and (v[1] == "true") != lab.raw:
                                continue
                        elif lab.kind == "int" and not self._int_edge_feasible(st, t, lab):
                            continue
                    stack.append((s2, tuple(sorted(st.items())), vis))
        return out

    def values_at(self, block, operand, start=0):
        """Set of abstract values (None = unknown) the operand can have when control reaches the
        terminator of `block` on feasible paths from `start`."""
        vals = set()

        def obs(b, st):
            if b == block:
                vals.add(self._eval_operand(st, operand))

        self.explore(start, observe=obs)
        return vals

    def trace(self, start, state=None, max_len=400, observe=None):
        """Follow the unique feasible path from the beginning of `start`; returns the block list up to a return,
        or raises Undecided when the abstract state leaves more than one successor."""
        fn = self.fn
        st = dict(state or {})
        b = start
        out = []
        seen = set()
        while True:
            out.append(b)
            if len(out) > max_len or (b, tuple(sorted(st.items()))) in seen:
                raise AbsPaths.Undecided("path does not terminate")
            seen.add((b, tuple(sorted(st.items()))))
            for s in fn.stmts(b):
                if s["k"] == "assign":
                    if is_noise(s):
                        st.pop(s["p"]["l"], None)
                    else:
                        self._assign(st, s)
                elif s["k"] == "dead":
                    st.pop(int(s["l"]), None)
            t = fn.term(b)
            if observe is not None:
                observe(b, st)
            if t["k"] == "return":
                return out
            if t["k"] == "call":
                if is_noise(t):
                    st.pop(t["dest"]["l"], None)
                else:
                    if self._call(st, t) is not None:
                        st.pop(t["dest"]["l"], None)   # nondeterministic oracle: unknown here
            nxt = []
            for s2 in fn.succ[b]:
                lab = self.labels.get((b, s2))
                if lab is not None and t["k"] == "switch":
                    if lab.kind == "variant":
                        v = self._eval_place(st, lab.place)
                        if v is not None and v[0] == "variant" and v[1] not in lab.variants:
                            continue
                    elif lab.kind == "bool" and lab.raw is not None:
                        v = self._eval_operand(st, t["o"])
                        if v is not None and v[0] == "const" and v[1] in ("true", "false") and (v[1] == "true") != lab.raw:
                            continue
                    elif lab.kind == "int" and not self._int_edge_feasible(st, t, lab):
                        continue
                nxt.append(s2)
            if len(nxt) != 1:
                raise AbsPaths.Undecided("%d feasible successors at bb%d" % (len(nxt), b))
            b = nxt[0]

    def explore(self, start, stop_blocks=(), state=None, avoid_edges=(), observe=None):
        """All blocks reachable from the beginning of `start` on feasible paths; blocks in stop_blocks are
        recorded but not expanded.  Returns (reached_blocks, n_states)."""
        fn = self.fn
        stop_blocks = set(stop_blocks)
        avoid_edges = set(avoid_edges)
        seen = set()
        reached = set()
        stack = [(start, tuple(sorted((state or {}).items())))]
        n = 0
        while stack:
            b, fst = stack.pop()
            if (b, fst) in seen:
                continue
            seen.add((b, fst))
            n += 1
            if n > self.limit:
                raise AbsPaths.Undecided("more than %d abstract states" % self.limit)
            reached.add(b)
            if b in stop_blocks and b != start:
                continue
            st = dict(fst)
            for s in fn.stmts(b):
                if s["k"] == "assign":
                    if is_noise(s):
                        st.pop(s["p"]["l"], None)
                    else:
                        self._assign(st, s)
                elif s["k"] == "dead":
                    st.pop(int(s["l"]), None)
            t = fn.term(b)
            if observe is not None:
                observe(b, st)
            if t["k"] == "call":
                if is_noise(t):
                    st.pop(t["dest"]["l"], None)
                else:
                    if self._call(st, t) is not None:
                        st.pop(t["dest"]["l"], None)   # nondeterministic oracle: unknown here
            elif t["k"] == "yield":
                st.pop(t["ra"]["l"], None)
            for s2 in fn.succ[b]:
                if (b, s2) in avoid_edges:
                    continue
                lab = self.labels.get((b, s2))
                if lab is not None and t["k"] == "switch":
                    if lab.kind == "variant":
                        v = self._eval_place(st, lab.place)
                        if v is not None and v[0] == "variant" and v[1] not in lab.variants:
                            continue
                    elif lab.kind == "bool" and lab.raw is not None:
                        v = self._eval_operand(st, t["o"])
                        if v is not None and v[0] == "const" and v[1] in ("true", "false"):
                            if (v[1] == "true") != lab.raw:
                                continue
                    elif lab.kind == "int" and not self._int_edge_feasible(st, t, lab):
                        continue
                stack.append((s2, tuple(sorted(st.items()))))
        return reached, n


def split_type_args(s):
    """Top-level generic arguments of a type string `Head<A, B<C, D>, E>` -> ('Head', ['A', 'B<C, D>', 'E'])."""
    i = s.find("<")
    if i < 0 or not s.endswith(">"):
        return s, []
    head = s[:i]
    body = s[i + 1:-1]
    args = []
    depth = 0
    cur = []
    j = 0
    while j < len(body):
        c = body[j]
        if c in "<([":
            depth += 1
        elif c in ">)]" and not (c == ">" and j > 0 and body[j - 1] == "-"):
            depth -= 1
        if c == "," and depth == 0:
            args.append("".join(cur).strip())
            cur = []
        else:
            cur.append(c)
        j += 1
    if cur:
        args.append("".join(cur).strip())
    return head, args


def layer_stack(ty):
    """tower encodes the order of ServiceBuilder layers as nested Stack<Inner, Outer>: innermost first."""
    ty = ty.lstrip("&").strip()
    if ty.startswith("mut "):
        ty = ty[4:]
    head, args = split_type_args(ty)
    if head.endswith("ServiceBuilder") and args:
        return layer_stack(args[0])
    if head.endswith("layer::util::Stack") and len(args) == 2:
        return [args[0]] + layer_stack(args[1])
    return [ty]


def awaits(fn):
    """`.await` sites of a coroutine body: [{future: CallSite creating the future (or None), into: CallSite of into_future,
    poll: CallSite polling it, ready_edge: (a, b), pending_edge: (a, b), result: local holding the output}]"""
    out = []
    for c in fn.calls(noise=True):
        if not norm(c.decl or c.name).endswith("IntoFuture::into_future"):
            continue
        if not any("desugar:Await" in e for e in (c.t.get("x") or [])):
            continue
        fut = fn.call_defining(op_place(c.args[0])["l"]) if op_place(c.args[0]) else None
        # the poll: first call after into_future whose first argument roots in the into_future result
        poll = None
        for d in fn.calls(noise=True):
            if d.bb == c.bb or not fn.dominates(c.bb, d.bb):
                continue
            if not any("desugar:Await" in e for e in (d.t.get("x") or [])):
                continue
            n = norm(d.decl or d.name)
            if n.endswith("get_context") or n.endswith("Pin::new_unchecked") or n.endswith("IntoFuture::into_future"):
                continue
            rr = fn.roots(d.args[0], through_calls=True) if d.args else set()
            if any(r.kind == "call" and r.site.bb == c.bb for r in rr):
                if poll is None or fn.dominates(d.bb, poll.bb):
                    poll = d
        if poll is None:
            continue
        ready = pending = None
        res = None
        for (a, b, lab) in fn.edges():
            if lab is None or lab.kind != "variant":
                continue
            s = fn.call_defining(lab.place["l"])
            if s is None or s.bb != poll.bb or any(isinstance(e, dict) and "d" in e for e in lab.place["p"]):
                continue
            if lab.variants == {"Ready"}:
                ready = (a, b)
            elif lab.variants == {"Pending"}:
                pending = (a, b)
        out.append({"future": fut, "into": c, "poll": poll, "ready_edge": ready, "pending_edge": pending})
    return out
