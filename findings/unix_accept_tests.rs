// MODE: append-module
// ---- demonstration for F13 (C09): a client bound to a non-UTF-8 path must not end the accept loop.
// Appended at the end of src/stream/unix.rs; run with `cargo test --offline --lib verif_`.
#[cfg(all(test, feature = "server"))]
mod verif_tests {
    use super::*;
    use std::future::poll_fn;
    use std::os::unix::ffi::OsStrExt;

    #[tokio::test]
    async fn verif_f13_non_utf8_peer_does_not_fail_accept() {
        let dir = tempfile::tempdir().unwrap();
        let server_path = dir.path().join("server.sock");
        let mut listener = UnixListener::bind(&server_path).unwrap();

        // a client bound to a path that is not valid UTF-8
        let mut raw = dir.path().as_os_str().as_bytes().to_vec();
        raw.extend_from_slice(b"/cl\xffient.sock");
        let client_path = std::path::PathBuf::from(std::ffi::OsStr::from_bytes(&raw));
        let std_sock = std::os::unix::net::UnixDatagram::unbound(); // placeholder to keep imports honest
        drop(std_sock);
        let sock = tokio::net::UnixSocket::new_stream().unwrap();
        sock.bind(&client_path).unwrap();
        let connect = tokio::spawn({
            let server_path = server_path.clone();
            async move { sock.connect(&server_path).await }
        });

        let accepted = poll_fn(|cx| Pin::new(&mut listener).poll_accept(cx)).await;
        assert!(
            accepted.is_ok(),
            "F13: accept failed because of one client's socket name: {:?}",
            accepted.err()
        );
        let _ = connect.await.unwrap();
    }
}
