// MODE: append-module
// ---- demonstrations for F7 / F11 (C17).  Appended at the end of src/service/http.rs;
// run with `cargo test --offline --lib verif_`.
#[cfg(all(test, feature = "client"))]
mod verif_tests {
    #[test]
    fn verif_f7_unsupported_version_does_not_panic() {
        use crate::client::conn::protocol::HttpProtocol;
        let _ = HttpProtocol::from(http::Version::HTTP_09);
        let _ = HttpProtocol::from(http::Version::HTTP_3);
    }
}
