"""Decision table for `EyeballSet::process_all` (C10.1 / C10.2 / C10.4 / C10.7 / C11.2): trace equivalence with the specification.

The async body - every crate-local helper spliced in, awaits of crate-local async fns spliced in (the stagger-wait helper
included, whatever its interface), only `join_next` kept opaque (its contract is a table of its own, below) and
`tokio::time::timeout(d, fut)` given its meaning (the outcomes of `fut` as Ok(..), or Err(elapsed)) - is evaluated abstractly
for every small scenario (n queued candidates, initial concurrency None / Some(k), stagger delay Some(D) / None).  The queue and the task set are sequences of tagged candidates (seqmodel.py); awaiting
`join_next*` is a nondeterministic step with exactly the outcomes the contract of `join_next` allows for the current task
set (some running task succeeds / some running task fails - the first failure is remembered / the stagger delay elapses /
nothing is running).  Every start of a candidate and every await is appended to a trace kept in the abstract state.  The
set of (trace, result) pairs of the code must equal the set produced by the specification below (`spec`), which is the
property itself: start min(c, n) candidates in queue order; start each further candidate, in order, after one stagger
wait; return the first success immediately and unchanged; fail only once nothing is running and nothing is queued, with the
first error observed or NoProgress.  Nothing is executed: the evaluation is a finite abstract interpretation of MIR."""
import re

import inline
import seqmodel
from core import AbsPaths, INT_CMP, VALUE_EQ, norm, _as_int
from seqmodel import NONE, some, tup, _arg, _deref, _set_dest, _list_of

PA = "happy_eyeballs::EyeballSet::process_all::{closure#0}"
SELF = 9000          # pseudo-local holding the EyeballSet value `self` points to
QUEUE, TASKS, TRACE = 1, 2, 900


def full_unit(facts, fn):
    key = ("pa-full", fn.key)
    if not hasattr(facts, "_full_units"):
        facts._full_units = {}
    if key not in facts._full_units:
        def want(ck, raw):
            if "::_::" in ck:
                return False
            return not re.search(r"EyeballSet::join_next(::\{closure#0\})?$", norm(ck))
        facts._full_units[key] = inline.inline(facts, fn, 4, want, expand=True)
    return facts._full_units[key]


def _event(st, ev):
    l = st.get(-TRACE)
    st[-TRACE] = ("list", (l[1] if l else ()) + (("const", ev),))


def _tag(v):
    out = []
    from candloop import _tags_in
    _tags_in(v, out)
    return out[0] if len(out) == 1 else None


def o_tasks_push(ev, st, t, site):
    lid, lst = _list_of(st, _arg(ev, st, t, 0))
    e = _deref(st, _arg(ev, st, t, 1))
    if lid != TASKS or e is None:
        return False
    tag = _tag(e)
    if tag is None:
        return False
    _event(st, "start:" + tag)
    st[-lid] = ("list", tuple(lst + [e]))
    return _set_dest(st, t, tup())


def o_join(ev, st, t, site):
    """`self.join_next()`: the future, not yet awaited."""
    return _set_dest(st, t, ("const", "JJ"))


def o_timeout(ev, st, t, site):
    """`tokio::time::timeout(d, fut)`: the future, not yet awaited, remembers its bound."""
    d, fut = _deref(st, _arg(ev, st, t, 0)), _deref(st, _arg(ev, st, t, 1))
    if d is None or fut is None:
        return False
    return _set_dest(st, t, ("variant", "TimeoutFut", ((0, d), (1, fut))))


def o_identity(ev, st, t, site):
    v = _arg(ev, st, t, 0)
    if v is None:
        return False
    return _set_dest(st, t, v)


def _set_error(st, tag):
    """join_next's contract: the first failure is remembered in the set."""
    this = st.get(SELF)
    fields = dict(this[2])
    ei = st[-901][1]
    cur = fields.get(int(ei))
    if cur is not None and cur[0] == "variant" and cur[1] == "None":
        fields[int(ei)] = some(("variant", "Error", ((0, ("const", "err:" + tag)),)))
        st[SELF] = ("variant", this[1], tuple(sorted(fields.items())))


def o_poll(ev, st, t, site):
    """Polling the future of join_next, bare or under `tokio::time::timeout`: one nondeterministic step of the task set (never
    Pending: waiting is not an event).  Under a timeout the outcomes arrive as Ok(..) and the bound can elapse: Err(ELAPSED);
    the events of such a step are `t:..` when the bound is the set's stagger delay (`t[<bound>]:..` otherwise)."""
    v = _deref(st, _arg(ev, st, t, 0))
    wrapped = v is not None and v[0] == "variant" and v[1] == "TimeoutFut"
    if wrapped:
        f_ = dict(v[2])
        bound, v = f_.get(0), _deref(st, f_.get(1))
    if v is None or v[0] != "const" or v[1] != "JJ":
        return False
    k = "j"
    if wrapped:
        k = "t" if bound == ("const", "DELAY") else "t[%s]" % _show(bound)
    _, tasks = _list_of(st, ("seq", TASKS))
    alts = []

    def alt(event, payload, mutate=None):
        s2 = dict(st)
        if mutate:
            mutate(s2)
        _event(s2, "%s:%s" % (k, event))
        d = t["dest"]
        if wrapped:
            payload = ("variant", "Ok", ((0, payload),)) if payload is not None else ("variant", "Err", ((0, ("const", "ELAPSED")),))
        s2[d["l"]] = ("variant", "Ready", ((0, payload),))
        alts.append(s2)
    if not tasks:
        alt("Exhausted", ("variant", "Exhausted", ()))
    for i, task in enumerate(tasks or []):
        tag = _tag(task)
        rest = tuple(tasks[:i] + tasks[i + 1:])

        def done(s2, rest=rest):
            s2[-TASKS] = ("list", rest)

        def failed(s2, rest=rest, tag=tag):
            s2[-TASKS] = ("list", rest)
            _set_error(s2, tag)
        alt("Ok:" + tag, ("variant", "Ok", ((0, ("const", "out:" + tag)),)), done)
        alt("Error:" + tag, ("variant", "Error", ()), failed)
    if wrapped and tasks:
        alt("Timeout", None)
    return alts


def o_take(ev, st, t, site):
    raw = _arg(ev, st, t, 0)
    v = _deref(st, raw)
    if v is None or v[0] != "variant" or v[1] not in ("Some", "None"):
        return False
    if raw[0] == "refmut":
        st[raw[1]] = NONE
    elif raw[0] == "pref":
        ev._store(st, {"l": raw[1], "p": [{"f": f} for f in raw[2]]}, NONE)
    return _set_dest(st, t, v)


def o_map_ctor(ev, st, t, site):
    """`opt.map(Err)` / `res.map(Some)`: mapping with a tuple-variant constructor used as a function."""
    v = _deref(st, _arg(ev, st, t, 0))
    f = _arg(ev, st, t, 1)
    if v is None or f is None or v[0] != "variant" or f[0] != "const" or not isinstance(f[1], str):
        return False
    m = re.search(r"::(Err|Ok|Some)$", f[1])
    if not m or v[1] not in ("Some", "None", "Ok", "Err"):
        return False
    hit = {"Option": "Some", "Result": "Ok", "Poll": "Ready"}.get(re.sub(r".*::(Option|Result|Poll).*", r"\1", norm(site.name)))
    if hit is None:
        return False
    if v[1] != hit:
        return _set_dest(st, t, v)
    return _set_dest(st, t, ("variant", hit, ((0, ("variant", m.group(1), ((0, dict(v[2]).get(0)),))),)))


def o_range_next(ev, st, t, site):
    raw = _arg(ev, st, t, 0)
    if raw is None or raw[0] not in ("refmut",):
        return False
    r = st.get(raw[1])
    if r is None or r[0] != "variant" or r[1] not in ("Range", "RangeInclusive"):
        return False
    f = dict(r[2])
    a, b = _as_int(f.get(0)), _as_int(f.get(1))
    if a is None or b is None:
        return False
    done = a >= b if r[1] == "Range" else (a > b or f.get(2) == ("const", "true"))
    if done:
        return _set_dest(st, t, NONE)
    st[raw[1]] = ("variant", r[1], ((0, ("const", str(a + 1))), (1, ("const", str(b)))) + (((2, ("const", "false")),) if r[1] == "RangeInclusive" else ()))
    return _set_dest(st, t, some(("const", str(a))))


def o_range_into_iter(ev, st, t, site):
    v = _deref(st, _arg(ev, st, t, 0))
    if v is None or v[0] != "variant" or v[1] not in ("Range", "RangeInclusive"):
        return False
    return _set_dest(st, t, v)


def o_range_incl_new(ev, st, t, site):
    a, b = _arg(ev, st, t, 0), _arg(ev, st, t, 1)
    if _as_int(a) is None or _as_int(b) is None:
        return False
    return _set_dest(st, t, ("variant", "RangeInclusive", ((0, a), (1, b), (2, ("const", "false")))))


def o_min(ev, st, t, site):
    a, b = _as_int(_deref(st, _arg(ev, st, t, 0))), _as_int(_deref(st, _arg(ev, st, t, 1)))
    if a is None or b is None:
        return False
    n = norm(site.name)
    return _set_dest(st, t, ("const", str(min(a, b) if n.endswith("min") else max(a, b))))


def o_drain(ev, st, t, site):
    """`list.drain(range)`: the range is removed at once; the removed elements are what the iterator yields."""
    lid, lst = _list_of(st, _arg(ev, st, t, 0))
    r = _deref(st, _arg(ev, st, t, 1))
    if lid is None or r is None or r[0] != "variant":
        return False
    f = dict(r[2])
    if r[1] == "RangeFull":
        a, b = 0, len(lst)
    elif r[1] == "RangeTo":
        a, b = 0, _as_int(f.get(0))
    elif r[1] == "RangeFrom":
        a, b = _as_int(f.get(0)), len(lst)
    elif r[1] == "Range":
        a, b = _as_int(f.get(0)), _as_int(f.get(1))
    else:
        return False
    if a is None or b is None or a > b or b > len(lst):
        return False     # would panic at run time: not modelled
    st[-lid] = ("list", tuple(lst[:a] + lst[b:]))
    return _set_dest(st, t, ("arr", tuple(lst[a:b]), 0))


def o_funord_new(ev, st, t, site):
    return False


EXTRA_RAW = [
    (r"FuturesUnordered.*::push$", o_tasks_push),
    (r"EyeballSet::join_next$", o_join),
    (r"tokio::time::timeout$|tokio::time::timeout::timeout$", o_timeout),
    (r"IntoFuture.*::into_future$|Pin.*::new_unchecked$|Pin.*::new$|Pin.*::as_mut$", o_identity),
    (r"Future.*::poll$", o_poll),
    (r"Option.*::take$|mem::take$", o_take),
    (r"Option.*::map$|Result.*::map$", o_map_ctor),
    (r"Iterator.*::next$", o_range_next),
    (r"IntoIterator.*::into_iter$", o_range_into_iter),
    (r"RangeInclusive.*::new$", o_range_incl_new),
    (r"cmp::min$|cmp::max$|Ord.*::min$|Ord.*::max$", o_min),
    (r"VecDeque.*::drain$|Vec.*::drain$", o_drain),
    (r"FuturesUnordered.*::len$", seqmodel.o_len),
    (r"FuturesUnordered.*::is_empty$", seqmodel.o_is_empty),
    (r"FuturesUnordered.* as std::iter::Extend.*::extend$", None),   # placeholder replaced below
]


def o_tasks_extend(ev, st, t, site):
    """`tasks.extend(iter)`: every item is a start, in iteration order."""
    lid, lst = _list_of(st, _arg(ev, st, t, 0))
    it = _deref(st, _arg(ev, st, t, 1))
    if lid != TASKS or it is None:
        return False
    if it[0] == "seq":
        it = ("iterv", it[1], 0)
    if it[0] not in ("iterv", "enum", "arr", "flat", "fromfn", "mapped"):
        return False
    for _ in range(64):
        item, it = seqmodel._step(ev, st, it)
        if item is False:
            return False
        if item is None:
            return _set_dest(st, t, tup())
        e = _deref(st, item) if item[0] in ("ref", "refmut") else item
        tag = _tag(e)
        if tag is None:
            return False
        _event(st, "start:" + tag)
        _, lst = _list_of(st, ("seq", lid))
        st[-lid] = ("list", tuple(lst + [e]))
    return False


EXTRA_RAW[-1] = (r"FuturesUnordered.* as std::iter::Extend.*::extend$", o_tasks_extend)


def field_index(facts, pred):
    adt = facts.adt("happy_eyeballs::EyeballSet")
    for i, fl in enumerate(adt["variants"][0]["fields"]):
        if pred(fl):
            return i
    return None


def evaluate(facts, n, conc, delay=True):
    """Set of (trace, result) of the code for n queued candidates, initial concurrency `conc` (None or an int) and a stagger
    delay configured (Some(DELAY)) or not."""
    f = full_unit(facts, facts.fn(PA))
    adt = facts.adt("happy_eyeballs::EyeballSet")
    fl = adt["variants"][0]["fields"]
    qi = [i for i, x in enumerate(fl) if re.search(r"VecDeque<|^std::vec::Vec<|^alloc::vec::Vec<", x["ty"])]
    ti = [i for i, x in enumerate(fl) if re.search(r"FuturesUnordered<", x["ty"])]
    ei = [i for i, x in enumerate(fl) if re.search(r"Option<.*HappyEyeballsError<", x["ty"])]
    ci = [i for i, x in enumerate(fl) if re.search(r"^std::option::Option<usize>$", x["ty"])]
    if not (len(qi) == len(ti) == len(ei) == len(ci) == 1):
        raise KeyError("EyeballSet fields (queue, tasks, error, initial concurrency) not identified by type: %s" % [x["ty"] for x in fl])
    fields = {}
    for i, x in enumerate(fl):
        fields[i] = ("const", "FIELD_" + x["name"])
    fields[qi[0]] = ("seq", QUEUE)
    fields[ti[0]] = ("seq", TASKS)
    fields[ei[0]] = NONE
    fields[ci[0]] = NONE if conc is None else some(("const", str(conc)))
    di = [i for i, x in enumerate(fl) if x["name"] == "delay" and re.search(r"Option<.*Duration>", x["ty"])]
    if len(di) != 1:
        raise KeyError("EyeballSet has no field `delay: Option<Duration>`")
    fields[di[0]] = some(("const", "DELAY")) if delay else NONE
    this = ("variant", "EyeballSet", tuple(sorted(fields.items())))
    cap = facts._capture_index(facts.fn(PA), "cap:self")
    env = ("variant", "{coroutine}", ((cap if cap is not None else 0, ("refmut", SELF)),))
    cands = tuple(("const", "v4#%d" % i) for i in range(n))
    st = {1: env, SELF: this, -QUEUE: ("list", cands), -TASKS: ("list", ()), -TRACE: ("list", ()), -901: ("const", str(ei[0])), -1000: ("const", "10")}
    ap = AbsPaths(f, limit=60000, raw_oracles=EXTRA_RAW + seqmodel.RAW_ORACLES + seqmodel.OPTION_ORACLES, oracles=[INT_CMP, VALUE_EQ])
    outs = ap.outcomes(state=st, extra_keys=(-TRACE, -QUEUE, -TASKS))
    res = set()
    for (rv, _, (trace, queue, tasks)) in outs:
        tr = tuple(e[1] for e in trace[1]) if trace is not None else None
        res.add((tr, _show(rv)))
    return res


def _show(v):
    if v is None:
        return "?"
    if v[0] == "const":
        return str(v[1])
    if v[0] == "variant":
        inner = ",".join(_show(x) for _, x in v[2])
        return "%s(%s)" % (v[1], inner) if inner else str(v[1])
    if v[0] == "refval":
        return _show(v[1])
    return str(v)


def spec(n, conc, delay=True):
    """The specification: the set of (trace, result) allowed for n candidates and initial concurrency conc; a stagger wait is
    bounded by the delay when one is configured (`t:` steps, which can time out) and a plain wait otherwise (`j:` steps)."""
    SK = "t" if delay else "j"
    res = set()
    cands = ["v4#%d" % i for i in range(n)]
    k = n if conc is None else min(conc, n)
    trace0 = tuple("start:" + c for c in cands[:k])

    def steps(kind, tasks):
        """(event, kind-of-outcome, tag, tasks after)"""
        if not tasks:
            return [("%s:Exhausted" % kind, "Exhausted", None, tasks)]
        out = []
        for i, tg in enumerate(tasks):
            rest = tasks[:i] + tasks[i + 1:]
            out.append(("%s:Ok:%s" % (kind, tg), "Ok", tg, rest))
            out.append(("%s:Error:%s" % (kind, tg), "Error", tg, rest))
        if kind == "t":
            out.append(("t:Timeout", "Timeout", None, tasks))
        return out

    def stagger(queue, tasks, error, trace):
        if not queue:
            return drain(tasks, error, trace)
        cand, rest = queue[0], queue[1:]
        for (ev, kind, tg, after) in steps(SK, tasks):
            tr = trace + (ev,)
            if kind == "Ok":
                res.add((tr, "Ok(out:%s)" % tg))
                continue
            err = error or (("err:" + tg) if kind == "Error" else None)
            stagger(rest, after + (cand,), err, tr + ("start:" + cand,))

    def drain(tasks, error, trace):
        for (ev, kind, tg, after) in steps("j", tasks):
            tr = trace + (ev,)
            if kind == "Ok":
                res.add((tr, "Ok(out:%s)" % tg))
            elif kind == "Error":
                drain(after, error or ("err:" + tg), tr)
            else:
                res.add((tr, "Err(Error(%s))" % error if error else "Err(NoProgress)"))
    stagger(tuple(cands[k:]), tuple(cands[:k]), None, trace0)
    return res


SCENARIOS = [(n, c, True) for n in range(0, 4) for c in (None, 0, 1, 2, 5)] + [(n, c, False) for n in range(0, 4) for c in (None, 1)]


def table(ctx, facts, label="process_all", only=None):
    rows = 0
    scenarios = [(n, c, d) for (n, c, d) in SCENARIOS if only is None or only(n, c)]
    ctx.touched(full_unit(facts, facts.fn(PA)))
    for (n, c, d) in scenarios:
        key = "%s|trace-table|n=%d,concurrency=%s%s" % (label, n, "None" if c is None else c, "" if d else ",delay=None")
        if not hasattr(facts, "_pa_table"):
            facts._pa_table = {}
        if (n, c, d) not in facts._pa_table:
            try:
                facts._pa_table[(n, c, d)] = evaluate(facts, n, c, d)
            except AbsPaths.Undecided as e:
                facts._pa_table[(n, c, d)] = e
        got = facts._pa_table[(n, c, d)]
        if isinstance(got, Exception):
            ctx.undecided(key, str(got))
            continue
        rows += 1
        want = spec(n, c, d)
        extra = sorted(got - want, key=repr)
        lost = sorted(want - got, key=repr)
        why = ""
        if extra:
            why += "the code can do %s -> %s, which the specification does not allow; " % (list(extra[0][0]) if extra[0][0] is not None else "?", extra[0][1])
        if lost:
            why += "the specification requires %s -> %s, which the code cannot do; " % (list(lost[0][0]), lost[0][1])
        ctx.check(not extra and not lost, key,
                  "%d candidates, initial concurrency %s, stagger delay %s: the %d (trace, result) pairs of the code are exactly those of the specification "
                  "(batch in order, one stagger wait - bounded by the delay when there is one - per further start, first success returned at once and unchanged, failure only when exhausted, first error or NoProgress)"
                  % (n, c, "DELAY" if d else "none", len(want)),
                  "%d candidates, initial concurrency %s, stagger delay %s: %s(%d unexpected, %d missing of %d)" % (n, c, "DELAY" if d else "none", why, len(extra), len(lost), len(want)))
    ctx.floor("%s|trace-table-rows" % label, rows, len(scenarios), "scenarios evaluated")


# ---------------------------------------------------------------------------------------------------------------------------
# join_next: the contract the process_all table relies on, as a decision table of its own

JN = "happy_eyeballs::EyeballSet::join_next::{closure#0}"


def join_next_table(ctx, facts, label="join_next"):
    """One call of `join_next` looks at exactly one completed task (one await of `tasks.next()`), and answers: Some(Ok(x)) ->
    Eyeball::Ok(x) (the value unchanged); Some(Err(e)) -> Eyeball::Error, and e is remembered iff no earlier failure was;
    None -> Eyeball::Exhausted.  Evaluated abstractly (the await is a nondeterministic step with these three outcomes) for
    both states of the remembered error."""
    fn = facts.fn(JN)
    pats = [re.compile(p) for p, _ in EXTRA_RAW + seqmodel.RAW_ORACLES]
    u = inline.inline(facts, fn, 4, lambda ck, raw: "::_::" not in ck and not any(rx.search(norm(ck)) for rx in pats) and not re.search(r"StreamExt.*::next$", norm(ck)), expand=True)
    ctx.touched(u)
    adt = facts.adt("happy_eyeballs::EyeballSet")
    fl = adt["variants"][0]["fields"]
    ei = [i for i, x in enumerate(fl) if re.search(r"Option<.*HappyEyeballsError<", x["ty"])]
    if len(ei) != 1:
        return ctx.missing("%s|error-field" % label, "EyeballSet has no single Option<HappyEyeballsError> field")
    cap = facts._capture_index(fn, "cap:self")
    TR = -TRACE

    def o_next(ev, st, t, site):
        return _set_dest(st, t, ("const", "NEXT"))

    def o_poll_next(ev, st, t, site):
        v = _deref(st, _arg(ev, st, t, 0))
        if v != ("const", "NEXT"):
            return False
        n = len((st.get(TR) or ("list", ()))[1])
        alts = []
        outs = [("Some(Ok)", some(("variant", "Ok", ((0, ("const", "OUT")),)))), ("Some(Err)", some(("variant", "Err", ((0, ("const", "ERR_NEW")),)))), ("None", NONE)]
        if n >= 3:
            outs = outs[2:]       # bound the exploration of a body that keeps polling
        for name, payload in outs:
            s2 = dict(st)
            _event(s2, "next:" + name)
            s2[t["dest"]["l"]] = ("variant", "Ready", ((0, payload),))
            alts.append(s2)
        return alts
    raw = [(r"StreamExt.*::next$", o_next), (r"IntoFuture.*::into_future$|Pin.*::new_unchecked$|Pin.*::new$|Pin.*::as_mut$", o_identity),
           (r"Future.*::poll$", o_poll_next), (r"Option.*::take$|mem::take$", o_take), (r"Option.*::map$|Result.*::map$", o_map_ctor)]
    rows = 0
    for had in (False, True):
        fields = {i: ("const", "FIELD_" + x["name"]) for i, x in enumerate(fl)}
        fields[ei[0]] = some(("variant", "Error", ((0, ("const", "ERR_OLD")),))) if had else NONE
        st = {1: ("variant", "{coroutine}", ((cap if cap is not None else 0, ("refmut", SELF)),)), SELF: ("variant", "EyeballSet", tuple(sorted(fields.items()))), TR: ("list", ())}

        def err_of(st_):
            this = st_.get(SELF)
            return dict(this[2]).get(ei[0]) if this is not None and this[0] == "variant" else None
        key = "%s|table|error-%s" % (label, "remembered" if had else "none-yet")
        try:
            outs = AbsPaths(u, limit=20000, raw_oracles=raw, oracles=[INT_CMP, VALUE_EQ]).outcomes(state=st, extra_keys=(TR, err_of))
        except AbsPaths.Undecided as e:
            ctx.undecided(key, str(e))
            continue
        rows += 1
        got = set()
        for (rv, _, (trace, err)) in outs:
            got.add((tuple(e[1] for e in trace[1]) if trace is not None else None, _show(rv), _show(err)))
        old = "Some(Error(ERR_OLD))"
        want = {(("next:Some(Ok)",), "Ok(OUT)", old if had else "None"),
                (("next:Some(Err)",), "Error", old if had else "Some(Error(ERR_NEW))"),
                (("next:None",), "Exhausted", old if had else "None")}
        extra = sorted(got - want, key=repr)
        lost = sorted(want - got, key=repr)
        why = ""
        if extra:
            why += "the code can do %s -> %s with the remembered error then %s; " % (list(extra[0][0]) if extra[0][0] is not None else "?", extra[0][1], extra[0][2])
        if lost:
            why += "required but impossible: %s -> %s with the remembered error then %s; " % (list(lost[0][0]), lost[0][1], lost[0][2])
        ctx.check(not extra and not lost, key,
                  "one call looks at exactly one finished task: success -> Eyeball::Ok(value), failure -> Eyeball::Error (remembered iff it is the first), nothing running -> Exhausted",
                  "%s(%d unexpected, %d missing)" % (why, len(extra), len(lost)), u.where())
    ctx.floor("%s|table-rows" % label, rows, 2, "scenarios evaluated")
