    // ---- demonstrations for the pool defects F1, F2, F10, F12 (see /verif/DESIGN.md section 6)
    // Appended inside `mod tests` of src/client/pool/mod.rs in a scratch copy; run with
    //   cargo test --offline --lib --features mocks verif_

    #[tokio::test]
    async fn verif_f12_waiting_request_takes_released_connection() {
        let pool = Pool::new(Config {
            idle_timeout: Some(Duration::from_secs(10)),
            max_idle_per_host: 5,
            continue_after_preemption: false,
        });
        let key = example_key();
        let (_tx, rx) = tokio::sync::oneshot::channel();
        let mut checkout = std::pin::pin!(pool.checkout(
            key.clone(),
            false,
            MockTransport::channel(rx)
                .connector("mock://address".into_request_parts(), HttpProtocol::Http1),
        ));
        // first poll: own dial is pending, nothing in the pool
        assert!(futures_util::poll!(&mut checkout).is_pending());
        let token = checkout.token();
        let released = MockSender::single();
        let rid = released.id();
        pool.inner.lock().push(token, released, pool.as_ref());
        // next poll after the release must take the released connection
        match futures_util::poll!(&mut checkout) {
            Poll::Ready(Ok(conn)) => assert_eq!(conn.id(), rid),
            Poll::Ready(Err(e)) => panic!("unexpected error {e:?}"),
            Poll::Pending => panic!("F12: released connection not taken by the waiting request"),
        }
    }

    #[tokio::test]
    async fn verif_f1_dependants_released_when_owner_fails() {
        let pool = Pool::new(Config {
            idle_timeout: Some(Duration::from_secs(10)),
            max_idle_per_host: 5,
            continue_after_preemption: false,
        });
        let key = example_key();
        let (tx, rx) = tokio::sync::oneshot::channel::<MockStream>();
        let mut a = std::pin::pin!(pool.checkout(
            key.clone(),
            true,
            MockTransport::channel(rx)
                .connector("mock://address".into_request_parts(), HttpProtocol::Http1),
        ));
        assert!(futures_util::poll!(&mut a).is_pending());
        let mut b = std::pin::pin!(pool.checkout(
            key.clone(),
            true,
            MockTransport::reusable()
                .connector("mock://address".into_request_parts(), HttpProtocol::Http1),
        ));
        assert!(futures_util::poll!(&mut b).is_pending());
        // the owner's dial fails
        drop(tx);
        let ra = futures_util::poll!(&mut a);
        assert!(matches!(ra, Poll::Ready(Err(_))), "owner should fail");
        // the owner is dropped by its caller (error returned)
        a.set(pool.checkout(
            key.clone(),
            false,
            MockTransport::single()
                .connector("mock://other".into_request_parts(), HttpProtocol::Http1),
        ));
        match futures_util::poll!(&mut b) {
            Poll::Ready(_) => {}
            Poll::Pending => panic!("F1: dependant still pending after the in-flight attempt failed"),
        }
    }

    #[tokio::test]
    async fn verif_f10_cancelled_dependant_keeps_owner_marker() {
        let pool = Pool::new(Config {
            idle_timeout: Some(Duration::from_secs(10)),
            max_idle_per_host: 5,
            continue_after_preemption: false,
        });
        let key = example_key();
        let (_tx, rx) = tokio::sync::oneshot::channel::<MockStream>();
        let mut a = std::pin::pin!(pool.checkout(
            key.clone(),
            true,
            MockTransport::channel(rx)
                .connector("mock://address".into_request_parts(), HttpProtocol::Http1),
        ));
        assert!(futures_util::poll!(&mut a).is_pending());
        let token = a.token();
        let b = pool.checkout(
            key.clone(),
            true,
            MockTransport::reusable()
                .connector("mock://address".into_request_parts(), HttpProtocol::Http1),
        );
        assert!(pool.inner.lock().connecting.contains(&token));
        drop(b);
        assert!(
            pool.inner.lock().connecting.contains(&token),
            "F10: cancelling a dependant cleared the owner's in-flight marker"
        );
    }

    #[tokio::test]
    async fn verif_f2_unpolled_checkout_returns_idle_connection() {
        let pool = Pool::new(Config {
            idle_timeout: Some(Duration::from_secs(10)),
            max_idle_per_host: 5,
            continue_after_preemption: false,
        });
        let key = example_key();
        let first = pool.checkout(
            key.clone(),
            false,
            MockTransport::single()
                .connector("mock://address".into_request_parts(), HttpProtocol::Http1),
        );
        let token = first.token();
        drop(first);
        pool.inner
            .lock()
            .push(token, MockSender::single(), pool.as_ref());
        let co = pool.checkout(
            key.clone(),
            false,
            MockTransport::single()
                .connector("mock://address".into_request_parts(), HttpProtocol::Http1),
        );
        drop(co);
        let n = pool
            .inner
            .lock()
            .idle
            .get(&token)
            .map(|i| i.len())
            .unwrap_or(0);
        assert_eq!(n, 1, "F2: healthy idle connection destroyed by a cancelled checkout");
    }
