"""C15: at most max_idle_per_host idle connections per origin (level: proof; DESIGN.md section 5)."""
import pool
import c06

META = {
    "thorough_extra": ["mocks", "client-only"],
    "level": "proof",
    "explanation": "Inductive invariant |idle[t]| <= max_idle_per_host: the idle Vec has exactly one growth site "
                   "(IdleConnections::push, P1), reached only from the PoolInner operations that hand a connection back (today: push), each of which - "
                   "fully spliced - dominates the growth by an edge `len < config.max_idle_per_host` (P6); the configuration is never written after construction; "
                   "every other operation on the Vec shrinks it. All premises are decided on mir_built of every function of the crate."
                   " As built now: the bound is decided by rows of the hand-back table (pooltable.push_table under max_idle_per_host = 1 and 2: at the bound the connection is dropped, below it parked - wherever the comparison lives); the per-origin accounting relies on one token per origin, so the key-consistency rules (derived Eq / Hash of UriKey, TokenMap::insert table) are claimed here too.",
    "trusted_base": ["rustc type/borrow checker (the build succeeded)", "std Vec/HashMap semantics",
                     "PoolInner methods are atomic: &mut self behind parking_lot::Mutex"],
    "assumptions": ["max_idle_per_host is read at push time; no unsafe aliasing of the idle Vec (unsafe blocks pinned by C18)"],
    "undecided": "nothing of the invariant; the *closing* of surplus connections is by drop (ownership)",
}

RULES = [
    ("P1", pool.P1, ["default"]),
    ("P6", pool.P6, ["default"]),
    # the bound is per token: one origin must have one token (Eq / Hash of the key agree, the token map answers through entry(key))
    ("C06.1", c06.C06_1, ["default"]),
    ("C06.3", c06.C06_3, ["default"]),
]
