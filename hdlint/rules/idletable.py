"""Decision table for `IdleConnections::pop` (C05 / C04: P5): which idle entry is handed out.

The function - helpers spliced in, combinators expanded - is evaluated abstractly on every list of up to three idle entries
(each open or closed, each older or newer than the expiry cut-off) and every timeout configuration (none, zero, a positive
duration).  Time is a small symbolic order (`AT_old < CUTOFF < AT_new < NOW`, `ZERO < AGE_new < T < AGE_old`): `Instant::now`,
`checked_sub` / `-`, `elapsed`, comparisons and `as_secs_f64` / `is_zero` are given their meaning on it.  Rule: whatever is
yielded is open and not expired (every list); and for lists whose ages are ordered as pushes order them (oldest first) the
answer is exactly the specification's: scanning from the newest entry, closed entries are dropped, an expired entry ends
the scan with nothing, the first open one is yielded - and the yielded entry is no longer in the list."""
import itertools
import re

import inline
import seqmodel
from core import AbsPaths, INT_CMP, VALUE_EQ, norm
from seqmodel import NONE, some, tup, _arg, _deref, _set_dest, _list_of

POP = "client::pool::idle::IdleConnections::pop"
SELF = 9000
INST = {"AT_old": 0, "CUTOFF": 1, "AT_new": 2, "NOW": 3}
DUR = {"ZERO": 0, "AGE_new": 1, "T": 2, "AGE_old": 3}


def _sym(v):
    if v is None or v[0] != "const" or not isinstance(v[1], str):
        return None
    return v[1].split("#")[0]


def o_vec_pop(ev, st, t, site):
    lid, lst = _list_of(st, _arg(ev, st, t, 0))
    if lid is None:
        return False
    if lst:
        e = lst.pop()
        st[-lid] = ("list", tuple(lst))
        return _set_dest(st, t, some(e))
    return _set_dest(st, t, NONE)


def o_clear(ev, st, t, site):
    lid, lst = _list_of(st, _arg(ev, st, t, 0))
    if lid is None:
        return False
    st[-lid] = ("list", ())
    return _set_dest(st, t, tup())


def o_is_open(ev, st, t, site):
    s = _sym(_deref(st, _arg(ev, st, t, 0)))
    if s not in ("conn:open", "conn:closed"):
        return False
    return _set_dest(st, t, ("const", "true" if s == "conn:open" else "false"))


def o_now(ev, st, t, site):
    return _set_dest(st, t, ("const", "NOW"))


def o_sub(ev, st, t, site):
    a, b = _sym(_deref(st, _arg(ev, st, t, 0))), _sym(_deref(st, _arg(ev, st, t, 1)))
    checked = norm(site.name).endswith("checked_sub")
    r = None
    if a == "NOW" and b == "T":
        r = "CUTOFF"
    elif a == "NOW" and b == "ZERO":
        r = "NOW"
    elif a == "NOW" and b in ("AT_old", "AT_new"):
        r = "AGE_old" if b == "AT_old" else "AGE_new"
    if r is None:
        return False
    v = ("const", r)
    return _set_dest(st, t, some(v) if checked else v)


def o_elapsed(ev, st, t, site):
    a = _sym(_deref(st, _arg(ev, st, t, 0)))
    if a not in ("AT_old", "AT_new"):
        return False
    return _set_dest(st, t, ("const", "AGE_old" if a == "AT_old" else "AGE_new"))


def o_since(ev, st, t, site):
    a, b = _sym(_deref(st, _arg(ev, st, t, 0))), _sym(_deref(st, _arg(ev, st, t, 1)))
    if a != "NOW" or b not in ("AT_old", "AT_new"):
        return False
    v = ("const", "AGE_old" if b == "AT_old" else "AGE_new")
    return _set_dest(st, t, some(v) if "checked" in norm(site.name) else v)


def o_cmp(ev, st, t, site):
    a, b = _sym(_deref(st, _arg(ev, st, t, 0))), _sym(_deref(st, _arg(ev, st, t, 1)))
    for order in (INST, DUR):
        if a in order and b in order:
            op = norm(site.name).split("::")[-1]
            x, y = order[a], order[b]
            r = {"lt": x < y, "le": x <= y, "gt": x > y, "ge": x >= y, "eq": x == y, "ne": x != y}.get(op)
            if r is None:
                return False
            return _set_dest(st, t, ("const", "true" if r else "false"))
    return False


def o_secs(ev, st, t, site):
    a = _sym(_deref(st, _arg(ev, st, t, 0)))
    if a not in DUR:
        return False
    n = norm(site.name).split("::")[-1]
    if n == "is_zero":
        return _set_dest(st, t, ("const", "true" if a == "ZERO" else "false"))
    val = {"ZERO": "0", "AGE_new": "10", "T": "30", "AGE_old": "90"}[a]
    return _set_dest(st, t, ("const", val + (".0" if "f" in n else "")))


RAW = [
    (r"vec::Vec.*::pop$", o_vec_pop),
    (r"vec::Vec.*::clear$|VecDeque.*::clear$", o_clear),
    (r"PoolableConnection.*::is_open$", o_is_open),
    (r"Instant::now$", o_now),
    (r"Instant::checked_sub$|Instant.* as std::ops::Sub.*::sub$|Sub.*::sub$", o_sub),
    (r"Instant::elapsed$", o_elapsed),
    (r"Instant::(duration_since|saturating_duration_since|checked_duration_since)$", o_since),
    (r"PartialOrd.*::(lt|le|gt|ge)$|PartialEq.*::(eq|ne)$", o_cmp),
    (r"Duration::(as_secs_f64|as_secs_f32|as_secs|as_millis|as_nanos|as_micros|subsec_nanos|is_zero)$", o_secs),
]


def full_unit(facts):
    if not hasattr(facts, "_idle_unit"):
        fn = facts.fn(POP)
        pats = [re.compile(p) for p, _ in RAW + seqmodel.RAW_ORACLES]

        def want(ck, raw):
            n = norm(ck)
            return "::_::" not in ck and not any(rx.search(n) or rx.search(ck) for rx in pats)
        facts._idle_unit = inline.inline(facts, fn, 4, want, expand=True)
    return facts._idle_unit


def entry(i, age, is_open, idx_at, idx_inner):
    return ("variant", "Idle", tuple(sorted(((idx_at, ("const", "AT_%s#%d" % (age, i))), (idx_inner, ("const", "conn:%s#%d" % ("open" if is_open else "closed", i)))))))


def evaluate(facts, entries, timeout):
    f = full_unit(facts)
    adt = facts.adt("client::pool::idle::Idle")
    fl = adt["variants"][0]["fields"]
    ia = [i for i, x in enumerate(fl) if x["ty"].endswith("Instant")]
    ii = [i for i, x in enumerate(fl) if not x["ty"].endswith("Instant")]
    cadt = facts.adt("client::pool::idle::IdleConnections")
    cfl = cadt["variants"][0]["fields"]
    iv = [i for i, x in enumerate(cfl) if "Vec<" in x["ty"] or "VecDeque<" in x["ty"]]
    if not (len(ia) == len(ii) == len(iv) == 1):
        raise KeyError("Idle { at, inner } / IdleConnections { inner: Vec } not identified by type")
    lst = tuple(entry(i, age, op, ia[0], ii[0]) for i, (age, op) in enumerate(entries))
    this = ("variant", "IdleConnections", ((iv[0], ("seq", 1)),))
    tv = NONE if timeout is None else some(("const", timeout))
    st = {1: ("refmut", SELF), SELF: this, 2: tv, -1: ("list", lst)}
    ap = AbsPaths(f, limit=20000, raw_oracles=RAW + seqmodel.RAW_ORACLES, oracles=[INT_CMP, VALUE_EQ])
    outs = ap.outcomes(state=st, extra_keys=(-1,))
    res = set()
    for (rv, _, (rest,)) in outs:
        y = None
        if rv is not None and rv[0] == "variant" and rv[1] == "None":
            y = "None"
        elif rv is not None and rv[0] == "variant" and rv[1] == "Some" and dict(rv[2]).get(0) is not None and dict(rv[2])[0][0] == "const":
            y = dict(rv[2])[0][1]
        else:
            y = "?"
        kept = None
        if rest is not None and rest[0] == "list":
            kept = tuple(dict(e[2]).get(ii[0], ("const", "?"))[1] if e is not None and e[0] == "variant" else "?" for e in rest[1])
        res.add((y, kept))
    return res


def spec(entries, timeout):
    lst = list(enumerate(entries))
    while lst:
        i, (age, is_open) = lst.pop()
        if timeout == "T" and age == "old":
            return "None"
        if is_open:
            return "conn:open#%d" % i
    return "None"


def table(ctx, facts, label="IdleConnections::pop"):
    ctx.touched(full_unit(facts))
    rows = 0
    kinds = [(a, o) for a in ("old", "new") for o in (True, False)]
    for timeout in (None, "ZERO", "T"):
        for L in range(0, 4):
            for entries in itertools.product(kinds, repeat=L):
                ages = [a for a, _ in entries]
                monotone = ages == sorted(ages, key=lambda a: 0 if a == "old" else 1)
                if L == 3 and not monotone:
                    continue
                desc = ",".join("%s-%s" % (a, "open" if o else "closed") for a, o in entries) or "-"
                key = "%s|table|timeout=%s|%s" % (label, timeout, desc)
                try:
                    got = evaluate(facts, entries, timeout)
                except AbsPaths.Undecided as e:
                    ctx.undecided(key, str(e))
                    continue
                rows += 1
                ok = True
                why = ""
                for (y, kept) in got:
                    if y == "?":
                        ok, why = False, "the answer is not one of the list's entries or None"
                        break
                    if y != "None":
                        i = int(y.split("#")[1])
                        age, is_open = entries[i]
                        if not is_open:
                            ok, why = False, "a closed connection (%s) is handed out" % y
                            break
                        if timeout == "T" and age == "old":
                            ok, why = False, "an expired connection (%s, idle longer than the timeout) is handed out" % y
                            break
                        if kept is None or y in kept:
                            ok, why = False, "the connection handed out (%s) stays in the idle list as well" % y
                            break
                if ok and monotone:
                    want = spec(entries, timeout)
                    ys = {y for (y, _) in got}
                    if ys != {want}:
                        ok, why = False, "the answer is %s, the specification says %s" % (sorted(ys), want)
                ctx.check(ok, key, "idle list [%s] (oldest first), timeout %s: only an open, unexpired entry is handed out%s" % (desc, timeout, ", and it is the specified one" if monotone else ""),
                          "idle list [%s] (oldest first), timeout %s: %s" % (desc, timeout, why))
    ctx.floor("%s|table-rows" % label, rows, 159, "scenarios evaluated")
