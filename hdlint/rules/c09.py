"""C09: one misbehaving connection never takes the server down (level: other)."""
import re
from core import norm, CallSite, sig, assigns_to_return, is_transparent
from mir import op_place
import panics
import pool2

META = {
    "thorough_extra": ["mocks", "server-only", "aws"],
    "level": "other",
    "explanation": "Structure of the accept path, decided on all paths: (C09.1) in every Accept::poll_accept impl (and DuplexIncoming::poll_next) an Err reaching the return place "
                   "- explicit Err(..), `?` residual, or an Err built inside a closure applied to the accepted item - roots only in the listener's own poll, never in a value "
                   "derived from the accepted connection; (C09.2) Serving::poll_once returns Err only from poll_ready_ref, poll_accept or the make-service future, and "
                   "Serving::poll / GracefulShutdown::poll only pass that on; (C09.3) the per-connection driver's Output is () and it completes on both Ok and Err of the "
                   "connection; (C09.4) accepted connections are handed to the executor and never polled inline by the accept loop; (C09.5) no TLS handshake is reachable "
                   "from any poll_accept (it runs lazily inside the connection task); (C09.6) every panic-capable site reachable from the accept-path entry points is "
                   "discharged (state option / constant input / table entry with reason).",
    "trusted_base": ["rustc type/borrow checker", "hyper confines protocol errors to the connection future", "tokio listeners report only listener-level errors from poll_accept",
                     "the executor isolates panics of spawned connection tasks"],
    "assumptions": ["which OS errors of accept(2) are per-connection (e.g. ECONNABORTED) is not decided: their provenance is the listener and they pass C09.1"],
    "undecided": "OS-level accept errors that concern a single connection; handler panics inside hyper tasks",
    "level_text": "static necessary conditions (error provenance by slicing, who-is-polled-inline, reachability of handshake and panic sites from the accept path)",
}

LISTENER_POLLS = re.compile(r"::(poll_accept|poll_recv|poll_next)$")


def accept_impls(facts):
    out = []
    for f in facts.fns.values():
        d = f.d
        if d.get("name") == "poll_accept" and (d.get("impl_trait") or "").split("::")[-1] == "Accept":
            out.append(f)
    return out


def closure_tree(facts, f):
    out = []
    work = [f]
    while work:
        g = work.pop()
        for (_, _, _, k) in g.closures_created():
            if k in facts.fns and facts.fns[k] not in out:
                out.append(facts.fns[k])
                work.append(facts.fns[k])
    return out


def _flows_to_return(f, local):
    """Forward slice over moves / copies / wrapping aggregates / conversion calls: can the value built in `local` reach the
    return place?  Reading the *success* payload out of a value (`(x as Ok).0`, `(x as Continue).0`) is not a flow of an Err
    built there (a spliced fallible helper whose failure the caller replaces by a default does not return that failure)."""
    from mir import op_place
    edges = {}

    def add(src_place, dst_local):
        if src_place is None:
            return
        if any(isinstance(e, dict) and e.get("d") in ("Ok", "Continue") for e in src_place["p"]):
            return
        edges.setdefault(src_place["l"], set()).add(dst_local)
    for b in sorted(f.live):
        for s_ in f.stmts(b):
            if s_["k"] != "assign":
                continue
            r = s_["r"]
            ops = []
            if r["k"] in ("use", "cast"):
                ops = [r["o"]]
            elif r["k"] == "agg":
                ops = r.get("ops", [])
            elif r["k"] == "ref":
                add(r["p"], s_["p"]["l"])
            for o in ops:
                add(op_place(o), s_["p"]["l"])
        t = f.term(b)
        if t.get("k") == "call" and re.search(r"from_residual$|::from$|::into$|Try.*::branch$|map_err$|Poll.*::map", norm(t.get("decl") or t.get("res") or "")):
            for a in t.get("args", []):
                add(op_place(a), t["dest"]["l"])
    seen, work = set(), [local]
    while work:
        l = work.pop()
        if l in seen:
            continue
        seen.add(l)
        work.extend(edges.get(l, ()))
    return 0 in seen


def err_sources(f):
    """(block, operand, how) for every Err value that can flow to the return place of f."""
    out = []
    for (b, i, s) in f.aggregates("Result", "Err"):
        if not _flows_to_return(f, s["p"]["l"]):
            continue
        out.append((b, s["r"]["ops"][0], "Err(..)"))
    for c in f.calls():
        if norm(c.decl or c.name).endswith("FromResidual::from_residual"):
            if not c.t["dest"]["p"] and not _flows_to_return(f, c.t["dest"]["l"]):
                continue    # the `?` of a spliced fallible helper whose failure the caller handles
            out.append((c.bb, c.args[0], "`?`"))
    return out


def C09_1(ctx, facts):
    impls = [facts.unit(g) for g in accept_impls(facts)]
    extra = [facts.unit(facts.method("stream::duplex::DuplexIncoming", "Stream", "poll_next"))]
    want = 6 if ctx.cur_config in ("tls", "mocks", "aws") else 5
    ctx.floor("Accept-impls", len(impls), want, "impls of Accept::poll_accept")
    for f in impls + extra:
        ctx.touched(f)
        label = norm(f.d["impl_self"]).split("::")[-1] + "::" + f.d["name"]
        lp = [c for c in f.calls() if LISTENER_POLLS.search(norm(c.decl or c.name))]
        ctx.check(bool(lp), "%s|listener-poll" % label, "polls its listener (%s)" % [norm(c.name).split("::")[-1] for c in lp], "no listener poll found", f.where())
        lbb = {c.bb for c in lp}
        n = 0
        for (b, o, how) in err_sources(f):
            n += 1
            rr = f.roots(o, through_calls=True)
            derived = [r for r in rr if r.kind == "call" and r.site.bb not in lbb and not is_transparent(r.site)
                       and not re.search(r"Try.*::branch$|::from$|::into$|ops::Try|convert::", norm(r.site.name))
                       and any(any(x.kind == "call" and x.site.bb in lbb for x in f.roots(a, through_calls=True)) for a in r.site.args)]
            ctx.check(not derived, "%s|err-provenance" % label,
                      "an %s returned from accept derives only from the listener's own poll" % how,
                      "an %s returned from accept derives from the accepted item via %s: one client's fault ends the accept loop" % (how, [norm(r.site.name) for r in derived]),
                      f.where(b))
        for g in closure_tree(facts, f):
            es = err_sources(g)
            # closures are applied to the accepted item / the poll result; building a *new* error there is item-derived
            fresh = []
            for (b, o, how) in es:
                rr = g.roots(o, through_calls=True)
                if any(r.kind == "call" and not is_transparent(r.site) and not re.search(r"Try.*::branch$", norm(r.site.name)) for r in rr) or how == "`?`":
                    fresh.append((b, how))
            ctx.check(not fresh, "%s|closure-no-new-error" % label, "closures applied to the accepted item build no error of their own",
                      "a closure applied to the accepted item can produce an error (%s): one client's fault ends the accept loop" % [h for (_, h) in fresh],
                      g.where(fresh[0][0]) if fresh else None)
        pool2.waker_rule(ctx, f, label)


def C09_2(ctx, facts):
    po = facts.unit(facts.fn("server::Serving::poll_once"))
    ctx.touched(po)
    allowed = re.compile(r"MakeServiceRef::poll_ready_ref$|Accept::poll_accept$|Future::poll$")
    n = 0
    for (b, o, how) in err_sources(po):
        n += 1
        rr = po.roots(o, through_calls=True)
        src = [r for r in rr if r.kind == "call" and allowed.search(norm(r.site.decl or r.site.name))]
        bad = [r for r in rr if r.kind == "call" and re.search(r"serve_connection|HasConnectionInfo::info|instrument$", norm(r.site.name))]
        ctx.check(bool(src) and not bad, "Serving::poll_once|err-source", "an error of the accept step comes from poll_ready_ref / poll_accept / the make-service future",
                  "accept step error derives from %s" % sorted({norm(r.site.name) for r in rr if r.kind == "call"}), po.where(b))
    ctx.floor("Serving::poll_once|err-sites", n, 3, "error returns in poll_once")
    for key in (("server::Serving", "Future", "poll"), ("server::GracefulShutdown", "Future", "poll")):
        f = facts.unit(facts.method(*key), expand=True)
        ctx.touched(f)
        es = err_sources(f)
        ctx.floor("%s|err-sites" % key[0].split("::")[-1], len(es), 1, "error returns")
        for (b, o, how) in es:
            rr = f.roots(o, through_calls=False)
            ok = any(r.kind == "call" and r.site.is_("server::Serving::poll_once") for r in rr) and \
                not any(r.kind == "call" and not r.site.is_("server::Serving::poll_once") and not is_transparent(r.site) for r in rr)
            ctx.check(ok, "%s::poll|err-only-from-accept-step" % key[0].split("::")[-1], "the serving future ends with an error only when the accept step reported one",
                      "serving future error roots %s" % sorted(map(repr, sig(rr))), f.where(b))


def C09_3(ctx, facts):
    ims = [im for im in facts.impls_of("Future", "server::conn::drivers::ConnectionDriver")]
    out = None
    for im in ims:
        for it in im["items"]:
            if it["name"] == "Output":
                out = it.get("ty")
    ctx.check(out == "()", "ConnectionDriver|Output-unit", "<ConnectionDriver as Future>::Output = (): a connection's error cannot travel to the server", "ConnectionDriver::Output is %s" % out)
    f = facts.unit(facts.method("server::conn::drivers::ConnectionDriver", "Future", "poll"), expand=True)
    ctx.touched(f)
    readys = [b for (b, i, s) in f.aggregates("Poll", "Ready")]
    polls = [c for c in f.calls() if norm(c.decl or c.name).endswith("::poll")]
    ctx.floor("ConnectionDriver::poll|conn-poll", len(polls), 1, "poll of the connection")

    from core import L_poll
    es = f.edges_where(L_poll(f, True, {c.bb for c in polls}))
    ctx.floor("ConnectionDriver::poll|ready-edge", len(es), 1, "Ready edge of the connection poll")
    for (a, b) in es:
        p_ = f.path(b, f.returns, avoid_blocks=set(readys))
        ctx.check(p_ is None, "ConnectionDriver::poll|ready-completes", "once the connection resolved - Ok or Err alike - the driver completes with Ready(()) (the error goes to the log, not to the server)",
                  "after the connection resolved the driver can return without completing", f.where(a), f.path_desc(p_))
    # and nothing but () can come out: no path on which the connection's error value reaches the return place
    for (k, bb, x) in assigns_to_return(f, f.live):
        rr = f.roots(x["r"]["ops"][0], through_calls=False) if k == "stmt" and x["r"]["k"] == "agg" and x["r"].get("ops") else set()
        ctx.check(not any(r.kind == "call" and r.site.bb in {c.bb for c in polls} for r in rr), "ConnectionDriver::poll|error-not-returned",
                  "the value returned does not carry the connection's result", "the connection's result is returned to the caller", f.where(bb))
    pool2.waker_rule(ctx, f, "ConnectionDriver::poll")
    gim = [im for im in facts.impls_of("Future", "server::conn::drivers::GracefulConnectionDriver")]
    out = None
    for im in gim:
        for it in im["items"]:
            if it["name"] == "Output":
                out = it.get("ty")
    ctx.check(out == "()", "GracefulConnectionDriver|Output-unit", "<GracefulConnectionDriver as Future>::Output = ()", "GracefulConnectionDriver::Output is %s" % out)


def C09_4(ctx, facts):
    po = facts.unit(facts.fn("server::Serving::poll_once"))
    serve = [c for c in po.calls() if norm(c.decl or c.name).endswith("serve_connection_with_upgrades")]
    ctx.floor("Serving::poll_once|serve", len(serve), 1, "serve_connection_with_upgrades in poll_once")
    for f, nm in ((po, "poll_once"), (facts.unit(facts.method("server::Serving", "Future", "poll")), "Serving::poll"), (facts.unit(facts.method("server::GracefulShutdown", "Future", "poll")), "GracefulShutdown::poll")):
        bad = []
        for c in f.calls():
            if not norm(c.decl or c.name).endswith("::poll"):
                continue
            ty = (c.t.get("argtys") or [""])[0]
            rr = f.roots(c.args[0], through_calls=True)
            if "Protocol<" in ty and "Connection" in ty or "Instrumented<" in ty or any(r.kind == "call" and "serve_connection" in norm(r.site.name) for r in rr):
                bad.append(c)
        ctx.check(not bad, "%s|no-inline-poll" % nm, "the accept loop never polls a connection itself", "a connection is polled inline by the accept loop", bad[0].where() if bad else None)
    sp = facts.unit(facts.method("server::Serving", "Future", "poll"))
    ctx.touched(sp)
    execs = [c for c in sp.calls() if norm(c.decl or c.name).endswith("Executor::execute")]
    news = sp.calls("server::conn::drivers::ConnectionDriver::new")
    ctx.floor("Serving::poll|execute", len(execs), 1, "executor.execute in Serving::poll")
    for c in execs:
        rr = sp.roots(c.args[1], through_calls=True)
        ok = any(r.kind == "call" and r.site.is_("server::conn::drivers::ConnectionDriver::new") for r in rr) and \
            any(r.kind == "call" and r.site.is_("server::Serving::poll_once") for r in rr)
        ctx.check(ok, "Serving::poll|spawns-accepted", "the accepted connection is wrapped in a ConnectionDriver and handed to the executor",
                  "execute() argument roots %s" % sorted(map(repr, sig(rr))), c.where())
    # poll_once returns the connection (it does not keep or poll it)
    rets = po.roots({"l": 0, "p": []}, through_calls=True)
    ctx.check(any(r.kind == "call" and "serve_connection_with_upgrades" in norm(r.site.name) for r in rets), "Serving::poll_once|returns-connection",
              "poll_once returns the freshly built connection to its caller", "poll_once does not return the connection")


def C09_5(ctx, facts):
    impls = accept_impls(facts)
    entries = [f.key for f in impls]
    cg = facts.callgraph()
    # resolved local edges + closures only; CHA restricted to Accept::poll_accept (inner acceptors)
    seen = set(entries)
    work = list(entries)
    while work:
        k = work.pop()
        for s in cg.get(k, ()):
            g = facts.fns[s]
            if g.d.get("name") == "poll" and (g.d.get("impl_trait") or "").split("::")[-1] == "Future":
                # reached only through CHA on an unresolved Future::poll: judge by receiver type at the call sites instead
                continue
            if s not in seen:
                seen.add(s)
                work.append(s)
    bad = []
    for k in seen:
        g = facts.fns[k]
        for c in g.calls():
            n = norm(c.decl or c.name)
            ty = " ".join(c.t.get("argtys") or [])
            if re.search(r"(^|::)(handshake|poll_handshake)$", n):
                bad.append((g, c, "calls %s" % n))
            if n.endswith("::poll") and ("tokio_rustls::Accept<" in ty or "tokio_rustls::server::TlsStream<" in ty or "TlsStream<" in ty):
                bad.append((g, c, "polls %s" % ty[:60]))
            if re.search(r"LazyConfigAcceptor|::poll_(read|write|peek|read_ready|write_ready)$|::try_(read|write)$", n) and "poll_accept" in g.nkey:
                bad.append((g, c, "does I/O on the accepted stream: %s" % n))
    ctx.check(not bad, "accept-path|no-handshake", "no TLS handshake / stream I/O is reachable from any poll_accept (%d functions examined)" % len(seen),
              "the accept path performs a handshake: %s" % [(g.nkey, why) for (g, c, why) in bad[:3]], bad[0][1].where() if bad else None)
    if ctx.cur_config in ("tls", "mocks", "aws"):
        ta = facts.unit(facts.method("server::conn::tls::acceptor::TlsAcceptor", "Accept", "poll_accept"), expand=True)
        acc = [c for c in ta.calls() if norm(c.name).endswith("TlsAcceptor::accept")]
        ctx.check(len(acc) == 1, "TlsAcceptor::poll_accept|lazy", "TlsAcceptor::poll_accept only creates the tokio_rustls Accept future and returns it unpolled inside TlsStream",
                  "TlsAcceptor::poll_accept does not create exactly one Accept future")
        import fwd
        hs = fwd.lazy_handshake_fn(facts, "server::conn::tls::TlsStream")
        polls = [c for c in hs.calls() if norm(c.decl or c.name).endswith("::poll") and "tokio_rustls::Accept<" in " ".join(c.t.get("argtys") or [])]
        ctx.check(len(polls) >= 1, "TlsStream::handshake|drives-accept", "the handshake is driven from TlsStream::handshake (inside the connection task)",
                  "TlsStream::handshake does not poll the Accept future")
        callers = {c.fn.nkey for c in facts.call_sites_of(hs.nkey)}
        ctx.check(all("poll_accept" not in k for k in callers) and callers, "TlsStream::handshake|callers", "handshake is called from the stream's read/write/flush paths only (%d callers)" % len(callers),
                  "handshake called from %s" % sorted(callers))


ACCEPT_TABLE = {
    r"^server::Serving::poll_once\|panic\|panic_fmt": ("guarded", "unreachable!(\"state must still be accepting\"): project_replace is applied to the state that the enclosing match arm just proved to be Making",
                                                       lambda facts, s: _guard_making(facts, s)),
    r"^<stream::tcp::TcpStream as info::HasConnectionInfo>::info\|result-unwrap\|expect\|local_addr is available for stream\|<=TcpStream::local_addr$": ("by-construction", "getsockname(2) on a valid connected/accepted socket fd does not fail because of the peer"),
    r"^<stream::tcp::TcpStream as info::HasConnectionInfo>::info\|result-unwrap\|expect\|peer_addr is available for stream\|<=TcpStream::peer_addr$": ("guarded", "server-side streams carry the remote address given by accept(): peer_addr() is only consulted when `remote` is None",
                                                                                                     lambda facts, s: _guard_remote_none(facts, s)),
    r"^<stream::unix::UnixStream as info::HasConnectionInfo>::info\|result-unwrap\|expect\|peer_addr is available for unix stream\|<=UnixStream::peer_addr$": ("guarded", "accepted unix streams are built with remote = Some(..) and UnixStream::peer_addr answers Ok(stored) whenever remote is Some: the fallible socket lookup / conversion is confined to remote == None",
                                                                                                                                                                  lambda facts, s: _guard_unix_remote_some(facts, s)),
    r"^<stream::unix::UnixStream as info::HasConnectionInfo>::info\|result-unwrap\|expect\|local_addr is available for unix stream\|<=UnixStream::local_addr$": ("by-construction", "the local address is the listener's own path: a listener-level condition, not a per-connection one"),
    r"^<server::conn::tls::info::TlsConnectionInfoReciever.*\|": ("by-construction", "receiver state of the TLS info channel"),
    r"^polled_span\|option-unwrap\|expect\|Missing ID; this is a bug\|<=Span::id$": ("by-construction", "tracing span bookkeeping, independent of connection data"),
    r"^<server::conn::auto::ReadVersion as futures_core::Future>::poll\|slice-index\|index": ("guarded", "indices are len_before <= filled().len() <= 24 = HTTP2_PREFIX.len(): the loop runs only while filled().len() < HTTP2_PREFIX.len() and ReadBuf never exceeds its 24-byte capacity (extent agreement is checked by C08.2)"),
    r"^<rewind::Rewind as hyper::rt::Read>::poll_read\|(slice-index|bytes-range)": ("guarded", "n = min(prefix.len(), remaining): checked by C08.5"),
    r"^<rewind::Rewind as hyper::rt::Read>::poll_read\|(panic|assert)": ("guarded", "assert!(remaining >= slice.len()) with slice.len() = n <= remaining (C08.5)"),
    r"^<bridge::io::TokioIo as tokio::io::AsyncRead>::poll_read\|assert-Overflow": ("by-construction", "filled + sub_filled <= capacity of the caller's buffer (both are lengths within one allocation)"),
    r"^<server::conn::tls::TlsStream as info::HasConnectionInfo>::info\|option-unwrap\|expect\|connection info available without tls handshake\|<=Option::map$": ("by-construction", "info() on a server TlsStream is taken when the stream is accepted / when its service is made (poll_once, Stream::new, make_service_ref(&stream)), i.e. before the stream is first polled: tokio_rustls::Accept::get_ref() is Some until the handshake future has completed"),
    r"^server::conn::tls::.*\|option-unwrap\|": ("by-construction", "TLS stream state machine (handshake state), not peer data"),
}


def _guard_making(facts, s):
    f = s.fn
    ok, w = f.guarded(s.bb, lambda lab: lab.kind == "variant" and lab.variants == {"Making"} and (lab.adt or "").endswith("StateProj"))
    return ok, "the unreachable! is no longer inside the Making arm"


def _guard_remote_none(facts, s):
    f = s.fn
    ok, w = f.guarded(s.bb, lambda lab: lab.kind == "variant" and lab.variants == {"None"})
    return ok, "peer_addr().expect is no longer confined to the remote == None arm"


def _guard_unix_remote_some(facts, s):
    """(a) every UnixStream::new on the accept path passes a definite Some(..) as the remote address;
    (b) in UnixStream::peer_addr every fallible step (any call but Clone) sits behind remote == None."""
    from core import L_opt
    accept = [g for g in accept_impls(facts) if "UnixListener" in g.nkey]
    fam = {g.key for a in accept for g in facts.family(a, depth=4)}
    news = [c for c in facts.call_sites_of("stream::unix::UnixStream::new") if c.fn.key in fam or "UnixListener" in c.fn.nkey]
    if not news:
        return False, "no UnixStream::new site on the unix accept path"
    for c in news:
        pl = op_place(c.args[1])
        d = c.fn.unique_def(pl["l"]) if pl is not None and not pl["p"] else None
        hops = 0
        while d is not None and d[0] == "stmt" and d[3]["r"]["k"] == "use" and hops < 6:
            q = op_place(d[3]["r"]["o"])
            d = c.fn.unique_def(q["l"]) if q is not None and not q["p"] else None
            hops += 1
        if not (d is not None and d[0] == "stmt" and d[3]["r"]["k"] == "agg" and d[3]["r"].get("v") == "Some"):
            return False, "the unix acceptor can build a stream without a stored remote address (remote is not a literal Some(..)): info() would fall back to a socket lookup that fails for a non-UTF-8 peer path"
    pa = facts.unit(facts.fn("stream::unix::UnixStream::peer_addr"))
    rem = lambda rr: any(r.kind == "arg" and r.desc.endswith("remote") for r in rr)
    for c in pa.calls():
        if c.matches(r"Clone.*::clone$"):
            continue
        ok, w = pa.guarded(c.bb, L_opt(pa, False, rem))
        if not ok:
            return False, "UnixStream::peer_addr performs a fallible step (%s) although the remote address is stored" % norm(c.name)
    return True, ""


def accept_entries(facts):
    keys = [f.key for f in accept_impls(facts)]
    for k in (("server::Serving", "Future", "poll"), ("server::GracefulShutdown", "Future", "poll"), ("server::conn::drivers::ConnectionDriver", "Future", "poll"),
              ("server::conn::drivers::GracefulConnectionDriver", "Future", "poll"), ("stream::duplex::DuplexIncoming", "Stream", "poll_next")):
        keys.append(facts.method(*k).key)
    keys.append(facts.unit(facts.fn("server::Serving::poll_once")).key)
    return keys


def C09_6(ctx, facts):
    def scope(fn):
        # server-side code and the shared stream / bridge layers
        return not fn.nkey.startswith(("client::", "<client::", "service::", "<service::", "happy_eyeballs"))
    st = panics.run(ctx, facts, accept_entries(facts), ACCEPT_TABLE, "accept-path", min_sites=3, scope=scope)
    ctx.assume("E-PANIC accept path (%s): %s" % (ctx.cur_config, st))


def C09_7(ctx, facts):
    """Truncated protocol bytes: a connection that sends part of the HTTP/2 preface and closes must not leave a task spinning."""
    import c08
    c08.sniff_loop_progress(ctx, facts)


RULES = [
    ("C09.1", C09_1, ["default", "tls"]),
    ("C09.2", C09_2, ["default"]),
    ("C09.3", C09_3, ["default"]),
    ("C09.4", C09_4, ["default"]),
    ("C09.5", C09_5, ["default", "tls"]),
    ("C09.6", C09_6, ["default", "tls"]),
    ("C09.7", C09_7, ["default"]),
]
