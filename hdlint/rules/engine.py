"""hdlint engine: fact extraction (cached per source-tree hash), rule running, known findings,
replay files, evidence.  See DESIGN.md sections 2, 7, 8."""
import fcntl
import hashlib
import importlib
import json
import os
import subprocess
import sys
import time
import traceback

HERE = os.path.dirname(os.path.abspath(__file__))
VERIF = os.path.dirname(os.path.dirname(HERE))
sys.path.insert(0, HERE)

import core  # noqa: E402
import mir  # noqa: E402

CACHE = os.environ.get("HDLINT_CACHE", os.path.join(VERIF, ".cache"))
DRIVER_DIR = os.path.join(VERIF, "hdlint", "driver")
DRIVER_BIN = os.path.join(CACHE, "driver-target", "release", "mirfacts")

CONFIGS = {
    "default": [],
    "tls": ["--features", "tls,tls-ring,sni"],
    "mocks": ["--features", "mocks,tls,tls-ring,sni"],
    "client-only": ["--no-default-features", "--features", "client"],
    "server-only": ["--no-default-features", "--features", "server,stream"],
    "aws": ["--features", "tls,tls-aws-lc"],
}

PROPS = ["C%02d" % i for i in range(1, 21)]


def repo_dir():
    return os.environ.get("HDLINT_REPO", "/repo")


def out_dir():
    """Evidence and replay files describe /repo; a run against another tree (HDLINT_REPO, used by the seeded-change
    and refactoring harnesses only) writes them to a scratch directory so that committed evidence stays about /repo."""
    if os.path.realpath(repo_dir()) == "/repo":
        return VERIF
    d = os.environ.get("HDLINT_OUT_DIR") or os.path.join("/var/tmp", "hdlint-out-%d" % os.getuid())
    os.makedirs(d, exist_ok=True)
    return d


def sysroot():
    return subprocess.check_output(["rustc", "+nightly", "--print", "sysroot"], text=True).strip()


def build_driver(force=False):
    src = os.path.join(DRIVER_DIR, "src", "main.rs")
    if not force and os.path.exists(DRIVER_BIN) and os.path.getmtime(DRIVER_BIN) >= os.path.getmtime(src):
        return
    os.makedirs(CACHE, exist_ok=True)
    with open(os.path.join(CACHE, "driver.lock"), "w") as lk:
        fcntl.flock(lk, fcntl.LOCK_EX)
        if not force and os.path.exists(DRIVER_BIN) and os.path.getmtime(DRIVER_BIN) >= os.path.getmtime(src):
            return
        env = dict(os.environ)
        env["CARGO_TARGET_DIR"] = os.path.join(CACHE, "driver-target")
        env["CARGO_NET_OFFLINE"] = "true"
        r = subprocess.run(["cargo", "build", "--offline", "--release"], cwd=DRIVER_DIR, env=env,
                           stdout=subprocess.PIPE, stderr=subprocess.STDOUT, text=True)
        if r.returncode != 0:
            sys.stderr.write(r.stdout)
            raise SystemExit(2)


def tree_hash(repo):
    h = hashlib.sha256()
    files = []
    for root, dirs, fs in os.walk(os.path.join(repo, "src")):
        dirs.sort()
        for f in sorted(fs):
            files.append(os.path.join(root, f))
    for f in ("Cargo.toml", "Cargo.lock", "build.rs"):
        p = os.path.join(repo, f)
        if os.path.exists(p):
            files.append(p)
    for p in files:
        h.update(os.path.relpath(p, repo).encode())
        h.update(b"\0")
        with open(p, "rb") as fh:
            h.update(fh.read())
        h.update(b"\0")
    with open(DRIVER_BIN, "rb") as fh:
        h.update(hashlib.sha256(fh.read()).digest())
    return h.hexdigest()[:24]


class BuildFailed(Exception):
    pass


def extract(config, repo=None, scratch=False):
    """Fact file for `config` of the *current* working tree of repo (cached by content hash)."""
    repo = repo or repo_dir()
    build_driver()
    th = tree_hash(repo)
    facts_dir = os.path.join(CACHE, "facts-scratch" if scratch else "facts")
    os.makedirs(facts_dir, exist_ok=True)
    out = os.path.join(facts_dir, "%s-%s.json" % (config, th))
    if os.path.exists(out):
        return out, True
    lockp = os.path.join(CACHE, "extract-%s.lock" % config)
    with open(lockp, "w") as lk:
        fcntl.flock(lk, fcntl.LOCK_EX)
        if os.path.exists(out):
            return out, True
        target = os.path.join(CACHE, "target-%s" % config)
        # cargo's freshness cache would skip the wrapper: drop the member's fingerprints
        fp = os.path.join(target, "debug", ".fingerprint")
        if os.path.isdir(fp):
            for d in os.listdir(fp):
                if d.startswith("hyperdriver-"):
                    subprocess.run(["rm", "-rf", os.path.join(fp, d)])
        env = dict(os.environ)
        env["LD_LIBRARY_PATH"] = os.path.join(sysroot(), "lib") + ":" + env.get("LD_LIBRARY_PATH", "")
        env["RUSTFLAGS"] = "-Zmir-opt-level=0 -Awarnings"
        env["RUSTC_WORKSPACE_WRAPPER"] = DRIVER_BIN
        env["CARGO_TARGET_DIR"] = target
        env["CARGO_NET_OFFLINE"] = "true"
        tmp = out + ".part.%d" % os.getpid()
        env["HDLINT_OUT"] = tmp
        env["HDLINT_CRATE"] = "hyperdriver"
        cmd = ["cargo", "+nightly", "check", "--offline", "--lib"] + CONFIGS[config]
        r = subprocess.run(cmd, cwd=repo, env=env, stdout=subprocess.PIPE, stderr=subprocess.STDOUT, text=True)
        if r.returncode != 0 or not os.path.exists(tmp):
            if os.path.exists(tmp):
                os.unlink(tmp)
            raise BuildFailed("cargo check failed for config %s:\n%s" % (config, r.stdout[-4000:]))
        os.rename(tmp, out)
        # keep the cache small: remove fact files of other trees for this config (keep newest 6)
        olds = sorted((f for f in os.listdir(facts_dir) if f.startswith(config + "-") and f.endswith(".json")),
                      key=lambda f: os.path.getmtime(os.path.join(facts_dir, f)))
        for f in olds[:-(2 if scratch else 6)]:
            try:
                os.unlink(os.path.join(facts_dir, f))
            except OSError:
                pass
    return out, False


class Ob:
    def __init__(self, rule, key, status, detail, where=None, witness=None, kind=None, config=None):
        self.rule = rule
        self.key = key
        self.status = status  # discharged | violation | anchor-missing | undecided
        self.detail = detail
        self.where = where
        self.witness = witness
        self.kind = kind
        self.config = config

    def fkey(self):
        return "%s|%s" % (self.rule, self.key)

    def as_dict(self):
        d = {"rule": self.rule, "key": self.key, "status": self.status, "detail": self.detail}
        if self.where:
            d["where"] = self.where
        if self.witness:
            d["witness"] = self.witness
        if self.kind:
            d["discharge"] = self.kind
        if self.config:
            d["config"] = self.config
        return d


class Ctx:
    def __init__(self, prop, tier, repo=None, scratch=False):
        self.prop = prop
        self.tier = tier
        self.scratch = scratch
        self.repo = repo or repo_dir()
        self._facts = {}
        self.obs = []
        self.configs_used = []
        self.cur_rule = None
        self.cur_config = None
        self.assumptions = []
        self.stats = {"functions_analysed": set(), "call_sites_examined": 0}
        self.cache_hits = {}

    def facts(self, config="default"):
        if config not in self._facts:
            path, hit = extract(config, self.repo, self.scratch)
            self.cache_hits[config] = hit
            data = mir.load(path)
            stolen = [s for s in data.get("stolen", []) if s.startswith(("Fn:", "AssocFn:", "Closure:"))]
            if stolen:
                raise BuildFailed("driver could not read %d bodies (stolen): %s" % (len(stolen), stolen[:3]))
            self._facts[config] = core.Facts(data, config)
            if config not in self.configs_used:
                self.configs_used.append(config)
        self.cur_config = config
        return self._facts[config]

    # -- recording
    def ok(self, key, detail, where=None, kind=None):
        self.obs.append(Ob(self.cur_rule, key, "discharged", detail, where, None, kind, self.cur_config))
        return True

    def bad(self, key, detail, where=None, witness=None):
        self.obs.append(Ob(self.cur_rule, key, "violation", detail, where, witness, None, self.cur_config))
        return False

    def missing(self, key, detail):
        self.obs.append(Ob(self.cur_rule, key, "anchor-missing", detail, None, None, None, self.cur_config))
        return False

    def undecided(self, key, detail, where=None):
        self.obs.append(Ob(self.cur_rule, key, "undecided", detail, where, None, None, self.cur_config))
        return False

    def check(self, cond, key, detail_ok, detail_bad=None, where=None, witness=None):
        if cond:
            return self.ok(key, detail_ok, where)
        return self.bad(key, detail_bad or ("NOT: " + detail_ok), where, witness)

    def floor(self, key, count, minimum, what):
        """Fail closed when a rule matched fewer instances than were hand-counted."""
        if count >= minimum:
            return self.ok(key, "%s: %d instance(s) (floor %d)" % (what, count, minimum), kind="floor")
        return self.missing(key, "%s: only %d instance(s), floor is %d" % (what, count, minimum))

    def assume(self, text):
        if text not in self.assumptions:
            self.assumptions.append(text)

    def touched(self, fn):
        self.stats["functions_analysed"].add(fn.key)


def load_known(path=None):
    path = path or os.path.join(VERIF, "known_findings.txt")
    findings = {}
    fixed = []
    if os.path.exists(path):
        for line in open(path):
            line = line.strip()
            if not line or line.startswith("#"):
                continue
            if line.startswith("finding:"):
                # finding: property=C03 key=<rule>|<instance> :: text
                body = line[len("finding:"):].strip()
                head, _, text = body.partition(" :: ")
                parts = dict(p.split("=", 1) for p in head.split(" ", 1) if "=" in p)
                prop = parts.get("property")
                key = head.split("key=", 1)[1].strip() if "key=" in head else None
                if prop and key:
                    findings[(prop, key)] = text.strip()
            elif line.startswith("fixed:"):
                fixed.append(line)
    return findings, fixed


def evaluate(prop, tier="quick", repo=None, scratch=False, only_rule=None):
    """Run the rules of a property on a tree; returns the Ctx (obligations inside). Raises BuildFailed."""
    mod = importlib.import_module(prop.lower())
    ctx = Ctx(prop, tier, repo, scratch)
    for rid, fn, configs in mod.RULES:
        if only_rule and rid != only_rule:
            continue
        cfgs = configs.get(tier, configs.get("quick", ["default"])) if isinstance(configs, dict) else list(configs)
        if tier == "thorough" and not isinstance(configs, dict):
            extra = getattr(mod, "META", {}).get("thorough_extra", [])
            tls_only = set(cfgs) <= {"tls", "mocks", "aws"}
            for c in extra:
                if c in cfgs:
                    continue
                if tls_only and c not in ("tls", "mocks", "aws"):
                    continue
                cfgs.append(c)
        for cfg in cfgs:
            ctx.cur_rule = rid
            before = len(ctx.obs)
            try:
                facts = ctx.facts(cfg)
                fn(ctx, facts)
            except BuildFailed:
                raise
            except KeyError as e:
                ctx.missing("anchor", "anchor lookup failed: %s" % (e,))
            except Exception as e:  # rule crashed: fail closed
                tb = traceback.format_exc(limit=6)
                ctx.undecided("rule-crash", "rule raised %s: %s\n%s" % (type(e).__name__, e, tb))
            if len(ctx.obs) == before:
                ctx.missing("vacuous", "rule produced no obligation in config %s" % cfg)
    if tier == "thorough" and hasattr(mod, "THOROUGH_RULES") and not only_rule:
        for rid, fn in mod.THOROUGH_RULES:
            ctx.cur_rule = rid
            ctx.cur_config = None
            try:
                fn(ctx)
            except Exception as e:
                ctx.undecided("rule-crash", "thorough rule raised %s: %s" % (type(e).__name__, e))
    return ctx


def run_property(prop, tier="quick", replay=None, quiet=False):
    t0 = time.time()
    seed = int(os.environ.get("VERIF_SEED", "0") or 0)
    modname = prop.lower()
    try:
        mod = importlib.import_module(modname)
    except ImportError as e:
        print("no rule module for %s: %s" % (prop, e))
        return 2
    meta = mod.META
    try:
        ctx = evaluate(prop, tier, only_rule=(replay or {}).get("rule"))
    except BuildFailed as e:
        sys.stderr.write(str(e) + "\n")
        print("BUILD-FAILED property=%s (nothing can be said about a tree that does not compile)" % prop)
        return 2
    findings, _fixed = load_known()
    bad = [o for o in ctx.obs if o.status != "discharged"]
    known, new = [], []
    seen_keys = set()
    for o in bad:
        k = (prop, o.fkey())
        if o.status == "violation" and k in findings:
            if k not in seen_keys:
                known.append(o)
                seen_keys.add(k)
        else:
            new.append(o)
    wall = time.time() - t0

    # ---- thorough extras
    extra = {}
    if tier == "thorough" and not os.environ.get("HDLINT_NO_SELFTEST"):
        import selftest
        try:
            extra = {"selftest": selftest.run(prop)}
        except Exception as e:
            extra = {"selftest": {"error": "%s: %s" % (type(e).__name__, e)}}
        if hasattr(mod, "thorough"):
            try:
                extra.update(mod.thorough(ctx) or {})
            except Exception as e:
                extra["thorough_error"] = "%s: %s" % (type(e).__name__, e)

    # ---- evidence
    obs_dicts = [o.as_dict() for o in ctx.obs]
    n_ob = len(ctx.obs)
    n_dis = sum(1 for o in ctx.obs if o.status == "discharged")
    rules_run = sorted({o.rule for o in ctx.obs})
    samples = obs_dicts[:60]
    coverage = {
        "obligations": n_ob,
        "discharged": n_dis + len(known) * 0,
        "checker_cmd": "./check %s --tier %s" % (prop, tier),
        "trusted_base": meta.get("trusted_base", []),
        "explanation": meta["explanation"],
        "configs": ctx.configs_used,
        "fact_cache_hit": ctx.cache_hits,
        "functions_analysed": len(ctx.stats["functions_analysed"]),
        "functions_in_crate": {c: len(f.fns) for c, f in ctx._facts.items()},
        "rule_instances": {r: sum(1 for o in ctx.obs if o.rule == r) for r in rules_run},
        "rules": rules_run,
        "samples": samples,
        "all_obligations": obs_dicts,
        "exhaustive": True,
        "evaluations": n_ob,
        "distinct_nontrivial": len({o.fkey() for o in ctx.obs if o.kind != "floor"}),
        "rule": "one evaluation per rule instance (rule id x function / call site / path query); non-trivial = not a floor/count obligation; distinct by rule|instance key",
        "known_findings": [o.as_dict() for o in known],
        "undecided": meta.get("undecided", ""),
    }
    coverage.update(extra)
    ev = {
        "property_id": prop,
        "tier": tier,
        "seed": seed,
        "level": meta["level"],
        "coverage": coverage,
        "assumptions": meta.get("assumptions", []) + ctx.assumptions,
        "wall_s": round(wall, 3),
        "violations": len(new),
    }
    os.makedirs(os.path.join(out_dir(), "evidence"), exist_ok=True)
    evp = os.path.join(out_dir(), "evidence", "%s.json" % prop)
    with open(evp + ".tmp", "w") as fh:
        json.dump(ev, fh, indent=1, sort_keys=False)
    os.replace(evp + ".tmp", evp)

    # ---- report
    if not quiet:
        print("%s tier=%s configs=%s obligations=%d discharged=%d known=%d new=%d wall=%.1fs" % (
            prop, tier, ",".join(ctx.configs_used), n_ob, n_dis, len(known), len(new), wall))
    for o in known:
        print("KNOWN-FINDING: property=%s %s :: %s" % (prop, o.fkey(), findings[(prop, o.fkey())]))
    rc = 0
    if new:
        os.makedirs(os.path.join(out_dir(), "replays"), exist_ok=True)
        for o in new:
            hid = hashlib.sha256((prop + o.fkey() + (o.config or "")).encode()).hexdigest()[:12]
            rp = os.path.join(out_dir(), "replays", "%s-%s.json" % (prop, hid))
            with open(rp, "w") as fh:
                json.dump({"property": prop, "rule": o.rule, "config": o.config, "obligation": o.as_dict()}, fh, indent=1)
            print("  [%s] %s %s: %s%s" % (o.status, o.rule, o.key, o.detail, (" at " + o.where) if o.where else ""))
            if o.witness:
                print("      witness: %s" % o.witness)
            print("VIOLATION property=%s replay=%s" % (prop, rp))
        rc = 1
    return rc


def main(argv):
    if argv and argv[0] == "selftest":
        import selftest
        return selftest.main(argv[1:])
    import argparse
    ap = argparse.ArgumentParser()
    ap.add_argument("prop")
    ap.add_argument("--tier", default=os.environ.get("VERIF_TIER", "quick"))
    ap.add_argument("--replay", default=None)
    ap.add_argument("-v", action="store_true")
    a = ap.parse_args(argv)
    tier = a.tier if a.tier in ("quick", "thorough") else "quick"
    replay = None
    if a.replay:
        replay = json.load(open(a.replay))
    if a.prop == "setup":
        build_driver()
        for cfg in ("default", "tls"):
            extract(cfg)
        print("setup ok")
        return 0
    if a.prop == "selftest":
        import selftest
        return selftest.main(sys.argv[2:])
    if a.prop == "all":
        rc = 0
        for p in PROPS:
            if os.path.exists(os.path.join(HERE, p.lower() + ".py")):
                rc |= run_property(p, tier)
        return rc
    rc = run_property(a.prop, tier, replay)
    if a.v:
        ev = json.load(open(os.path.join(out_dir(), "evidence", "%s.json" % a.prop)))
        for o in ev["coverage"]["all_obligations"]:
            print("  %-12s %-10s %s :: %s" % (o["status"], o["rule"], o["key"], o["detail"][:200]))
    return rc


if __name__ == "__main__":
    sys.exit(main(sys.argv[1:]))
