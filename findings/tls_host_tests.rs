    // ---- demonstration for F6 (C12/C17): URI hosts that are not DNS names.  Appended inside `mod tests` of
    // src/client/conn/transport/tls.rs; run with `cargo test --offline --lib --features tls,tls-ring verif_`.
    #[tokio::test]
    async fn verif_f6_ip_literal_and_odd_hosts_do_not_panic() {
        fixtures::tls_install_default();
        for uri in ["https://[::1]/", "https://ex_am!ple/", "https://127.0.0.1/"] {
            let (client, server) = crate::stream::duplex::pair();
            let transport = crate::client::conn::transport::TlsTransportWrapper::new(
                crate::client::conn::transport::duplex::DuplexTransport::new(1024, client),
                fixtures::tls_client_config().into(),
            );
            let accept = crate::server::conn::Acceptor::new(server)
                .with_tls(fixtures::tls_server_config().into());
            let parts = http::Request::get(uri).body(()).unwrap().into_parts().0;
            let client_side = tokio::spawn(async move { transport.oneshot(parts).await.map(|_| ()) });
            let server_side = tokio::spawn(async move {
                let _ = tokio::time::timeout(std::time::Duration::from_millis(200), accept.accept()).await;
            });
            let joined = client_side.await;
            assert!(
                joined.is_ok(),
                "F6: connecting to {uri} panicked: {:?}",
                joined.err()
            );
            let _ = server_side.await;
        }
    }
