"""Decision tables for the two read bridges of `TokioIo` (C18.1, C18.2): the adapter hands the caller exactly the bytes the
inner reader produced.

Buffers are objects of the abstract state (`filled`, `initialized`); building a buffer over another one's free space links
them; the inner read is a nondeterministic step: Pending, Ready(Err), or Ready(Ok) having filled k bytes and initialised
k' >= k of the sub-buffer (k' > k models readers that zero spare capacity first).  Rule: on Ready(Ok) the caller's
buffer advances by exactly k (and, tokio side, at least k bytes are declared initialised *before* the filled mark moves);
on Pending / Err nothing is advanced and the outcome is returned unchanged; the inner reader is polled once."""
import re

import inline
import seqmodel
from core import AbsPaths, VALUE_EQ, INT_CMP, norm, deref_value, _as_int
from seqmodel import NONE, some, tup, _arg, _deref, _set_dest

OUTER, SUB, LOG = -61, -62, -81


def _log(st, ev):
    l = st.get(LOG) or ("list", ())
    st[LOG] = ("list", l[1] + (("const", ev),))


def _buf(st, key):
    v = st.get(key)
    f = dict(v[2]) if v is not None and v[0] == "variant" else {}
    return _as_int(f.get(0)), _as_int(f.get(1))


def _setbuf(st, key, filled, init, cap=None):
    old = st.get(key)
    if cap is None and old is not None and old[0] == "variant":
        cap = _as_int(dict(old[2]).get(2))
    st[key] = ("variant", "Buf", ((0, ("const", str(filled))), (1, ("const", str(init)))) + (((2, ("const", str(cap))),) if cap is not None else ()))


def _cap(st, key):
    v = st.get(key)
    return _as_int(dict(v[2]).get(2)) if v is not None and v[0] == "variant" else None


def region(a, b):
    return ("refval", ("variant", "Region", ((0, ("const", str(a))), (1, ("const", str(b))))))


def _region(v):
    v = deref_value({}, v) if v is not None and v[0] == "refval" else v
    if v is None or v[0] != "variant" or v[1] != "Region":
        return None
    f = dict(v[2])
    a, b = _as_int(f.get(0)), _as_int(f.get(1))
    return (a, b) if a is not None and b is not None else None


def _common(outer_tag, sub_tag):
    """oracles shared by both directions; `outer_tag` / `sub_tag`: what the handles of the two buffers are called"""
    def which(v):
        v = deref_value({}, v) if v is not None and v[0] == "refval" else v
        if v is not None and v[0] == "const":
            if str(v[1]).startswith(outer_tag):
                return OUTER
            if str(v[1]).startswith(sub_tag):
                return SUB
        return None

    def o_len(ev, st, t, site):
        v = deref_value(st, _arg(ev, st, t, 0))
        if v is None or v[0] != "variant" or v[1] != "Window":
            return False
        return _set_dest(st, t, dict(v[2]).get(0))

    def win(name):
        def f(ev, st, t, site):
            k = which(deref_value(st, _arg(ev, st, t, 0)))
            if k is None:
                return False
            fl, ini = _buf(st, k)
            n = {"filled": fl, "initialized": ini}.get(name)
            if n is None:
                return False
            return _set_dest(st, t, ("refval", ("variant", "Window", ((0, ("const", str(n))),))))
        return f
    return which, o_len, win


def evaluate_hyper_read(facts, f0=0):
    """<TokioIo<T: AsyncRead> as hyper::rt::Read>::poll_read: caller's hyper cursor (OUTER) <- inner tokio reader via a tokio ReadBuf (SUB)."""
    fn = facts.method("bridge::io::TokioIo", "hyper::rt::Read", "poll_read")
    u = inline.inline(facts, fn, 4, lambda ck, raw: "::_::" not in ck, expand=True)
    which, o_len, win = _common("CURSOR", "TBUF")

    def o_as_mut(ev, st, t, site):
        return _set_dest(st, t, ("const", "CURSOR_FREE"))

    def o_uninit(ev, st, t, site):
        v = deref_value(st, _arg(ev, st, t, 0))
        if v != ("const", "CURSOR_FREE"):
            return False
        _setbuf(st, SUB, 0, 0)
        return _set_dest(st, t, ("const", "TBUF"))

    def o_inner(ev, st, t, site):
        b = deref_value(st, _arg(ev, st, t, 2))
        cx = deref_value(st, _arg(ev, st, t, 1))
        if b is None or b[0] != "const" or not str(b[1]).startswith("TBUF"):
            return False
        alts = []
        for name, k, ki in (("Pending", None, None), ("Err", None, None), ("Ok:0", 0, 0), ("Ok:2", 2, 2), ("Ok:2/init5", 2, 5)):
            s2 = dict(st)
            _log(s2, "inner:%s:%s" % (name, cx[1] if cx is not None and cx[0] == "const" else "?"))
            if k is None:
                res = ("variant", "Pending", ()) if name == "Pending" else ("variant", "Ready", ((0, ("variant", "Err", ((0, ("const", "IO_ERROR")),))),))
            else:
                _setbuf(s2, SUB, k, ki)
                res = ("variant", "Ready", ((0, ("variant", "Ok", ((0, tup()),))),))
            s2[t["dest"]["l"]] = res
            alts.append(s2)
        return alts

    def o_advance(ev, st, t, site):
        n = _as_int(deref_value(st, _arg(ev, st, t, 1)))
        _log(st, "advance:%s" % ("?" if n is None else n))
        return _set_dest(st, t, tup())

    def o_project(ev, st, t, site):
        return _set_dest(st, t, ("variant", "__Proj", ((0, ("const", "INNER")),)))
    raw = [(r"ReadBufCursor.*::as_mut$", o_as_mut), (r"tokio::io::ReadBuf.*::uninit$", o_uninit), (r"AsyncRead.*::poll_read$", o_inner),
           (r"ReadBuf.*::filled$", win("filled")), (r"ReadBuf.*::initialized$", win("initialized")), (r"<impl \[T\]>::len$|slice.*::len$", o_len),
           (r"ReadBufCursor.*::advance$", o_advance), (r"::_::<impl .*>::project$", o_project)] + seqmodel.OPTION_ORACLES
    st = {1: ("const", "SELF"), 2: ("const", "CX"), 3: ("const", "CURSOR"), LOG: ("list", ())}
    outs = AbsPaths(u, limit=20000, raw_oracles=raw, oracles=[INT_CMP, VALUE_EQ]).outcomes(state=st, extra_keys=(LOG,))
    return u, {(tuple(e[1] for e in o[2][0][1]), _res(o[0])) for o in outs}


def _res(rv):
    if rv is None:
        return "?"
    if rv[0] == "variant" and rv[1] == "Pending":
        return "Pending"
    if rv[0] == "variant" and rv[1] == "Ready":
        x = dict(rv[2]).get(0)
        if x is not None and x[0] == "variant":
            p = dict(x[2]).get(0)
            return "Ready(%s%s)" % (x[1], "(IO_ERROR)" if p == ("const", "IO_ERROR") else "")
    return "?"


def evaluate_tokio_read(facts, f0):
    """<TokioIo<T: hyper Read> as tokio::io::AsyncRead>::poll_read: caller's tokio ReadBuf (OUTER: f0 bytes already filled,
    capacity f0 + 5) <- inner hyper reader via a hyper ReadBuf (SUB) over a *region* of the caller's storage.  Which region the
    sub-buffer is built over (`unfilled_mut()`, `initialize_unfilled()`, a slice of `initialized_mut()`, ...) is followed, so
    the table also says where the inner reader's bytes land: right behind the bytes already there."""
    fn = facts.method("bridge::io::TokioIo", "tokio::io::AsyncRead", "poll_read")
    u = inline.inline(facts, fn, 4, lambda ck, raw: "::_::" not in ck, expand=True)
    which, o_len0, win = _common("TBUF", "HBUF")
    BASE, LANDED = -63, -64

    def o_len(ev, st, t, site):
        r = _region(deref_value(st, _arg(ev, st, t, 0)))
        if r is not None:
            return _set_dest(st, t, ("const", str(r[1] - r[0])))
        return o_len0(ev, st, t, site)

    def part(name):
        def f(ev, st, t, site):
            k = which(deref_value(st, _arg(ev, st, t, 0)))
            if k is None:
                return False
            fl, ini = _buf(st, k)
            cap = _cap(st, k)
            if k == SUB:
                n = {"filled": fl, "initialized": ini}.get(name)
                return n is not None and _set_dest(st, t, ("refval", ("variant", "Window", ((0, ("const", str(n))),))))
            if fl is None or ini is None or cap is None:
                return False
            if name == "filled":
                return _set_dest(st, t, region(0, fl))
            if name == "initialized":
                return _set_dest(st, t, region(0, ini))
            if name == "unfilled":
                return _set_dest(st, t, region(fl, cap))
            if name == "initialize_unfilled":
                _setbuf(st, k, fl, cap)
                return _set_dest(st, t, region(fl, cap))
            if name == "initialize_unfilled_to":
                n = _as_int(deref_value(st, _arg(ev, st, t, 1)))
                if n is None or fl + n > cap:
                    return False
                _setbuf(st, k, fl, max(ini, fl + n))
                return _set_dest(st, t, region(fl, fl + n))
            if name in ("remaining", "capacity"):
                return _set_dest(st, t, ("const", str(cap - fl if name == "remaining" else cap)))
            return False
        return f

    def o_index(ev, st, t, site):
        w = _region(deref_value(st, _arg(ev, st, t, 0)))
        r = deref_value(st, _arg(ev, st, t, 1))
        if w is None or r is None or r[0] != "variant":
            return False
        f = dict(r[2])
        ln = w[1] - w[0]
        lo, hi = {"RangeTo": (0, _as_int(f.get(0))), "RangeFrom": (_as_int(f.get(0)), ln), "Range": (_as_int(f.get(0)), _as_int(f.get(1))), "RangeFull": (0, ln)}.get(r[1], (None, None))
        if lo is None or hi is None or lo > hi or hi > ln:
            return False
        return _set_dest(st, t, region(w[0] + lo, w[0] + hi))

    def o_subbuf(ev, st, t, site):
        r = _region(deref_value(st, _arg(ev, st, t, 0)))
        if r is None:
            return False
        st[BASE] = ("const", str(r[0]))
        _setbuf(st, SUB, 0, 0, r[1] - r[0])
        return _set_dest(st, t, ("const", "HBUF"))

    def o_unfilled(ev, st, t, site):
        v = deref_value(st, _arg(ev, st, t, 0))
        if v is None or v[0] != "const" or not str(v[1]).startswith("HBUF"):
            return False
        return _set_dest(st, t, ("const", "HBUF_CURSOR"))

    def o_inner(ev, st, t, site):
        b = deref_value(st, _arg(ev, st, t, 2))
        cx = deref_value(st, _arg(ev, st, t, 1))
        base, cap = _as_int(st.get(BASE)), _cap(st, SUB)
        if b != ("const", "HBUF_CURSOR") or base is None or cap is None:
            return False
        alts = []
        for name, k in (("Pending", None), ("Err", None), ("Ok:0", 0), ("Ok:2", 2)):
            if k is not None and k > cap:
                continue
            s2 = dict(st)
            _log(s2, "inner:%s:%s" % (name, cx[1] if cx is not None and cx[0] == "const" else "?"))
            if k is None:
                res = ("variant", "Pending", ()) if name == "Pending" else ("variant", "Ready", ((0, ("variant", "Err", ((0, ("const", "IO_ERROR")),))),))
            else:
                _setbuf(s2, SUB, k, k)
                if k:
                    s2[LANDED] = ("const", "[%d,%d)" % (base, base + k))
                res = ("variant", "Ready", ((0, ("variant", "Ok", ((0, tup()),))),))
            s2[t["dest"]["l"]] = res
            alts.append(s2)
        return alts

    def o_assume_init(ev, st, t, site):
        n = _as_int(deref_value(st, _arg(ev, st, t, 1)))
        fl, ini = _buf(st, OUTER)
        if n is None:
            _log(st, "assume_init:?")
        elif fl + n > _cap(st, OUTER):
            _log(st, "assume_init:%d-beyond-capacity" % (fl + n))
        else:
            _setbuf(st, OUTER, fl, max(ini, fl + n))
        return _set_dest(st, t, tup())

    def o_set_filled(ev, st, t, site):
        n = _as_int(deref_value(st, _arg(ev, st, t, 1)))
        fl, ini = _buf(st, OUTER)
        if n is None:
            _log(st, "set_filled:?")
        elif n > ini:
            _log(st, "set_filled:%d-beyond-initialized:%d" % (n, ini))
        else:
            _setbuf(st, OUTER, n, ini)
        return _set_dest(st, t, tup())

    def o_advance(ev, st, t, site):
        n = _as_int(deref_value(st, _arg(ev, st, t, 1)))
        fl, ini = _buf(st, OUTER)
        if n is None:
            _log(st, "advance:?")
        elif fl + n > ini:
            _log(st, "advance:%d-beyond-initialized:%d" % (fl + n, ini))
        else:
            _setbuf(st, OUTER, fl + n, ini)
        return _set_dest(st, t, tup())

    def o_project(ev, st, t, site):
        return _set_dest(st, t, ("variant", "__Proj", ((0, ("const", "INNER")),)))
    T = r"tokio::io::ReadBuf.*::"
    raw = [(T + r"unfilled_mut$", part("unfilled")), (T + r"initialize_unfilled$", part("initialize_unfilled")), (T + r"initialize_unfilled_to$", part("initialize_unfilled_to")),
           (T + r"(remaining)$", part("remaining")), (T + r"(capacity)$", part("capacity")),
           (r"hyper::rt::(io::)?ReadBuf.*::(uninit|new)$", o_subbuf), (r"hyper::rt::(io::)?ReadBuf.*::unfilled$", o_unfilled),
           (r"hyper::rt::(io::)?Read.*::poll_read$|rt::Read::poll_read$", o_inner),
           (r"ReadBuf.*::filled(_mut)?$", part("filled")), (r"ReadBuf.*::initialized(_mut)?$", part("initialized")), (r"<impl \[.*\]>::len$|slice.*::len$", o_len),
           (r"Index(Mut)?.*::index(_mut)?$", o_index),
           (T + r"assume_init$", o_assume_init), (T + r"set_filled$", o_set_filled), (T + r"advance$", o_advance),
           (r"::_::<impl .*>::project$", o_project)] + seqmodel.OPTION_ORACLES
    st = {1: ("const", "SELF"), 2: ("const", "CX"), 3: ("refval", ("const", "TBUF")), LOG: ("list", ())}
    _setbuf(st, OUTER, f0, f0, f0 + 5)

    def outer(st_):
        return _buf(st_, OUTER)[0]

    def landed(st_):
        v = st_.get(LANDED)
        return v[1] if v is not None else "none"
    outs = AbsPaths(u, limit=20000, raw_oracles=raw, oracles=[INT_CMP, VALUE_EQ]).outcomes(state=st, extra_keys=(LOG, outer, landed))
    return u, {(tuple(e[1] for e in o[2][0][1]), _res(o[0]), o[2][1], o[2][2]) for o in outs}


def hyper_read_table(ctx, facts, label="TokioIo Read"):
    try:
        u, got = evaluate_hyper_read(facts)
    except AbsPaths.Undecided as e:
        return ctx.undecided("%s|table" % label, str(e))
    ctx.touched(u)
    want = {(("inner:Pending:CX",), "Pending"), (("inner:Err:CX",), "Ready(Err(IO_ERROR))"), (("inner:Ok:0:CX", "advance:0"), "Ready(Ok)"),
            (("inner:Ok:2:CX", "advance:2"), "Ready(Ok)"), (("inner:Ok:2/init5:CX", "advance:2"), "Ready(Ok)")}
    extra, lost = sorted(got - want, key=repr), sorted(want - got, key=repr)
    ctx.check(not extra and not lost, "%s|table" % label, "the inner reader is polled once over the caller's cursor; on Ready(Ok) the cursor advances by exactly the bytes filled (not the bytes initialised); Pending and errors are returned unchanged without advancing",
              "the bridge can do %s; it cannot do %s" % (extra[:2], lost[:2]), u.where())


def tokio_read_table(ctx, facts, label="TokioIo AsyncRead"):
    rows = 0
    for f0 in (0, 3):
        key = "%s|table|already-filled=%d" % (label, f0)
        try:
            u, got = evaluate_tokio_read(facts, f0)
        except AbsPaths.Undecided as e:
            ctx.undecided(key, str(e))
            continue
        if rows == 0:
            ctx.touched(u)
        rows += 1
        want = {(("inner:Pending:CX",), "Pending", f0, "none"), (("inner:Err:CX",), "Ready(Err(IO_ERROR))", f0, "none"), (("inner:Ok:0:CX",), "Ready(Ok)", f0, "none"),
                (("inner:Ok:2:CX",), "Ready(Ok)", f0 + 2, "[%d,%d)" % (f0, f0 + 2))}
        extra, lost = sorted(got - want, key=repr), sorted(want - got, key=repr)
        ctx.check(not extra and not lost, key, "the inner reader fills a buffer over the caller's free space (the bytes land right behind those already there); on Ready(Ok) the caller's filled mark moves by exactly the bytes read, after they were declared initialised; Pending and errors are returned unchanged",
                  "the bridge can do %s; it cannot do %s  (events, answer, caller's filled mark, where the new bytes landed)" % (extra[:2], lost[:2]), u.where())
    ctx.floor("%s|table-rows" % label, rows, 2, "scenarios evaluated")
