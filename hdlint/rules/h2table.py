"""Decision table for `check_http2_request` (C13.4, claimed by C17.ext): what leaves the client on an HTTP/2 connection.

The function - helpers spliced in, iterator adaptors and closures given their meaning by seqmodel.py, the `CONNECTION_HEADERS`
table read from its own initialiser - is evaluated abstractly for connection version x method x set of headers present.
The request's version is a cell, its header map a set in the abstract state (`remove(name)` answers Some iff present and
takes the name out).  Rule: on HTTP/2 a CONNECT request is refused; any other request comes out Ok, stamped HTTP/2, with
*every* connection-specific header and Host gone and every other header kept; on another connection nothing is touched."""
import re

import inline
import seqmodel
from core import AbsPaths, VALUE_EQ, INT_CMP, norm, http_version, version_name, VERSION_CMP
from seqmodel import NONE, some, tup, _arg, _deref, _set_dest

FN = "service::http::http2::check_http2_request"
FORBIDDEN = ("connection", "proxy-connection", "keep-alive", "transfer-encoding", "upgrade", "host")
CELL, PRESENT, LOG = -50, -80, -81


def canon(v):
    if v is None or v[0] != "const" or not isinstance(v[1], str):
        return None
    x = v[1]
    if x.startswith("hdr:"):
        return x[4:]
    m = re.search(r"header::([A-Z0-9_]+)$", x)
    return m.group(1).lower().replace("_", "-") if m else None


def evaluate(facts, version, method, present, reqv="HTTP_11"):
    fn = facts.fn(FN)
    OPAQUE = r"ExecuteRequest.*::(connection|request|request_mut|parts|parts_mut)$|Connection.*::version$"
    if not hasattr(facts, "_h2_unit"):
        pats = [re.compile(p) for p, _ in seqmodel.RAW_ORACLES]
        facts._h2_unit = inline.inline(facts, fn, 4, lambda ck, raw: "::_::" not in ck and not re.search(OPAQUE, norm(ck)) and not any(rx.search(norm(ck)) for rx in pats), expand=True)
    u = facts._h2_unit

    def const(name):
        def f(ev, st, t, site):
            return _set_dest(st, t, ("const", name))
        return f

    def o_version_mut(ev, st, t, site):
        st[t["dest"]["l"]] = ("cellref", CELL)
        return True

    def o_version_get(ev, st, t, site):
        return _set_dest(st, t, st.get(CELL))

    def o_from_static(ev, st, t, site):
        a = _deref(st, _arg(ev, st, t, 0))
        if a is None or a[0] != "const":
            return False
        return _set_dest(st, t, ("const", "hdr:" + str(a[1]).strip('"').lower()))

    def o_remove(ev, st, t, site):
        name = canon(_deref(st, _arg(ev, st, t, 1)))
        if name is None:
            return False
        cur = st.get(PRESENT) or ("list", ())
        names = [e[1] for e in cur[1]]
        lg = st.get(LOG) or ("list", ())
        st[LOG] = ("list", lg[1] + (("const", name),))
        if name in names:
            st[PRESENT] = ("list", tuple(e for e in cur[1] if e[1] != name))
            return _set_dest(st, t, some(("const", "VALUE_OF_" + name)))
        return _set_dest(st, t, NONE)

    def o_contains(ev, st, t, site):
        name = canon(_deref(st, _arg(ev, st, t, 1)))
        if name is None:
            return False
        cur = st.get(PRESENT) or ("list", ())
        return _set_dest(st, t, ("const", "true" if name in [e[1] for e in cur[1]] else "false"))
    raw = [(r"ExecuteRequest.*::connection$", const("CONN")), (r"Connection.*::version$", lambda ev, st, t, site: _set_dest(st, t, http_version(version))), VERSION_CMP,
           (r"ExecuteRequest.*::(request|request_mut)$", const("REQ")), (r"Request.*::method$", const("http::Method::" + method)),
           (r"Request.*::version_mut$", o_version_mut), (r"Request.*::version$", o_version_get),
           (r"Request.*::(headers|headers_mut)$", const("HEADERS")), (r"HeaderName::from_static$", o_from_static),
           (r"HeaderMap.*::remove$", o_remove), (r"HeaderMap.*::contains_key$", o_contains)] + seqmodel.RAW_ORACLES
    st = {1: ("const", "EXECUTE_REQUEST"), CELL: http_version(reqv), PRESENT: ("list", tuple(("const", n) for n in present)), LOG: ("list", ())}
    outs = AbsPaths(u, limit=20000, raw_oracles=raw, oracles=[VALUE_EQ, INT_CMP]).outcomes(state=st, extra_keys=(CELL, PRESENT, LOG))
    res = set()
    for (rv, _, (cell, left, log)) in outs:
        kind = rv[1] if rv is not None and rv[0] == "variant" else "?"
        if kind == "Err":
            e = dict(rv[2]).get(0)
            kind = "Err(%s)" % (e[1] if e is not None and e[0] == "variant" else "?")
        res.add((kind, ("http::Version::" + version_name(cell)) if version_name(cell) else "?", tuple(sorted(e[1] for e in left[1])) if left is not None else None))
    return u, res


SCENARIOS = [(), FORBIDDEN + ("content-type",), ("connection", "host", "content-type"), ("keep-alive",), ("host",), ("upgrade", "transfer-encoding", "accept")]


def table(ctx, facts, label="check_http2_request"):
    rows = 0
    for version in ("HTTP_2", "HTTP_11"):
        for method in ("GET", "CONNECT"):
            for reqv in ("HTTP_11", "HTTP_2"):
                for present in SCENARIOS:
                    key = "%s|h2-table|%s|%s|request-version=%s|present=%s" % (label, version, method, reqv, ",".join(present) or "-")
                    try:
                        u, got = evaluate(facts, version, method, present, reqv)
                    except AbsPaths.Undecided as e:
                        ctx.undecided(key, str(e))
                        continue
                    if rows == 0:
                        ctx.touched(u)
                    rows += 1
                    if version != "HTTP_2":
                        want = {("Ok", "http::Version::" + reqv, tuple(sorted(present)))}
                        good = "on an HTTP/1 connection the request is passed on untouched"
                    elif method == "CONNECT":
                        want = None
                        good = "CONNECT is refused on an HTTP/2 connection"
                    else:
                        want = {("Ok", "http::Version::HTTP_2", tuple(sorted(n for n in present if n not in FORBIDDEN)))}
                        good = "the request leaves stamped HTTP/2 with every connection-specific header and Host removed, other headers kept"
                    if want is None:
                        ok = bool(got) and all(k == "Err(InvalidMethod)" for (k, _, _) in got)
                    else:
                        ok = got == want
                    ctx.check(ok, key, "%s connection, %s, request written as %s, headers {%s}: %s" % (version, method, reqv, ", ".join(present), good),
                              "%s connection, %s, request written as %s, headers {%s}: the function can answer %s (result, request version, headers left); expected %s"
                              % (version, method, reqv, ", ".join(present), sorted(map(str, got)), "Err(InvalidMethod)" if want is None else sorted(map(str, want))), u.where())
    ctx.floor("%s|h2-table-rows" % label, rows, 48, "scenarios evaluated")
