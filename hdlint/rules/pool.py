"""Pool discipline rules P1..P16 (DESIGN.md 4.4).  Each function records obligations on ctx."""
import re
from core import (AbsPaths, norm, L_call, L_variant, root_has, arms, assigns_to_return, const_of, CallSite,
                  returned_comparison, closure_arg_of, sig)
from mir import place_str, op_place, op_str

VEC = ("alloc::vec::Vec", "std::vec::Vec")
GROW = {"push", "insert", "extend", "append", "extend_from_slice", "resize", "resize_with", "splice",
        "push_within_capacity", "extend_from_within", "insert_mut", "push_mut", "push_back", "push_front"}
SHRINK_OR_READ = {"pop", "clear", "len", "is_empty", "iter", "truncate", "remove", "swap_remove", "drain",
                  "retain", "first", "last", "get", "as_slice", "capacity", "shrink_to_fit", "split_off", "dedup",
                  "pop_back", "pop_front", "back", "front", "iter_mut", "retain_mut", "make_contiguous"}

IDLE_VEC_TY = "Vec<client::pool::idle::Idle<"
IDLE_SEQ_TYS = ("Vec<client::pool::idle::Idle<", "VecDeque<client::pool::idle::Idle<")   # the list may be a Vec or a VecDeque


def _is_idle_vec_ref(ty):
    return ty.startswith("&mut ") and any(x in ty for x in IDLE_SEQ_TYS)


def pushguard_sites(facts):
    """Call sites of IdleConnections::push."""
    return facts.call_sites_of("client::pool::idle::IdleConnections::push")


# ------------------------------------------------------------------ P1

def P1(ctx, facts):
    """Single entrance to the idle list: the Vec<Idle<_>> grows only in IdleConnections::push,
    which is called only from PoolInner::push."""
    idle_push = facts.unit(facts.fn("client::pool::idle::IdleConnections::push"))
    pool_push = facts.unit(facts.fn("client::pool::PoolInner::push"))
    ctx.touched(idle_push)
    n_sites = 0
    n_grow = 0
    for f in facts.fns.values():
        for c in f.calls():
            tys = c.t.get("argtys") or []
            if not tys or not _is_idle_vec_ref(tys[0]):
                continue
            n_sites += 1
            ctx.stats["call_sites_examined"] += 1
            meth = norm(c.name).split("::")[-1]
            key = "%s|%s" % (f.nkey, meth)
            if meth in GROW:
                n_grow += 1
                ctx.check(f.key == idle_push.key, key,
                          "growth of the idle Vec happens in IdleConnections::push",
                          "idle Vec grows (%s) outside IdleConnections::push" % meth, c.where())
            elif meth in SHRINK_OR_READ:
                ctx.ok(key, "non-growing Vec method on the idle list", c.where())
            else:
                ctx.undecided(key, "unmodelled method %s on &mut Vec<Idle<_>>" % norm(c.name), c.where())
    ctx.floor("idle-vec-sites", n_sites, 2, "calls taking &mut Vec<Idle<_>>")
    ctx.floor("idle-vec-growth", n_grow, 1, "growth sites of the idle Vec")
    # no &mut Vec<Idle> escapes into a non-Vec callee, no whole-field assignment
    for f in facts.fns.values():
        for b in f.live:
            for s in f.stmts(b):
                if s["k"] != "assign":
                    continue
                p = s["p"]
                last = p["p"][-1] if p["p"] else None
                if isinstance(last, dict) and "f" in last and any(x in (last.get("t") or "") for x in IDLE_SEQ_TYS) and last.get("t", "").startswith(("std::vec::Vec<", "std::collections::VecDeque<", "alloc::")):
                    ctx.bad("%s|assign-inner" % f.nkey, "idle Vec field assigned outside a constructor", f.where(b))
        for c in f.calls():
            tys = c.t.get("argtys") or []
            for i, t in enumerate(tys):
                if i == 0:
                    continue
                if _is_idle_vec_ref(t):
                    ctx.bad("%s|escape" % f.nkey, "&mut Vec<Idle<_>> passed as non-receiver argument to %s" % norm(c.name), c.where())
    # IdleConnections aggregates start empty
    for f in facts.fns.values():
        for (b, i, s) in f.aggregates("client::pool::idle::IdleConnections"):
            r = s["r"]
            names = r.get("fields") or []
            if "inner" in names:
                o = r["ops"][names.index("inner")]
                rts = f.roots(o, through_calls=False)
                ok = all(x.kind == "call" and x.site.matches(r"(vec::Vec|VecDeque).*::(new|with_capacity)$|Default.*::default$") for x in rts)
                ctx.check(ok, "%s|ctor" % f.nkey, "IdleConnections is constructed with an empty Vec",
                          "IdleConnections constructed from %s" % sorted(map(repr, rts)), f.where(b))
    # who may call IdleConnections::push
    sites = pushguard_sites(facts)
    ctx.floor("idle-push-callers", len(sites), 1, "call sites of IdleConnections::push")
    for c in sites:
        # any method of PoolInner may host the entrance (helper extraction is fine); C15's P6 checks the bound at every site
        import panics
        owners = panics.owner_chain(c.fn)   # a private helper of the idle list itself (e.g. a bounded `try_push`) is judged by its callers
        ctx.check(any(o.startswith("client::pool::PoolInner::") and "{closure" not in o for o in owners), "caller|%s" % c.fn.nkey,
                  "IdleConnections::push is called from a PoolInner method (%s)" % c.fn.nkey.split("::")[-1],
                  "IdleConnections::push called from outside PoolInner: %s" % c.fn.nkey, c.where())
    # Idle::new stamps Instant::now and is the only constructor of Idle
    idle_new = facts.unit(facts.fn("client::pool::idle::Idle::new"))
    aggs = []
    for f in facts.fns.values():
        for (b, i, s) in f.aggregates("client::pool::idle::Idle"):
            aggs.append((f, b, s))
    ctx.floor("idle-ctor", len(aggs), 1, "constructions of Idle")
    for (f, b, s) in aggs:
        ok = f.key == idle_new.key
        if ok:
            r = s["r"]
            o = r["ops"][r["fields"].index("at")]
            rts = f.roots(o)
            ok = any(x.kind == "call" and x.site.is_("std::time::Instant::now") for x in rts)
        ctx.check(ok, "idle-at|%s" % f.nkey, "Idle is built only in Idle::new with at = Instant::now()",
                  "Idle constructed elsewhere or without Instant::now()", f.where(b))


# ------------------------------------------------------------------ P6

def lt_fact(fn, lab):
    """If the edge label establishes `a < b` for integer operands, return (a_operand, b_operand)."""
    if lab.kind != "bool" or lab.value is None:
        return None
    c = lab.cond
    if c.kind != "binop":
        return None
    op, a, b, v = c.op, c.a, c.b, lab.value
    # value already accounts for negation
    if op == "Lt" and v:
        return (a, b)
    if op == "Gt" and v:
        return (b, a)
    if op == "Ge" and not v:
        return (a, b)
    if op == "Le" and not v:
        return (b, a)
    return None


def P6(ctx, facts):
    """The idle-list entrance is guarded by `idle.len() < config.max_idle_per_host`; config is immutable."""
    # the bound itself is a set of rows of the hand-back table (pooltable.py): with the list at its bound the connection is
    # dropped, below it it is parked - wherever the comparison lives (`idle.len() < max`, a bounded `try_push`, ...)
    import pooltable
    pooltable.push_table(ctx, facts)
    # ... and, for every value of the bound (the table samples two): on the fully spliced hand-back, every growth of the idle
    # sequence is dominated by an edge that establishes `idle.len() < max_idle_per_host` - the two operands being the length of
    # that sequence and the configured bound (through whatever helper parameters they travel)
    push_fn = facts.fn(pooltable.PUSH)
    entrances = entrance_fns(facts)
    ctx.floor("idle-entrances", len(entrances), 1, "PoolInner operations through which a connection can become idle")
    grows = []
    for e in entrances:
        ename = e.nkey.replace("client::pool::", "")
        if e.nkey != push_fn.nkey:
            # a second way into the idle list (e.g. an "un-pop" for cancelled checkouts): it is a hand-back like any other and
            # has to behave as one - same table, same bound
            src = facts.fn(e.nkey)
            same_sig = src.argc == push_fn.argc and [norm(x) for x in src.locals[1:src.argc + 1]] == [norm(x) for x in push_fn.locals[1:push_fn.argc + 1]]
            if same_sig:
                pooltable.push_table(ctx, facts, label=ename, fn_name=e.nkey)
            else:
                ctx.undecided("%s|hand-back-table" % ename, "a second entrance to the idle list with a signature of its own: its behaviour is not covered by the hand-back table")
        u_ = pooltable.unit_of(facts, e.nkey)
        g_ = [c for c in u_.calls() if re.search(r"(vec::Vec|VecDeque).*::(push|push_back|push_front|insert)$", norm(c.name)) and "idle::Idle<" in " ".join(c.t.get("argtys") or [])]
        ctx.floor("%s|idle-growth-sites" % ename, len(g_), 1, "growth sites of the idle sequence in this entrance")
        grows += [(u_, c, ename) for c in g_]
    for (u, c, ename) in grows:
        def is_bound(lab, c=c):
            f = lt_fact(u, lab)
            if f is None:
                return False
            a, b = f
            ra, rb = u.roots(a), u.roots(b)
            a_ok = any(x.kind == "call" and re.search(r"(vec::Vec|VecDeque).*::len$", norm(x.site.name)) for x in ra)
            b_ok = any(x.kind == "arg" and x.desc.endswith("max_idle_per_host") for x in rb)
            return a_ok and b_ok
        ok, wit = u.guarded(c.bb, is_bound)
        ctx.check(ok, "%s|idle-push-bounded" % ename, "the growth of the idle list is dominated by the edge `len < config.max_idle_per_host`",
                  "a path reaches the growth of the idle list without passing `len < config.max_idle_per_host`", c.where(), u.path_desc(wit))
    # config immutable: no assignment to a `config` field of PoolInner outside PoolInner::new
    n = 0
    for f in facts.fns.values():
        if "client::pool" not in f.nkey:
            continue
        for b in f.live:
            for s in f.stmts(b):
                if s["k"] != "assign":
                    continue
                fields = [e.get("n") for e in s["p"]["p"] if isinstance(e, dict) and "f" in e]
                if "max_idle_per_host" in fields or (fields and fields[-1] == "config" and "PoolInner" in f.locals[s["p"]["l"]]):
                    n += 1
                    ctx.bad("%s|config-write" % f.nkey, "pool configuration written after construction", f.where(b))
        for (b, i, s) in f.aggregates("client::pool::PoolInner"):
            ctx.check(f.nkey == "client::pool::PoolInner::new", "%s|PoolInner-ctor" % f.nkey,
                      "PoolInner is constructed in PoolInner::new", "PoolInner constructed elsewhere", f.where(b))
    if n == 0:
        ctx.ok("config-immutable", "no write to PoolInner.config / max_idle_per_host after construction")
    # &mut to config must not escape
    for f in facts.fns.values():
        for b in f.live:
            for s in f.stmts(b):
                if s["k"] == "assign" and s["r"]["k"] == "ref" and s["r"]["bk"] == "mut":
                    fields = [e.get("n") for e in s["r"]["p"]["p"] if isinstance(e, dict) and "f" in e]
                    if "config" in fields and "client::pool::PoolInner" in " ".join(f.locals[s["r"]["p"]["l"]:s["r"]["p"]["l"] + 1]):
                        ctx.bad("%s|config-mutref" % f.nkey, "&mut borrow of PoolInner.config", f.where(b))


# ------------------------------------------------------------------ P2

def _is_inner_method(nkey):
    return nkey.startswith("client::pool::PoolInner::") and "{closure" not in nkey


def pool_units(facts):
    """The PoolInner operations as the rest of the crate sees them: every PoolInner method that has a caller outside
    PoolInner (or none at all), with the PoolInner-private helpers it calls spliced in.  Splitting `push` into
    `offer_to_waiters` + `store_idle`, or merging helpers back, leaves the units - and every rule evaluated on them - unchanged."""
    if getattr(facts, "_pool_units", None) is not None:
        return facts._pool_units
    units = []
    for g in facts.fns.values():
        if not _is_inner_method(g.nkey):
            continue
        callers = facts.call_sites_of(g.nkey)
        outside = [c for c in callers if not _is_inner_method(c.fn.nkey)]
        if callers and not outside:
            continue
        units.append(facts.inl(g, 3, want=lambda ck, raw: _is_inner_method(norm(ck))))
    facts._pool_units = units
    return units


def entrance_fns(facts):
    """PoolInner operations (see pool_units) through which a connection can reach the idle list (today: PoolInner::push)."""
    # directly, or through a private method of the idle list that grows it (a bounded `try_push`)
    growers = {"client::pool::idle::IdleConnections::push"}
    for g in facts.fns.values():
        if g.nkey.startswith("client::pool::idle::IdleConnections::") and "{closure" not in g.nkey and g.calls("client::pool::idle::IdleConnections::push"):
            growers.add(g.nkey)
    return [u for u in pool_units(facts) if u.calls(*sorted(growers))]


def _push_sites(facts):
    """Call sites, outside PoolInner, of the functions through which a connection can become idle."""
    names = [f.nkey for f in entrance_fns(facts)] or ["client::pool::PoolInner::push"]
    return [c for c in facts.call_sites_of(*names) if not c.fn.nkey.startswith("client::pool::PoolInner::")]


ALL_P2 = ("callers", "open-guard", "token-guard", "conn", "token")


def P2(ctx, facts, allow_checkout_drop=True, aspects=ALL_P2):
    """Who may hand a connection to the pool, and under which guards.

    aspects: callers (who-may-call + expected callers present), open-guard (is_open of the pushed connection),
    token-guard (non-zero token), conn (provenance of the pushed connection), token (provenance of the token).
    Each property includes only the aspects that are necessary conditions of *that* property."""
    A = set(aspects)

    def chk(aspect, cond, key, ok_text, bad_text, where=None, wit=None):
        if aspect in A:
            ctx.check(cond, key, ok_text, bad_text, where, wit)
    when_drop = facts.unit(facts.method("client::pool::WhenReady", "Drop", "drop"))
    reg = facts.unit(facts.fn("client::pool::checkout::register_connected"))
    allowed = {when_drop.key: "WhenReady::drop", reg.key: "register_connected"}
    co_drop = None
    for f in facts.fns.values():
        if f.nkey.endswith("PinnedDrop>::drop::__drop_inner") and "Checkout" in f.nkey:
            co_drop = f
    if co_drop is not None and allow_checkout_drop:
        allowed[co_drop.key] = "Checkout pinned drop"
    raw_sites = _push_sites(facts)
    names = [f.nkey for f in entrance_fns(facts)] or ["client::pool::PoolInner::push"]
    units = {k: facts.unit(facts.fns[k], expand=True) for k in allowed}
    # who may call: an allowed holder, or a private helper that only the allowed holders' units contain
    for c in raw_sites:
        g = c.fn
        if g.key in allowed:
            continue
        homes = [k for k, u in units.items() if g.key in u.inlined]
        fam = set()
        for k in homes:
            fam |= {k} | set(units[k].inlined)
        outside = [x for x in facts.call_sites_of(g.nkey) if x.fn.key not in fam]
        if not homes or outside:
            ctx.bad("caller|%s" % g.nkey, "PoolInner::push called from a function with no provenance obligation", c.where())
    sites = [c for u in units.values() for c in u.calls(*names)]
    ctx.floor("pool-push-callers", len(sites), 2, "call sites of PoolInner::push")
    for need, nm in ((when_drop, "WhenReady::drop"), (reg, "register_connected")):
        ctx.floor("pool-push-from|%s" % nm, sum(1 for c in sites if c.fn.key == need.key), 1, "PoolInner::push call in %s" % nm)
    for c in sites:
        f = c.fn
        ctx.touched(f.origin if hasattr(f, "origin") else f)
        ctx.stats["call_sites_examined"] += 1
        conn = c.args[2]
        croots = f.roots(conn)
        if f.key == when_drop.key:
            ok1, w1 = f.guarded(c.bb, L_call(f, "client::pool::PoolableConnection::is_open", True))
            chk("open-guard", ok1, "WhenReady::drop|guard-is_open", "hand-back is guarded by connection.is_open() == true",
                "hand-back reachable without is_open() == true", c.where(), f.path_desc(w1))
            isopen = [s_ for s_ in f.calls("client::pool::PoolableConnection::is_open")]
            same = False
            for s_ in isopen:
                r1 = {r.desc for r in f.roots(s_.args[0]) if r.kind in ("call", "arg")}
                r2 = {r.desc for r in croots if r.kind in ("call", "arg")}
                if r1 & r2:
                    same = True
            chk("open-guard", same, "WhenReady::drop|is_open-subject", "is_open() is asked of the connection that is pushed",
                "is_open() receiver differs from the pushed connection", c.where())
            ok2, w2 = f.guarded(c.bb, L_call(f, "client::pool::key::Token::is_zero", False))
            chk("token-guard", ok2, "WhenReady::drop|guard-token", "hand-back is guarded by token.is_zero() == false",
                "hand-back reachable with a zero token", c.where(), f.path_desc(w2))
            ok3 = any(r.kind == "call" and r.site.is_("std::option::Option::take", "core::option::Option::take") for r in croots) \
                and any(r.kind == "arg" and r.desc.endswith("self.connection") for r in croots)
            chk("conn", ok3, "WhenReady::drop|conn-root", "pushed connection is self.connection.take()",
                "pushed connection roots: %s" % sorted(map(repr, croots)), c.where())
            troots = f.roots(c.args[1])
            chk("token", bool(troots) and all(r.kind == "arg" and r.desc == "self.token" for r in troots),
                "WhenReady::drop|token-root", "pushed under self.token",
                "token roots: %s" % sorted(map(repr, troots)), c.where())
        elif f.key == reg.key:
            ok = any(r.kind == "call" and r.site.is_("client::pool::PoolableConnection::reuse") for r in f.roots(conn, through_calls=False))
            chk("conn", ok, "register_connected|pushed-is-reuse", "only the clone returned by reuse() is pushed; the original stays with the caller",
                "pushed value does not come from reuse(): %s" % sorted(map(repr, f.roots(conn, through_calls=False))), c.where())
            okg, w = f.guarded(c.bb, L_variant(f, "Some", of_call="client::pool::PoolableConnection::reuse"))
            chk("conn", okg, "register_connected|guard-some", "push happens on reuse()'s Some edge",
                "push reachable outside reuse()'s Some edge", c.where(), f.path_desc(w))
            troots = f.roots(c.args[1])
            chk("token", bool(troots) and all(r.kind == "arg" and r.desc == "token" for r in troots), "register_connected|token-root",
                "pushed under the caller's token", "token roots: %s" % sorted(map(repr, troots)), c.where())
        else:
            ok = any(r.kind == "arg" and "connection" in r.desc for r in croots) and \
                any(r.kind == "call" and r.site.is_("std::option::Option::take", "core::option::Option::take") for r in croots)
            chk("conn", ok, "Checkout::drop|conn-root", "pushed connection is the checkout's own unused `connection` field",
                "pushed connection roots: %s" % sorted(map(repr, croots)), c.where())
            troots = sig(f.roots(c.args[1]))
            chk("token", bool(troots) and all(r.kind == "arg" and r.desc.endswith("token") for r in troots), "Checkout::drop|token-root",
                "pushed under the checkout's own token", "token roots: %s" % sorted(map(repr, troots)), c.where())
            okg, w = f.guarded(c.bb, L_call(f, "client::pool::PoolableConnection::is_open", True))
            chk("open-guard", okg, "Checkout::drop|guard-is_open", "return of an unused connection is guarded by is_open()",
                "unused connection handed back without is_open()", c.where(), f.path_desc(w))


def P2_aspects(*aspects):
    def rule(ctx, facts):
        return P2(ctx, facts, aspects=aspects)
    return rule


# ------------------------------------------------------------------ P3

def P3(ctx, facts, parts=("route", "ready")):
    """Pooled::drop routes an exclusive connection only through a spawned WhenReady (part `route`); WhenReady resolves
    only on poll_ready's Ready edge (part `ready`)."""
    if "route" in parts:
        _P3_route(ctx, facts)
    if "ready" in parts:
        _P3_ready(ctx, facts)


def P3_route(ctx, facts):
    return P3(ctx, facts, parts=("route",))


def _P3_route(ctx, facts):
    pd = facts.unit(facts.method("client::pool::Pooled", "Drop", "drop"))
    ctx.touched(pd)
    spawns = pd.calls("tokio::spawn", "tokio::task::spawn")
    ctx.floor("Pooled::drop|spawn", len(spawns), 1, "tokio::spawn in Pooled::drop")
    for c in spawns:
        ok, w = pd.guarded(c.bb, L_call(pd, "client::pool::PoolableConnection::can_share", False))
        ctx.check(ok, "Pooled::drop|guard-can_share", "WhenReady is spawned only for connections with can_share() == false",
                  "spawn reachable without can_share() == false", c.where(), pd.path_desc(w))
        # the spawned value is a WhenReady aggregate
        d = pd.unique_def(op_place(c.args[0])["l"]) if op_place(c.args[0]) else None
        agg = d[3]["r"] if d and d[0] == "stmt" and d[3]["r"]["k"] == "agg" else None
        if not agg or not (agg.get("adt") or "").endswith("client::pool::WhenReady"):
            ctx.bad("Pooled::drop|spawn-arg", "spawned value is not a WhenReady literal", c.where())
            continue
        names = agg["fields"]
        ops = dict(zip(names, agg["ops"]))
        cr = pd.roots(ops["connection"])
        ctx.check(any(r.kind == "arg" and r.desc == "self.connection" for r in cr) and
                  any(r.kind == "call" and r.site.is_("std::option::Option::take", "core::option::Option::take") for r in cr),
                  "Pooled::drop|conn-root", "WhenReady.connection = Some(self.connection.take())",
                  "WhenReady.connection roots: %s" % sorted(map(repr, cr)), c.where())
        tr = pd.roots(ops["token"])
        ctx.check(tr and all(r.kind == "arg" and r.desc == "self.token" for r in tr), "Pooled::drop|token-root",
                  "WhenReady.token = self.token", "WhenReady.token roots: %s" % sorted(map(repr, tr)), c.where())
        pr = pd.roots(ops["pool"])
        ctx.check(any(r.kind == "arg" and r.desc == "self.pool" for r in pr), "Pooled::drop|pool-root",
                  "WhenReady.pool = self.pool.clone()", "WhenReady.pool roots: %s" % sorted(map(repr, pr)), c.where())
    # the taken connection has no consumer other than the WhenReady literal (moves of the local)
    takes = [c for c in pd.calls("std::option::Option::take", "core::option::Option::take")]
    ctx.floor("Pooled::drop|take", len(takes), 1, "self.connection.take() in Pooled::drop")
    others = [c for c in pd.calls() if not c.is_("std::option::Option::take", "core::option::Option::take",
                                                 "client::pool::PoolableConnection::can_share", "tokio::spawn", "tokio::task::spawn",
                                                 "std::clone::Clone::clone", "core::clone::Clone::clone")]
    ctx.check(not others, "Pooled::drop|no-other-consumer", "Pooled::drop calls nothing else that could receive the connection",
              "unexpected calls in Pooled::drop: %s" % [norm(c.name) for c in others])


def _P3_ready(ctx, facts):
    wp = facts.unit(facts.method("client::pool::WhenReady", "Future", "poll"))
    ctx.touched(wp)
    ready_blocks = [b for (b, i, s) in wp.aggregates("core::task::poll::Poll", "Ready")] + \
                   [b for (b, i, s) in wp.aggregates("std::task::Poll", "Ready")]
    ready_blocks = sorted(set(ready_blocks))
    ctx.floor("WhenReady::poll|ready-sites", len(ready_blocks), 1, "Poll::Ready constructions in WhenReady::poll")
    for b in ready_blocks:
        ok, w = wp.guarded(b, L_variant(wp, "Ready", of_call=("client::conn::connection::Connection::poll_ready",)))
        ctx.check(ok, "WhenReady::poll|ready-after-poll_ready", "Ready is returned only on the Ready edge of connection.poll_ready(cx)",
                  "Ready is reachable without poll_ready() having returned Ready", wp.where(b), wp.path_desc(w))
    # direct forwarding `self.connection...poll_ready(cx)` result as return value is equally fine
    prs = wp.calls("client::conn::connection::Connection::poll_ready")
    ctx.floor("WhenReady::poll|poll_ready", len(prs), 1, "poll_ready calls in WhenReady::poll")
    for c in prs:
        rr = wp.roots(c.args[0])
        ctx.check(any(r.kind == "arg" and "connection" in r.desc for r in rr), "WhenReady::poll|subject",
                  "poll_ready is asked of self.connection", "poll_ready receiver roots: %s" % sorted(map(repr, rr)), c.where())


# ------------------------------------------------------------------ P4

def P4(ctx, facts):
    """Duplication of a connection only through reuse(); can_share/reuse agree per variant."""
    tr = facts.traits.get("client::pool::PoolableConnection")
    if tr is None:
        return ctx.missing("anchor", "trait client::pool::PoolableConnection not found")
    sup = [s.split("::")[-1] for s in tr["supers"]]
    ctx.check("Clone" not in sup and "Copy" not in sup, "PoolableConnection|no-Clone-supertrait",
              "PoolableConnection does not require Clone (supertraits: %s)" % sup,
              "PoolableConnection requires Clone: any connection could be duplicated")
    # supertraits of supertraits (local ones)
    for s in tr["supers"]:
        t2 = facts.traits.get(s)
        if t2:
            sup2 = [x.split("::")[-1] for x in t2["supers"]]
            ctx.check("Clone" not in sup2 and "Copy" not in sup2, "%s|no-Clone-supertrait" % s.split("::")[-1],
                      "supertrait %s does not require Clone" % s, "supertrait %s requires Clone" % s)
    for adt in ("client::conn::connection::HttpConnection", "client::conn::connection::InnerConnection", "client::pool::Pooled", "client::pool::WhenReady"):
        ims = facts.impls_of("Clone", adt) + facts.impls_of("Copy", adt)
        ctx.check(not ims, "%s|no-Clone-impl" % adt.split("::")[-1], "%s has no Clone/Copy impl" % adt,
                  "%s implements Clone/Copy" % adt, ims[0]["span"] if ims else None)
    # who calls reuse
    sites = facts.call_sites_of("client::pool::PoolableConnection::reuse")
    allowed = {"client::pool::PoolInner::push", "client::pool::checkout::register_connected"}
    pr = facts.unit(facts.method("client::pool::Pooled", "PoolableConnection", "reuse"))
    ctx.floor("reuse-sites", len(sites), 3, "call sites of PoolableConnection::reuse")
    for c in sites:
        inpr = c.fn.key == pr.key or c.fn.d.get("parent") == pr.key
        in_inner = c.fn.nkey.startswith("client::pool::PoolInner::") and "{closure" not in c.fn.nkey
        ctx.check(c.fn.nkey in allowed or inpr or in_inner, "reuse-caller|%s" % c.fn.nkey, "reuse() called from a pool-internal site",
                  "reuse() called from unexpected function", c.where())
    # HttpConnection per-variant agreement
    cs = facts.unit(facts.method("client::conn::connection::HttpConnection", "PoolableConnection", "can_share"))
    ru = facts.unit(facts.method("client::conn::connection::HttpConnection", "PoolableConnection", "reuse"))
    for f in (cs, ru):
        ctx.touched(f)
    # decision table over the connection's variant (abstract evaluation; `match`, `matches!`, delegation to a helper of
    # InnerConnection and `share().map(..)` are the same table)
    cs = facts.unit(facts.method("client::conn::connection::HttpConnection", "PoolableConnection", "can_share"), expand=True)
    ru = facts.unit(facts.method("client::conn::connection::HttpConnection", "PoolableConnection", "reuse"), expand=True)
    adt = facts.adt("client::conn::connection::HttpConnection")
    idx = [i for i, fl in enumerate(adt["variants"][0]["fields"]) if "InnerConnection<" in fl["ty"]]
    if len(idx) != 1:
        return ctx.missing("HttpConnection|inner", "HttpConnection has no single field of type InnerConnection")
    clone = [(r"Clone.*::clone$", lambda site, vals: vals[0] if vals else None)]
    for v in ("H1", "H2"):
        this = ("refval", ("variant", "HttpConnection", ((idx[0], ("variant", v, ((0, ("const", "SENDER_" + v)),))),)))
        try:
            o_cs = {x for (x, _) in AbsPaths(cs, oracles=clone).outcomes(state={1: this})}
            o_ru = {x for (x, _) in AbsPaths(ru, oracles=clone).outcomes(state={1: this})}
        except AbsPaths.Undecided as e:
            ctx.undecided("HttpConnection|table|%s" % v, str(e))
            continue
        want = "true" if v == "H2" else "false"
        ctx.check(o_cs == {("const", want)}, "HttpConnection::can_share|%s" % v, "can_share() is %s for %s" % (want, v),
                  "can_share() yields %s for %s" % (sorted(map(str, o_cs)), v), cs.where())
        if v == "H1":
            ok = o_ru == {("variant", "None", ())}
        else:
            ok = len(o_ru) == 1
            r = next(iter(o_ru)) if ok else None
            inner = dict(dict(r[2]).get(0)[2]).get(idx[0]) if ok and r is not None and r[0] == "variant" and r[1] == "Some" and dict(r[2]).get(0) is not None and dict(r[2]).get(0)[0] == "variant" else None
            # the second handle is an HTTP/2 connection made from (a clone of) this connection's own sender
            ok = inner == ("variant", "H2", ((0, ("const", "SENDER_H2")),))
        ctx.check(ok, "HttpConnection::reuse|%s" % v, "reuse() is %s for %s" % ("Some(handle on the same HTTP/2 sender)" if v == "H2" else "None", v),
                  "reuse() yields %s for %s" % (sorted(map(str, o_ru)), v), ru.where())


def C02_1(ctx, facts):
    """HttpConnection::is_open asks the matching hyper sender for readiness in each arm."""
    f = facts.unit(facts.method("client::conn::connection::HttpConnection", "PoolableConnection", "is_open"))
    ctx.touched(f)
    _, a = arms(f, "InnerConnection")
    if set(a) != {"H1", "H2"}:
        return ctx.undecided("HttpConnection::is_open|arms", "could not split is_open into H1/H2 arms: %s" % sorted(a))
    for v, mod in (("H1", "http1"), ("H2", "http2")):
        rets = assigns_to_return(f, a[v])
        ok = len(rets) == 1 and rets[0][0] == "call" and CallSite(f, rets[0][1], rets[0][2]).is_(
            "hyper::client::conn::%s::SendRequest::is_ready" % mod)
        ctx.check(ok, "HttpConnection::is_open|%s" % v, "is_open() returns %s::SendRequest::is_ready()" % mod,
                  "is_open() for %s does not return the sender's is_ready(): %s" % (v, [(k, b) for k, b, _ in rets]), f.where())


def C02_2(ctx, facts):
    """Pooled's fields are private; nothing hands the inner connection out by value except drop paths."""
    adt = facts.adt("client::pool::Pooled")
    if adt is None:
        return ctx.missing("anchor", "struct client::pool::Pooled not found")
    for fld in adt["variants"][0]["fields"]:
        priv = not fld["vis"].startswith("Public")
        ctx.check(priv, "Pooled.%s|private" % fld["name"], "field %s of Pooled is private (%s)" % (fld["name"], fld["vis"]),
                  "field %s of Pooled is public" % fld["name"])
    take = facts.unit(facts.fn("client::pool::Pooled::take"))
    ctx.check(not take.d.get("vis", "").startswith("Public"), "Pooled::take|private", "Pooled::take is private to the pool module (%s)" % take.d.get("vis"),
              "Pooled::take is public")
    callers = facts.call_sites_of("client::pool::Pooled::take")
    for c in callers:
        ctx.check(c.fn.nkey.startswith("client::pool::PoolInner::") and "{closure" not in c.fn.nkey, "Pooled::take|caller|%s" % c.fn.nkey,
                  "Pooled::take is used only inside PoolInner to recover an undelivered connection",
                  "Pooled::take called from %s" % c.fn.nkey, c.where())
    ctx.floor("Pooled::take|callers", len(callers), 1, "callers of Pooled::take")


# ------------------------------------------------------------------ P5

OPT = ("core::option::Option", "std::option::Option")


def _opt(m):
    return tuple("%s::%s" % (o, m) for o in OPT)


def expiry_cond(facts, fn, cond):
    """Recognise `entry.at < threshold` in the shapes the normaliser knows.  Returns
    (older_means_expired: bool, threshold_operand_in_fn) or None when the condition is not an expiry test."""
    if cond.kind != "call":
        return None
    site = cond.site
    clo = None
    opt_operand = None
    if site.is_(*_opt("unwrap_or")):
        if const_of(site.args[1]) != "false":
            return None
        m = fn.call_defining(op_place(site.args[0])["l"]) if op_place(site.args[0]) else None
        if m is None or not m.is_(*_opt("map")):
            return None
        clo = closure_arg_of(fn, m, 1)
        opt_operand = m.args[0]
    elif site.is_(*_opt("is_some_and")):
        clo = closure_arg_of(fn, site, 1)
        opt_operand = site.args[0]
    elif site.is_(*_opt("map_or")):
        if const_of(site.args[1]) != "false":
            return None
        clo = closure_arg_of(fn, site, 2)
        opt_operand = site.args[0]
    else:
        return None
    if clo is None or clo not in facts.fns:
        return None
    cf = facts.fns[clo]
    cmpx = returned_comparison(cf)
    if cmpx is None:
        return None
    op, a, b = cmpx
    ra = cf.roots(a)
    rb = cf.roots(b)

    def is_at(rs):
        return any(r.kind == "arg" and ("at" in r.desc.replace("cap:", "").split("__") or r.desc.endswith(".at") or "entry__at" in r.desc) for r in rs)

    def is_thr(rs):
        return any(r.kind == "arg" and getattr(r, "index", 0) == 2 for r in rs)

    if is_at(ra) and is_thr(rb):
        older = op in ("Lt", "Le")
    elif is_at(rb) and is_thr(ra):
        older = op in ("Gt", "Ge")
    else:
        return None
    return (older, opt_operand)


def P5(ctx, facts):
    """IdleConnections::pop yields an entry only if it is open and not expired; expiry = at < now - timeout."""
    pop = facts.unit(facts.fn("client::pool::idle::IdleConnections::pop"))
    ctx.touched(pop)
    # which entry is handed out: decision table over small idle lists x timeout configurations (idletable.py): only an open,
    # unexpired entry, the specified one, and it leaves the list; zero / no timeout disables expiry
    import idletable
    idletable.table(ctx, facts)
    # callers / plumbing
    ppop = facts.unit(facts.fn("client::pool::PoolInner::pop"), expand=True)
    ctx.touched(ppop)
    sites = facts.call_sites_of("client::pool::idle::IdleConnections::pop")
    ctx.floor("IdleConnections::pop|callers", len(sites), 1, "call sites of IdleConnections::pop")
    for c in sites:
        ctx.check(c.fn.key == ppop.key, "IdleConnections::pop|caller|%s" % c.fn.nkey, "IdleConnections::pop is called from PoolInner::pop",
                  "IdleConnections::pop called from %s" % c.fn.nkey, c.where())
        if c.fn.key == ppop.key:
            rr = ppop.roots(c.args[1])
            ctx.check(any(r.kind == "arg" and r.desc.endswith("config.idle_timeout") for r in rr), "PoolInner::pop|timeout-arg",
                      "the configured idle_timeout is what is passed to IdleConnections::pop",
                      "timeout argument roots: %s" % sorted(map(repr, rr)), c.where())
    rets = ppop.roots({"l": 0, "p": []}, through_calls=False)
    bad = [r for r in rets if not ((r.kind == "call" and r.site.is_("client::pool::idle::IdleConnections::pop")) or
                                   (r.kind == "agg" and r.desc.endswith("::None")))]
    ctx.check(not bad and any(r.kind == "call" for r in rets), "PoolInner::pop|returns-filtered",
              "PoolInner::pop returns only what IdleConnections::pop yielded (or None)",
              "PoolInner::pop can return a value from %s" % sorted(map(repr, bad)))
    # every read access to the idle entries goes through pop: no other function reads `Idle.inner`
    home = {pop.key} | set(pop.inlined)
    for f in facts.fns.values():
        if f.key in home or f.d.get("parent") in home or f.d.get("derived"):
            continue
        for b in f.live:
            for s in f.stmts(b):
                if s["k"] != "assign":
                    continue
                r = s["r"]
                pl = None
                if r["k"] in ("use", "cast"):
                    pl = op_place(r["o"])
                elif r["k"] in ("ref", "copyderef"):
                    pl = r["p"]
                if pl is None:
                    continue
                base_ty = f.locals[pl["l"]]
                if "client::pool::idle::Idle<" in base_ty and any(isinstance(e, dict) and e.get("n") == "inner" for e in pl["p"]) \
                        and "IdleConnections" not in base_ty.split("Idle<")[0]:
                    if f.nkey.startswith("<client::pool::idle::Idle as std::fmt::Debug>"):
                        continue
                    ctx.bad("%s|reads-idle-entry" % f.nkey, "idle entry's connection read outside IdleConnections::pop", f.where(b))
