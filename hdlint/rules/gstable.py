"""Trace table for `GracefulShutdown::poll` (C07.1 / C07.2 / C07.3): the accept loop of a graceful server.

The body - crate-local helpers spliced in (a `poll_stop` helper, a private "stop reason" enum, ... are all the same to it) -
is evaluated abstractly.  The fields of the pinned `self` are tagged constants (roles read off the types, see c07.roles);
polling the signal / the all-closed future / `Serving::poll_once` are nondeterministic steps (Ready / Pending; Some(conn) /
None / Err / Pending - after two accept steps only the outcomes that end the call are offered, which bounds the loop); every
poll, `shutdown.send()`, construction of a connection driver and spawn is an event of a trace kept in the state.  The set of
(trace, result) pairs of the code must equal that of the reference model `spec` below, which is the property: in every
round the signal is polled first (with the task context); once it resolves the connections are told to shut down and the
serving future completes with Ready(Ok(())) without accepting or spawning anything more; otherwise the all-closed future is
polled, then one accept step is taken; an accepted connection is spawned as a graceful driver holding a clone of the
server's shutdown receiver and of its "connection" token."""
import re

import inline
import seqmodel
from core import AbsPaths, VALUE_EQ, INT_CMP, norm, deref_value, _as_int
from seqmodel import NONE, some, tup, _arg, _set_dest

GS = "server::GracefulShutdown"
SELF, LOG, COUNT = 9500, -81, -70
BUDGET = 2


def _log(st, ev):
    l = st.get(LOG) or ("list", ())
    st[LOG] = ("list", l[1] + (("const", ev),))


def _name(v):
    v = deref_value({}, v) if v is not None and v[0] == "refval" else v
    if v is None:
        return "?"
    if v[0] == "const":
        return str(v[1])
    if v[0] == "variant" and v[1] == "CloneOf":
        return "clone(%s)" % _name(dict(v[2]).get(0))
    return "?"


def evaluate(facts, R):
    fn = facts.method(GS, "Future", "poll")
    OPAQUE = r"Serving.*::poll_once$|GracefulConnectionDriver.*::new$|CloseSender::send$|<server::Close(Future|Reciever|Sender) as .*>::"
    u = inline.inline(facts, fn, 4, lambda ck, raw: "::_::" not in ck and not re.search(OPAQUE, norm(ck)), expand=True)
    adt = facts.adt(GS)
    fl = adt["variants"][0]["fields"]
    role_of = {R["signal"]: "signal", R["fin"]: "finished", R["rx"]: "channel", R["shutdown_tx"]: "shutdown", R["conn_tx"]: "connection"}
    fields = tuple((i, ("const", "F:" + role_of.get(x["name"], "server" if "Serving<" in x["ty"] else x["name"]))) for i, x in enumerate(fl))
    st = {1: ("refmut", SELF), SELF: ("variant", "GracefulShutdown", fields), 2: ("const", "CX"), LOG: ("list", ()), COUNT: ("const", "0")}

    def locof(a):
        if a is None:
            return None
        if a[0] == "refmut":
            return a[1], ()
        if a[0] == "pref":
            return a[1], tuple(a[2])
        return None

    def o_pin_same(ev, st_, t, site):
        a = _arg(ev, st_, t, 0)
        if a is None:
            return False
        inner = deref_value(st_, a, hops=1) if a[0] in ("ref", "refmut", "pref", "refval") else None
        if inner is not None and inner[0] in ("refmut", "ref", "pref"):
            return _set_dest(st_, t, inner)
        return _set_dest(st_, t, a)

    def o_project(ev, st_, t, site):
        a = _arg(ev, st_, t, 0)
        lp = locof(a)
        v = deref_value(st_, a)
        if lp is None or v is None or v[0] != "variant":
            return False
        loc, path = lp
        return _set_dest(st_, t, ("variant", "__Projection", tuple((i, ("pref", loc, path + (i,))) for i, _ in v[2])))

    def ready(payload):
        return ("variant", "Ready", ((0, payload),))
    PENDING = ("variant", "Pending", ())

    def o_poll(ev, st_, t, site):
        who = _name(deref_value(st_, _arg(ev, st_, t, 0)))
        cx = _name(deref_value(st_, _arg(ev, st_, t, 1)))
        if who not in ("F:signal", "F:finished"):
            return False
        alts = []
        for nm, val in (("Ready", ready(tup())), ("Pending", PENDING)):
            s2 = dict(st_)
            _log(s2, "poll:%s:%s:%s" % (who[2:], cx, nm))
            s2[t["dest"]["l"]] = val
            alts.append(s2)
        return alts

    def o_once(ev, st_, t, site):
        who = _name(deref_value(st_, _arg(ev, st_, t, 0)))
        cx = _name(deref_value(st_, _arg(ev, st_, t, 1)))
        if who != "F:server":
            return False
        k = _as_int(st_.get(COUNT)) or 0
        outs = [("Err", ready(("variant", "Err", ((0, ("const", "ACCEPT_ERROR")),)))), ("Pending", PENDING)]
        if k < BUDGET:
            # the payload of a step: Option<conn> - or a private two-variant enum saying the same (one variant carrying the
            # connection, one carrying nothing), read off the declared return type
            conn = ("const", "conn#%d" % k)
            got, nothing = some(conn), NONE
            try:
                ty = ev.fn.locals[t["dest"]["l"]]
            except Exception:
                ty = ""
            m = re.search(r"Result<([\w:]+)<", ty)
            if m and not m.group(1).endswith("option::Option"):
                a = facts.adts.get(m.group(1)) or facts.adts.get(norm(m.group(1)))
                vs = a["variants"] if a else []
                one = [v for v in vs if len(v["fields"]) == 1]
                zero = [v for v in vs if len(v["fields"]) == 0]
                if len(vs) != 2 or len(one) != 1 or len(zero) != 1:
                    return False
                got, nothing = ("variant", one[0]["name"], ((0, conn),)), ("variant", zero[0]["name"], ())
            outs = [("Some:conn#%d" % k, ready(("variant", "Ok", ((0, got),)))), ("None", ready(("variant", "Ok", ((0, nothing),))))] + outs
        alts = []
        for nm, val in outs:
            s2 = dict(st_)
            s2[COUNT] = ("const", str(k + 1))
            _log(s2, "once:%s:%s" % (cx, nm))
            s2[t["dest"]["l"]] = val
            alts.append(s2)
        return alts

    def o_send(ev, st_, t, site):
        _log(st_, "send:%s" % _name(deref_value(st_, _arg(ev, st_, t, 0)))[2:])
        return _set_dest(st_, t, tup())

    def o_clone(ev, st_, t, site):
        v = deref_value(st_, _arg(ev, st_, t, 0))
        if v is None or v[0] != "const" or not str(v[1]).startswith("F:"):
            return False
        return _set_dest(st_, t, ("variant", "CloneOf", ((0, v),)))

    def o_driver(ev, st_, t, site):
        a = [deref_value(st_, _arg(ev, st_, t, i)) for i in range(3)]
        d = "driver(%s,%s,%s)" % (_name(a[0]), _name(a[1]).replace("F:", ""), _name(a[2]).replace("F:", ""))
        return _set_dest(st_, t, ("const", d))

    def o_execute(ev, st_, t, site):
        _log(st_, "spawn:%s" % _name(deref_value(st_, _arg(ev, st_, t, 1))))
        return _set_dest(st_, t, tup())
    raw = [(r"::_::<impl .*>::(project|project_ref)$", o_project),
           (r"Pin.* as std::ops::Deref(Mut)?.*::deref(_mut)?$|Pin.*::(new|as_mut|get_mut|new_unchecked|as_ref|get_ref|into_ref)$", o_pin_same),
           (r"Serving.*::poll_once$", o_once), (r"Future.*::poll$", o_poll), (r"CloseSender::send$", o_send),
           (r"Clone.*::clone$", o_clone), (r"GracefulConnectionDriver.*::new$", o_driver), (r"Executor.*::execute$", o_execute)] + seqmodel.OPTION_ORACLES
    outs = AbsPaths(u, limit=40000, raw_oracles=raw, oracles=[INT_CMP, VALUE_EQ]).outcomes(state=st, extra_keys=(LOG,))
    res = set()
    for (rv, _, (lg,)) in outs:
        res.add((tuple(e[1] for e in lg[1]) if lg is not None else None, _res(rv)))
    return u, res


def _res(rv):
    if rv is None:
        return "?"
    if rv[0] == "variant" and rv[1] == "Pending":
        return "Pending"
    if rv[0] == "variant" and rv[1] == "Ready":
        x = dict(rv[2]).get(0)
        if x is not None and x[0] == "variant" and x[1] in ("Ok", "Err"):
            p = dict(x[2]).get(0)
            if x[1] == "Ok":
                return "Ready(Ok(()))" if p is not None and p[0] == "variant" and p[1] == "()" else "Ready(Ok(?))"
            return "Ready(Err(%s))" % _name(p)
    return "?"


def spec():
    res = set()

    def round_(trace, k):
        res.add((trace + ("poll:signal:CX:Ready", "send:shutdown"), "Ready(Ok(()))"))
        t1 = trace + ("poll:signal:CX:Pending",)
        res.add((t1 + ("poll:finished:CX:Ready",), "Ready(Ok(()))"))
        t2 = t1 + ("poll:finished:CX:Pending",)
        res.add((t2 + ("once:CX:Err",), "Ready(Err(ACCEPT_ERROR))"))
        res.add((t2 + ("once:CX:Pending",), "Pending"))
        if k < BUDGET:
            round_(t2 + ("once:CX:Some:conn#%d" % k, "spawn:driver(conn#%d,clone(channel),clone(connection))" % k), k + 1)
            round_(t2 + ("once:CX:None",), k + 1)
    round_((), 0)
    return res


def table(ctx, facts, R, label="GracefulShutdown::poll"):
    key = "%s|trace-table" % label
    try:
        u, got = evaluate(facts, R)
    except AbsPaths.Undecided as e:
        return ctx.undecided(key, str(e))
    ctx.touched(u)
    want = spec()
    extra, lost = sorted(got - want, key=repr), sorted(want - got, key=repr)
    why = ""
    if extra:
        why += "the code can do %s -> %s, which the specification does not allow; " % (list(extra[0][0]) if extra[0][0] is not None else "?", extra[0][1])
    if lost:
        why += "the specification requires %s -> %s, which the code cannot do; " % (list(lost[0][0]), lost[0][1])
    ctx.check(not extra and not lost, key,
              "the %d (trace, result) pairs of the accept loop are exactly those of the specification: every round polls the signal first; once it resolves "
              "shutdown.send() and Ready(Ok(())) follow with no further accept or spawn; otherwise the all-closed future, then one accept step; an accepted "
              "connection is spawned as a graceful driver with clones of the server's shutdown receiver and connection token" % len(want),
              "%s(%d unexpected, %d missing of %d)" % (why, len(extra), len(lost), len(want)), u.where())
    ctx.floor("%s|trace-table-size" % label, len(want), 28, "traces of the specification")
