"""C07: graceful shutdown finishes in-flight requests and stops accepting (level: other)."""
from core import norm, L_call, L_variant, CallSite, sig, assigns_to_return, arms, closure_arg_of, L_poll, field_where
from mir import op_place, place_str
import pool2

META = {
    "thorough_extra": ["server-only", "tls"],
    "level": "other",
    "explanation": "Structure of the shutdown mechanism, decided on all paths: (C07.1) in GracefulShutdown::poll every accept step is separated from loop entry and from the "
                   "previous accept step by the Pending edge of signal.poll(cx); (C07.2) on the signal's Ready edge shutdown.send() is passed on every path, no accept step or "
                   "spawn is reachable, and Ready(Ok(())) is returned; (C07.3) each connection is spawned as a GracefulConnectionDriver whose shutdown receiver is a clone of the "
                   "server's channel and whose finished sender is a clone of the server's connection token, the two pairs coming from two distinct close() calls; (C07.4) the "
                   "driver's shutdown future is fused, graceful_shutdown() is called only on its Ready edge and is always followed by polling the connection again, and the "
                   "driver completes only on the connection's Ready edge after finished.send(); (C07.5) every protocol state has a graceful-shutdown arm that resolves to hyper's "
                   "own graceful_shutdown (no self-recursion) and a connection still sniffing is cancelled, ReadVersion::poll reporting the cancellation before reading; "
                   "(C07.6) CloseSender::send drops the watch receiver and the CloseReciever future awaits Sender::closed; (E-WAKER) on the server's poll functions."
                   " New: C07.7 - the shutdown broadcast is level-triggered (watch channels; no Notify::notify_waiters in the server), so a connection spawned but not yet polled still sees the signal."
                   " C07.4 also decides `pending-hears-signal`: every Pending answer of GracefulConnectionDriver::poll is chosen behind the Pending edge of a poll of the shutdown future that received the task context (an idle keep-alive connection is woken by nothing else); for a slot emptied on the Ready edge one such answer is required."
                   " As built now: C07.1 - C07.3 are also decided as one trace table of GracefulShutdown::poll (gstable.py: polls of the signal / the all-closed future / poll_once as nondeterministic steps, 28 (trace, result) pairs compared with a reference model of the loop).",
    "trusted_base": ["rustc type/borrow checker", "hyper finishes in-flight exchanges after graceful_shutdown and closes idle keep-alive connections", "tokio watch::Sender::closed resolves when all receivers are dropped",
                     "the executor keeps spawned connection tasks running after the serving future completes"],
    "assumptions": [],
    "undecided": "that hyper finishes in-flight exchanges after graceful_shutdown (trusted); timing relative to accept",
    "level_text": "static necessary conditions (edge-separated must-pass-through in the accept loop, provenance of the channels, sibling agreement of the per-protocol shutdown arms); completion of in-flight responses is hyper's behaviour and is trusted",
}

FUT_POLL = ("std::future::Future::poll", "core::future::future::Future::poll", "futures_core::Future::poll", "futures_core::future::Future::poll")


def polls_of_field(f, field):
    out = []
    for c in f.calls():
        last = norm(c.decl or c.name).split("::")[-1]
        if last != "poll" or not c.args:
            continue
        rr = f.roots(c.args[0])
        if any(r.kind == "arg" and (r.desc.endswith("." + field)) for r in rr):
            out.append(c)
    return out


def roles(facts):
    """Fields of GracefulShutdown / GracefulConnectionDriver by role.  Roles are read off the declared types and the wiring in
    GracefulShutdown::new (which sender shares its close() pair with the receiver that is cloned into connections), so that
    renaming a private field changes nothing."""
    import re
    GS, GD = "server::GracefulShutdown", "server::conn::drivers::GracefulConnectionDriver"
    r = {}
    sig = field_where(facts, GS, lambda t: re.match(r"^[A-Z][A-Za-z0-9]*$", t) is not None)
    rx = field_where(facts, GS, lambda t: t.endswith("CloseReciever"))
    fin = field_where(facts, GS, lambda t: t.endswith("CloseFuture"))
    txs = field_where(facts, GS, lambda t: t.endswith("CloseSender"))
    if len(sig) != 1 or len(rx) != 1 or len(fin) != 1 or len(txs) != 2:
        raise KeyError("GracefulShutdown fields by type: signal=%s receiver=%s all-closed=%s senders=%s" % (sig, rx, fin, txs))
    r["signal"], r["rx"], r["fin"] = sig[0], rx[0], fin[0]
    g = facts.unit(facts.fn("server::GracefulShutdown::new"))
    pair = {}
    for (b, i, s) in g.aggregates(GS):
        ops = dict(zip(s["r"]["fields"], s["r"]["ops"]))
        site = lambda o: {x.site.bb for x in g.roots(o) if x.kind == "call" and x.site.is_("server::close")}
        for t in txs:
            if site(ops[t]) and site(ops[t]) == site(ops[rx[0]]):
                pair["shutdown_tx"] = t
            elif site(ops[t]) and site(ops[t]) == site(ops[fin[0]]):
                pair["conn_tx"] = t
    if set(pair) != {"shutdown_tx", "conn_tx"}:
        raise KeyError("GracefulShutdown::new wiring of the two close() pairs not recognised: %s" % pair)
    r.update(pair)
    dc = field_where(facts, GD, lambda t: "ConnectionDriver<" in t)
    # Fuse<CloseFuture>, Option<CloseFuture>, ... - or the receiver kept un-converted (Option<CloseReciever>, CloseReciever): the
    # role is still "the connection's view of the shutdown signal"; whether it is *polled* (waker registered) is decided below
    ds = field_where(facts, GD, lambda t: "CloseFuture" in t or "Fuse<" in t or "CloseReciever" in t)
    df = field_where(facts, GD, lambda t: t.endswith("CloseSender"))
    if len(dc) != 1 or len(ds) != 1 or len(df) != 1:
        raise KeyError("GracefulConnectionDriver fields by type: conn=%s shutdown=%s finished=%s" % (dc, ds, df))
    r["d_conn"], r["d_shutdown"], r["d_finished"] = dc[0], ds[0], df[0]
    return r


def C07_1_2(ctx, facts):
    f = facts.unit(facts.method("server::GracefulShutdown", "Future", "poll"))
    ctx.touched(f)
    R = roles(facts)
    sig_polls = polls_of_field(f, R["signal"])
    once = f.calls("server::Serving::poll_once")
    execs = [c for c in f.calls() if norm(c.decl or c.name).endswith("Executor::execute")]
    ctx.floor("GracefulShutdown::poll|signal-poll", len(sig_polls), 1, "polls of the shutdown signal")
    ctx.floor("GracefulShutdown::poll|accept-step", len(once), 1, "poll_once calls")
    ctx.floor("GracefulShutdown::poll|spawn", len(execs), 1, "executor.execute calls")
    sp = {c.bb for c in sig_polls}

    sig_pending = L_poll(f, False, sp)
    sig_ready = L_poll(f, True, sp)

    good = set(f.edges_where(sig_pending))
    for c in sig_polls:
        cx = pool2.cx_local(f)
        ok = any(any(r.kind == "arg" and getattr(r, "index", None) == cx for r in f.roots(a, through_calls=False)) for a in c.args)
        ctx.check(ok, "GracefulShutdown::poll|signal-gets-cx", "the signal is polled with the task context", "signal polled without cx", c.where())
    for c in once:
        ok, w = f.guarded(c.bb, sig_pending)
        ctx.check(ok, "GracefulShutdown::poll|signal-before-accept", "an accept step is reached only through the Pending edge of the shutdown signal",
                  "an accept step is reachable without having polled the signal (or on its Ready edge)", c.where(), f.path_desc(w))
        again = None
        for s in f.succ[c.bb]:
            p = f.path(s, [c.bb], avoid_edges=good)
            if p is not None:
                again = p
        ctx.check(again is None, "GracefulShutdown::poll|signal-between-accepts", "between two accept steps the signal is polled again (and was Pending)",
                  "two accept steps can follow each other without re-checking the signal", c.where(), f.path_desc(again))
    redges = f.edges_where(sig_ready)
    ctx.floor("GracefulShutdown::poll|ready-edge", len(redges), 1, "Ready edge of the signal")
    sends = [c for c in f.calls("server::CloseSender::send") if any(r.kind == "arg" and r.desc.endswith("." + R["shutdown_tx"]) for r in f.roots(c.args[0]))]
    ctx.floor("GracefulShutdown::poll|shutdown-send", len(sends), 1, "shutdown.send()")
    for (a, b) in redges:
        ok, w = f.must_pass(b, f.returns, {c.bb for c in sends})
        ctx.check(ok, "GracefulShutdown::poll|ready-sends-shutdown", "once the signal resolved every path tells the connections to shut down (shutdown.send()) before returning",
                  "the server can return after the signal without notifying the connections", f.where(a), f.path_desc(w))
        reach = f.reach([b])
        hit = [c for c in once + execs if c.bb in reach]
        ctx.check(not hit, "GracefulShutdown::poll|ready-stops-accepting", "after the signal resolved no accept step and no spawn is reachable",
                  "after the signal resolved the server can still accept / spawn: %s" % [x.where() for x in hit], f.where(a))
    # the whole loop as a trace table (gstable.py): order of the polls in every round, what follows the signal (send, then
    # Ready(Ok(())) and nothing else), what an accepted connection is spawned with
    import gstable
    gstable.table(ctx, facts, R)


def C07_3(ctx, facts):
    R = roles(facts)
    f = facts.unit(facts.method("server::GracefulShutdown", "Future", "poll"))
    news = f.calls("server::conn::drivers::GracefulConnectionDriver::new")
    execs = [c for c in f.calls() if norm(c.decl or c.name).endswith("Executor::execute")]
    ctx.floor("GracefulShutdown::poll|driver-new", len(news), 1, "GracefulConnectionDriver::new")
    for c in execs:
        rr = f.roots(c.args[1], through_calls=False)
        ctx.check(any(r.kind == "call" and r.site.bb in {n.bb for n in news} for r in rr), "GracefulShutdown::poll|spawns-graceful-driver",
                  "what is spawned is the GracefulConnectionDriver", "spawned value roots %s" % sorted(map(repr, rr)), c.where())
    for c in news:
        r0 = f.roots(c.args[0])
        r1 = f.roots(c.args[1])
        r2 = f.roots(c.args[2])
        ctx.check(any(r.kind == "call" and r.site.is_("server::Serving::poll_once") for r in r0), "GracefulConnectionDriver::new|conn", "the driver owns the accepted connection",
                  "conn roots %s" % sorted(map(repr, sig(r0))), c.where())
        ctx.check(any(r.kind == "arg" and r.desc.endswith("." + R["rx"]) for r in r1) and not any(r.kind == "arg" and r.desc.endswith("." + R["conn_tx"]) for r in r1),
                  "GracefulConnectionDriver::new|shutdown-rx", "its shutdown receiver is a clone of the server's `channel`", "shutdown roots %s" % sorted(map(repr, sig(r1))), c.where())
        ctx.check(any(r.kind == "arg" and r.desc.endswith("." + R["conn_tx"]) for r in r2) and not any(r.kind == "arg" and r.desc.endswith("." + R["shutdown_tx"]) for r in r2),
                  "GracefulConnectionDriver::new|finished-tx", "its finished sender is a clone of the server's `connection` token", "finished roots %s" % sorted(map(repr, sig(r2))), c.where())
    g = facts.unit(facts.fn("server::GracefulShutdown::new"))
    ctx.touched(g)
    for (b, i, s) in g.aggregates("server::GracefulShutdown"):
        r = s["r"]
        ops = dict(zip(r["fields"], r["ops"]))

        def close_site(o):
            return {x.site.bb for x in g.roots(o) if x.kind == "call" and x.site.is_("server::close")}

        cs = {k: close_site(ops[R[k]]) for k in ("rx", "shutdown_tx", "fin", "conn_tx")}
        ok = len(cs["rx"]) == 1 and cs["rx"] == cs["shutdown_tx"] and len(cs["fin"]) == 1 and cs["fin"] == cs["conn_tx"] and cs["rx"] != cs["fin"]
        ctx.check(ok, "GracefulShutdown::new|pairs", "channel/shutdown come from one close() pair and finished/connection from another",
                  "close() pairing is %s" % cs, g.where(b))
        ctx.check(any(x.kind == "arg" for x in g.roots(ops[R["signal"]])), "GracefulShutdown::new|signal", "the signal future is the caller's", "signal roots differ", g.where(b))
    cl = facts.unit(facts.fn("server::close"))
    rr = cl.roots({"l": 0, "p": []})
    chans = {x.site.bb for x in rr if x.kind == "call" and x.site.is_("tokio::sync::watch::channel")}
    ctx.check(len(chans) == 1, "close|one-channel", "close() returns both halves of one watch channel", "close() uses %d channels" % len(chans), cl.where())


def C07_4(ctx, facts):
    adt = facts.adt("server::conn::drivers::GracefulConnectionDriver")
    ty = {fl["name"]: fl["ty"] for fl in adt["variants"][0]["fields"]} if adt else {}
    R = roles(facts)
    f = facts.unit(facts.method("server::conn::drivers::GracefulConnectionDriver", "Future", "poll"))
    ctx.touched(f)
    cp = polls_of_field(f, R["d_conn"])
    shp = polls_of_field(f, R["d_shutdown"])
    # the shutdown future is never polled again once it was Ready (graceful_shutdown is requested once): either it is fused, or
    # it sits in an Option that is emptied on the Ready edge before anything else can poll it
    sty = ty.get(R["d_shutdown"], "")
    if "Fuse<" in sty:
        ctx.ok("GracefulConnectionDriver|fused", "the driver's shutdown future is fused (after Ready it answers Pending without being polled)")
    elif "Option<" in sty:
        clears = set()
        for b in sorted(f.live):
            t = f.term(b)
            if t["k"] == "call":
                c = CallSite(f, b, t)
                if c.matches(r"Pin.*::set$|Option.*::take$|mem::(take|replace)$") and R["d_shutdown"] in pool2._fields_of_ref(f, c.args[0]):
                    clears.add(b)
            for s_ in f.stmts(b):
                is_none = s_["k"] == "assign" and s_["r"]["k"] == "agg" and s_["r"].get("v") == "None"
                if s_["k"] == "assign" and s_["r"]["k"] == "use" and s_["p"]["p"]:
                    from mir import op_place
                    q = op_place(s_["r"]["o"])
                    d_ = f.unique_def(q["l"]) if q is not None and not q["p"] else None
                    is_none = bool(d_ and d_[0] == "stmt" and d_[3]["r"]["k"] == "agg" and d_[3]["r"].get("v") == "None")
                if is_none and s_["p"]["p"]:
                    named = any(isinstance(e, dict) and e.get("n") == R["d_shutdown"] for e in s_["p"]["p"])
                    through = s_["p"]["p"] == ["*"] and R["d_shutdown"] in pool2._fields_of_ref(f, {"c": {"l": s_["p"]["l"], "p": []}})
                    if named or through:
                        clears.add(b)
        ok = bool(clears)
        for (a, b) in f.edges_where(L_poll(f, True, {x.bb for x in shp})):
            o1, w = f.must_pass(b, sorted({x.bb for x in shp} | set(f.returns)), clears)
            ok = ok and o1
        ctx.check(ok, "GracefulConnectionDriver|fused", "the shutdown future sits in an Option that is emptied on its Ready edge before it could be polled again or the call returns",
                  "the shutdown future (type %s) can be polled again after it was Ready" % sty, f.where())
    else:
        ctx.bad("GracefulConnectionDriver|fused", "the shutdown future (type %s) is neither fused nor kept in an Option emptied on completion: it can be polled after it was Ready" % sty)
    # a resting connection hears the signal: every Pending answer of the driver is chosen behind the Pending edge of a poll of the
    # *shutdown* future that received the task context (the connection's own waker is not enough - an idle keep-alive connection
    # is woken by nothing but the signal).  Exempt: a Pending chosen after graceful_shutdown() was already requested on the path.
    gs0 = {c.bb for c in f.calls() if norm(c.decl or c.name).endswith("::graceful_shutdown")}
    cxl = pool2.cx_local(f)
    shp_cx = {c.bb for c in shp if cxl is not None and any(any(r.kind == "arg" and getattr(r, "index", None) == cxl for r in f.roots(a, through_calls=False)) for a in c.args)}
    pend_edge = L_poll(f, False, shp_cx)
    npend = 0
    # a slot (`Option<CloseFuture>`) emptied on the Ready edge answers Pending from its empty arm as well - that arm is only
    # reachable after graceful_shutdown() was requested in an earlier call (the "fused" rule above decides where it is emptied);
    # for that shape the rule asks for one Pending behind the signal's Pending edge, not all of them
    slot_shape = "Option<" in sty and "CloseFuture" in sty
    results = []
    for (b, i, s_) in f.aggregates("Poll", "Pending"):
        npend += 1
        ok, w = False, None
        for (cb, cl) in pool2.carriers(f, b, s_["p"]["l"]):
            ok2, w2 = f.guarded(cb, pend_edge) if shp_cx else (False, None)
            if not ok2 and gs0:
                ok2 = f.must_pass(f.entry if hasattr(f, "entry") else 0, [cb], gs0)[0]
            ok = ok or ok2
            w = w or w2
        results.append(ok)
        if slot_shape:
            continue
        ctx.check(ok, "GracefulConnectionDriver::poll|pending-hears-signal",
                  "the driver answers Pending only behind the Pending edge of a poll of its shutdown future that received the task context (the signal wakes a resting connection)",
                  "the driver can answer Pending without the shutdown signal having registered the task's waker: an idle connection is never told to shut down",
                  f.where(b), f.path_desc(w))
    if slot_shape:
        ctx.check(any(results), "GracefulConnectionDriver::poll|pending-hears-signal",
                  "a Pending answer of the driver sits behind the Pending edge of a poll of the shutdown slot's future that received the task context",
                  "no Pending answer of the driver is behind a poll of the shutdown future: an idle connection is never told to shut down", f.where())
    ctx.floor("GracefulConnectionDriver::poll|pending-sites", npend, 1, "Poll::Pending constructions in the driver's poll")
    gs = [c for c in f.calls() if norm(c.decl or c.name).endswith("::graceful_shutdown")]
    fin = [c for c in f.calls("server::CloseSender::send")]
    ctx.floor("GracefulConnectionDriver::poll|conn-poll", len(cp), 1, "polls of the connection")
    ctx.floor("GracefulConnectionDriver::poll|shutdown-poll", len(shp), 1, "polls of the shutdown future")
    ctx.floor("GracefulConnectionDriver::poll|graceful_shutdown", len(gs), 1, "graceful_shutdown calls")
    ctx.floor("GracefulConnectionDriver::poll|finished-send", len(fin), 1, "finished.send()")
    for c in gs:
        ok, w = f.guarded(c.bb, L_poll(f, True, {x.bb for x in shp}))
        ctx.check(ok, "GracefulConnectionDriver::poll|shutdown-on-ready", "graceful_shutdown() is called only on the Ready edge of the shutdown future",
                  "graceful_shutdown() reachable without the shutdown signal", c.where(), f.path_desc(w))
        p = f.path(c.bb, f.returns, avoid_blocks={x.bb for x in cp})
        ctx.check(p is None, "GracefulConnectionDriver::poll|keeps-polling", "after requesting graceful shutdown the driver polls the connection again before any return",
                  "the driver can return right after graceful_shutdown() without polling the connection", c.where(), f.path_desc(p))
        rr = f.roots(c.args[0])
        ctx.check(any(r.kind == "arg" and R["d_conn"] in r.desc.split(".") for r in rr), "GracefulConnectionDriver::poll|shutdown-own-conn", "graceful_shutdown() is applied to the driver's own connection",
                  "graceful_shutdown receiver roots %s" % sorted(map(repr, sig(rr))), c.where())
    readys = sorted({b for (b, i, s) in f.aggregates("Poll", "Ready")})
    ctx.floor("GracefulConnectionDriver::poll|ready", len(readys), 1, "Ready returns")
    conn_ready = L_poll(f, True, {x.bb for x in cp})
    for b in readys:
        ok, w = f.guarded(b, conn_ready)
        ctx.check(ok, "GracefulConnectionDriver::poll|ready-only-when-conn-done", "the driver completes only when the connection has completed",
                  "the driver can complete while the connection is still running", f.where(b), f.path_desc(w))
    for (a, b) in f.edges_where(conn_ready):
        ok, w = f.must_pass(b, f.returns, {c.bb for c in fin})
        ctx.check(ok, "GracefulConnectionDriver::poll|finished-sent", "completion is signalled (finished.send()) before returning Ready", "Ready returned without finished.send()", f.where(a), f.path_desc(w))
    pool2.waker_rule(ctx, f, "GracefulConnectionDriver::poll")
    n = facts.unit(facts.fn("server::conn::drivers::GracefulConnectionDriver::new"))
    for (b, i, s) in n.aggregates("server::conn::drivers::GracefulConnectionDriver"):
        r = s["r"]
        ops = dict(zip(r["fields"], r["ops"]))
        rs = n.roots(ops[R["d_shutdown"]])
        ctx.check(any(x.kind == "arg" and "Close" in n.locals[x.index] for x in rs) and any(x.kind == "call" and norm(x.site.name).endswith(("::fuse", "::into_future")) for x in rs),
                  "GracefulConnectionDriver::new|fuse", "the shutdown future is the given receiver's future (fused, or stored in the slot)", "shutdown roots %s" % sorted(map(repr, sig(rs))), n.where(b))
        ctx.check(any(x.kind == "arg" and n.locals[x.index].endswith("CloseSender") for x in n.roots(ops[R["d_finished"]])), "GracefulConnectionDriver::new|finished", "finished is the given sender", "finished differs", n.where(b))
        ctx.check(any(x.kind == "arg" for x in n.roots(ops[R["d_conn"]])), "GracefulConnectionDriver::new|conn", "conn wraps the given connection", "conn differs", n.where(b))


def C07_5(ctx, facts):
    f = facts.unit(facts.method("server::conn::auto::UpgradableConnection", "Connection", "graceful_shutdown"))
    ctx.touched(f)
    sw, reg = arms(f, "ConnectionStateProject")
    want = {"Http1": r"hyper::server::conn::http1::UpgradeableConnection::graceful_shutdown$",
            "Http2": r"hyper::server::conn::http2::Connection::graceful_shutdown$",
            "ReadVersion": r"server::conn::auto::ReadVersion::cancel$"}
    ctx.check(set(reg) == set(want), "UpgradableConnection::graceful_shutdown|arms", "one arm per protocol state (%s)" % sorted(reg),
              "states handled: %s, expected %s" % (sorted(reg), sorted(want)))
    for v, pat in want.items():
        if v not in reg:
            continue
        cs = [c for c in f.calls() if c.bb in reg[v] and not is_plumbing(c)]
        import re
        ok = len(cs) == 1 and c_res(cs[0]) is not None and re.search(pat, norm(c_res(cs[0]))) is not None
        ctx.check(ok, "UpgradableConnection::graceful_shutdown|%s" % v, "the %s state forwards to %s" % (v, pat.rstrip("$").split("::")[-2] + "::" + pat.rstrip("$").split("::")[-1]),
                  "the %s arm calls %s" % (v, [norm(c.name) for c in cs]), f.where())
    # plain protocol impls delegate to hyper's inherent method (not to themselves)
    n = 0
    for g in facts.fns.values():
        d = g.d
        if d.get("name") != "graceful_shutdown" or (d.get("impl_trait") or "").split("::")[-1] != "Connection":
            continue
        st = norm(d.get("impl_self", ""))
        if not st.startswith("hyper::server::conn::"):
            continue
        n += 1
        cs = [c for c in g.calls() if not is_plumbing(c)]
        ok = len(cs) == 1 and c_res(cs[0]) and norm(c_res(cs[0])).startswith("hyper::server::conn::") and norm(c_res(cs[0])).endswith("::graceful_shutdown") and c_res(cs[0]) != g.key
        ctx.check(ok, "Connection::graceful_shutdown|%s" % st.split("::")[-2], "delegates to hyper's inherent graceful_shutdown (no self-recursion)",
                  "calls %s" % [norm(c.name) for c in cs], g.where())
    ctx.floor("Connection::graceful_shutdown|hyper-impls", n, 2, "Connection impls for hyper's connection types")
    cg = facts.unit(facts.method("ouroboros_impl_connecting::Connecting", "Connection", "graceful_shutdown"))
    clos = [k for (_, _, _, k) in cg.closures_created()]
    inner = [c for k in clos if k in facts.fns for c in facts.fns[k].calls() if norm(c.decl or c.name).endswith("::graceful_shutdown")]
    ctx.check(len(inner) == 1, "Connecting::graceful_shutdown|delegates", "Connecting forwards graceful_shutdown to the inner auto connection",
              "Connecting::graceful_shutdown does not forward (found %d calls)" % len(inner), cg.where())
    # cancellation is honoured before reading
    rv = facts.unit(facts.method("server::conn::auto::ReadVersion", "Future", "poll"))
    reads = rv.calls("hyper::rt::Read::poll_read")

    def not_cancelled(lab):
        return lab.kind == "bool" and lab.value is False and lab.cond.kind == "place" and any(isinstance(e, dict) and e.get("n") == "cancelled" for e in lab.cond.place["p"])

    def cancelled(lab):
        return lab.kind == "bool" and lab.value is True and lab.cond.kind == "place" and any(isinstance(e, dict) and e.get("n") == "cancelled" for e in lab.cond.place["p"])

    for c in reads:
        ok, w = rv.guarded(c.bb, not_cancelled)
        ctx.check(ok, "ReadVersion::poll|cancel-before-read", "a cancelled sniffer does not read any more", "a cancelled sniffer can still read", c.where(), rv.path_desc(w))
    for (a, b) in rv.edges_where(cancelled):
        reach = rv.reach([b])
        errs = [bb for (bb, i, s) in rv.aggregates("Result", "Err") if bb in reach]
        oks = [bb for (bb, i, s) in rv.aggregates("Result", "Ok") if bb in reach]
        ctx.check(bool(errs) and not oks, "ReadVersion::poll|cancel-is-error", "a cancelled sniffer resolves with an error (the connection ends)", "cancelled sniffer does not end with Err", rv.where(a))
    ctx.floor("ReadVersion::poll|cancel-edge", len(rv.edges_where(cancelled)), 1, "test of the cancelled flag")
    cn = facts.unit(facts.fn("server::conn::auto::ReadVersion::cancel"))
    wrote = False
    for b in cn.live:
        for s in cn.stmts(b):
            if s["k"] == "assign" and s["r"]["k"] == "use" and s["r"]["o"].get("k", {}).get("v") == "true":
                rr = cn.roots({"l": s["p"]["l"], "p": []})
                if any("cancelled" in str(e.get("n")) for e in s["p"]["p"] if isinstance(e, dict)) or any(x.kind == "call" and "project" in norm(x.site.name) for x in rr):
                    wrote = True
    ctx.check(wrote, "ReadVersion::cancel|sets-flag", "cancel() sets the cancelled flag", "cancel() does not set the flag", cn.where())


def is_plumbing(c):
    from core import is_transparent
    n = norm(c.name)
    return is_transparent(c) or n.endswith("::project") or n.endswith("::project_ref")


def c_res(c):
    return c.res or c.decl


def C07_6(ctx, facts):
    s = facts.unit(facts.fn("server::CloseSender::send"))
    # the receiver is moved out of the sender's state (and dropped): `self.0.take()`, or `mem::replace(self, Sent)` on an enum state
    takes = [c for c in s.calls() if c.matches(r"Option.*::take$|mem::(replace|take)$")]
    ctx.check(len(takes) >= 1 and any(any(r.kind == "arg" and (r.desc.endswith(".0") or r.desc == "self" or r.desc.startswith("self.")) for r in s.roots(c.args[0])) for c in takes), "CloseSender::send|drops-receiver",
              "send() takes (drops) the watch receiver", "send() does not drop the receiver", s.where())
    # the close future awaits Sender::closed
    f = facts.unit(facts.method("server::CloseReciever", "IntoFuture", "into_future"))
    bodies = [facts.fns[k] for (_, _, _, k) in f.closures_created() if k in facts.fns]
    ok = any(c.is_("tokio::sync::watch::Sender::closed") for b in bodies for c in b.calls())
    ctx.check(ok, "CloseReciever::into_future|awaits-closed", "the close future awaits watch::Sender::closed()", "the close future does not await Sender::closed()", f.where())
    cf = facts.unit(facts.method("server::CloseFuture", "Future", "poll"))
    pool2.waker_rule(ctx, cf, "CloseFuture::poll")
    ctx.ok("CloseFuture::poll|forwards", "CloseFuture::poll forwards to the boxed future") if any(norm(c.decl or c.name).endswith("::poll") for c in cf.calls()) else ctx.bad("CloseFuture::poll|forwards", "CloseFuture::poll does not poll its inner future", cf.where())


def C07_7(ctx, facts):
    """The shutdown request must reach a connection that was spawned but has not been polled yet: the broadcast has to be
    level-triggered (a watch channel keeps the state; a receiver created or first polled later still sees it).
    `Notify::notify_waiters` wakes only tasks that are already waiting and stores nothing - a connection handed to the executor
    an instant before the signal would be served as if nothing had happened and never be closed."""
    sites = []
    for g in facts.fns.values():
        if not g.nkey.startswith(("server", "<server")):
            continue
        for c in g.calls():
            if c.matches(r"tokio::sync::Notify::notify_waiters$|tokio::sync::notify::Notify::notify_waiters$|Notify::notify_one$|Notify::notify_last$"):
                sites.append(c)
    ctx.check(not sites, "shutdown-broadcast|level-triggered", "the server signals through watch channels only (no edge-triggered Notify broadcast)",
              "the server broadcasts with %s: tasks that are not waiting yet never see the signal" % sorted({norm(c.name).split("::")[-1] + " in " + c.fn.nkey for c in sites}),
              sites[0].where() if sites else None)
    # positive witness that the rule looks at the right module: the watch channel is what the server's signalling is built on
    uses = [c for g in facts.fns.values() if g.nkey.startswith(("server", "<server")) for c in g.calls() if "tokio::sync::watch::" in norm(c.name)]
    ctx.floor("shutdown-broadcast|watch-uses", len(uses), 2, "uses of tokio::sync::watch in the server")


def C07_waker(ctx, facts):
    n = 0
    for key in (("server::GracefulShutdown", "Future", "poll"), ("server::Serving", "Future", "poll"), ("server::conn::drivers::ConnectionDriver", "Future", "poll"),
                ("server::conn::auto::UpgradableConnection", "Future", "poll"), ("server::conn::auto::ReadVersion", "Future", "poll"),
                ("ouroboros_impl_connecting::Connecting", "Future", "poll")):
        f = facts.method(*key)
        ctx.touched(f)
        n += pool2.waker_rule(ctx, f)
    po = facts.unit(facts.fn("server::Serving::poll_once"))
    n += pool2.waker_rule(ctx, po)
    ctx.floor("server-poll-fns|pending-sites", n, 6, "Poll::Pending constructions in the server's poll functions")


RULES = [
    ("C07.1", C07_1_2, ["default"]),
    ("C07.3", C07_3, ["default"]),
    ("C07.4", C07_4, ["default"]),
    ("C07.5", C07_5, ["default"]),
    ("C07.6", C07_6, ["default"]),
    ("C07.7", C07_7, ["default"]),
    ("E-WAKER", C07_waker, ["default"]),
]
