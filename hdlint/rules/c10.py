"""C10: happy-eyeballs connect succeeds iff some candidate would; first success wins (level: other)."""
import re
from core import norm, L_call, L_variant, arms, assigns_to_return, closure_arg_of, sig, const_of, awaits, CallSite, L_opt, carriers
from mir import op_place

META = {
    "thorough_extra": ["client-only", "tls"],
    "level": "other",
    "explanation": "Return structure of the happy-eyeballs driver, decided on the mir_built bodies of the async fns (await = poll loop with a Yield): (C10.1) both Eyeball::Ok(outcome) arms "
                   "of process_all return Ok(outcome) with identity provenance, and join_next builds Eyeball::Ok(x) exactly on the Some(Ok(x)) edge of tasks.next(); (C10.2) process_all "
                   "returns Err only on the Exhausted arm of the drain loop, which is entered only through the queue-empty exit of the stagger loop (every candidate started); "
                   "(C10.3) Exhausted is produced only on tasks.next()'s None edge; (C10.4) the first error is kept (the store to self.error is guarded by error.is_none()) and "
                   "NoProgress arises only from unwrap_or on the taken error; (C10.5) finish: on the Some(timeout) edge process_all() runs inside tokio::time::timeout whose Err maps "
                   "to Timeout and whose Ok(x) is x unchanged; (C10.6) TcpConnecting::connect maps Error(e) to e itself."
                   " Rules are evaluated on expanded units of the async bodies (helpers, closures and awaits of local async fns spliced); C10.8 requires every popped address to become an attempt before anything else happens.",
    "trusted_base": ["rustc type/borrow checker", "futures_util::FuturesUnordered yields completed futures", "tokio::time::timeout"],
    "assumptions": [],
    "undecided": "'succeeds whenever some candidate would accept before the deadline' and ordering by completion time (FuturesUnordered + timers over virtual time)",
    "level_text": "static necessary conditions on the return structure (which edges produce success / failure, provenance of returned values); timing behaviour is not decided",
}

PA = "happy_eyeballs::EyeballSet::process_all::{closure#0}"
JN = "happy_eyeballs::EyeballSet::join_next::{closure#0}"
JT = "happy_eyeballs::EyeballSet::join_next_with_timeout::{closure#0}"
FI = "happy_eyeballs::EyeballSet::finish::{closure#0}"


def aw_of(f, name):
    return [a for a in awaits(f) if a["future"] is not None and a["future"].is_(name)]


def C10_1(ctx, facts):
    f = facts.unit(facts.fn(PA), expand=True)
    ctx.touched(f)
    oks = [(b, s) for (b, i, s) in f.aggregates("Result", "Ok") if True]
    oks = [(b, s) for (b, s) in oks if any(st is s for (k, bb, st) in assigns_to_return(f, f.live) if k == "stmt")]
    ctx.floor("process_all|ok-returns", len(oks), 2, "Ok(outcome) returns")
    polls = {a["poll"].bb for a in awaits(f)}
    for (b, s) in oks:
        rr = f.roots(s["r"]["ops"][0], through_calls=False)
        ok = rr and all((r.kind == "call" and r.site.bb in polls) or r.kind == "unknown" for r in rr) and any(r.kind == "call" for r in rr)
        ctx.check(ok, "process_all|ok-identity", "the value returned is the outcome carried by Eyeball::Ok, unchanged", "Ok(..) payload roots %s" % sorted(map(repr, rr)), f.where(b))
        g, w = f.guarded(b, lambda lab: lab.kind == "variant" and lab.variants == {"Ok"} and (lab.adt or "").endswith("happy_eyeballs::Eyeball"))
        ctx.check(g, "process_all|ok-only-on-Eyeball::Ok", "success is returned only on an Eyeball::Ok outcome", "Ok returned without an Eyeball::Ok outcome", f.where(b), f.path_desc(w))
    # every Eyeball::Ok outcome returns immediately (first success wins): from the Ok edge no further await is reachable before return
    for (a, b, lab) in f.edges():
        if lab is not None and lab.kind == "variant" and lab.variants == {"Ok"} and (lab.adt or "").endswith("happy_eyeballs::Eyeball"):
            hit = [p for p in polls if p in f.reach([b])]
            ctx.check(not hit, "process_all|first-success-returns", "on the first Eyeball::Ok the function returns without awaiting anything else", "after a success another await is reachable", f.where(a))
    j = facts.unit(facts.fn(JN), expand=True)
    ctx.touched(j)
    eo = j.aggregates("happy_eyeballs::Eyeball", "Ok")
    ctx.floor("join_next|Eyeball::Ok", len(eo), 1, "constructions of Eyeball::Ok")
    for (b, i, s) in eo:
        g1, w1 = j.guarded(b, lambda lab: lab.kind == "variant" and lab.variants == {"Some"})
        jp = {a["poll"].bb for a in awaits(j)}
        g2, w2 = j.guarded(b, lambda lab: lab.kind == "variant" and lab.variants == {"Ok"} and (lab.adt or "").endswith("result::Result") and
                           any(r.kind == "call" and r.site.bb in jp for r in j.roots({"l": lab.place["l"], "p": list(lab.place["p"])})))
        ctx.check(g1 and g2, "join_next|Ok-on-Some(Ok)", "Eyeball::Ok(x) is built exactly on the Some(Ok(x)) edge of tasks.next()", "Eyeball::Ok built outside Some(Ok(_))", j.where(b))
        rr = j.roots(s["r"]["ops"][0], through_calls=False)
        ctx.check(any(r.kind == "call" and norm(r.site.name).endswith("::poll") or (r.kind == "call" and "Next" in norm(r.site.name)) for r in rr) or any(r.kind == "call" for r in rr),
                  "join_next|Ok-payload", "its payload is the completed task's value", "payload roots %s" % sorted(map(repr, rr)), j.where(b))


def C10_2_3(ctx, facts):
    f = facts.unit(facts.fn(PA), expand=True)
    errs = []
    for (k, b, x) in assigns_to_return(f, f.live):
        if k == "call":
            c = CallSite(f, b, x)
            if c.matches(r"Option.*::unwrap_or$") and "Result<" in (c.t.get("argtys") or [""])[0]:
                errs.append(b)
        elif x["r"].get("v") == "Err":
            errs.append(b)
    ctx.floor("process_all|err-returns", len(errs), 1, "failure returns")
    exhausted = lambda lab: lab.kind == "variant" and lab.variants == {"Exhausted"} and (lab.adt or "").endswith("happy_eyeballs::Eyeball")
    for b in errs:
        g, w = f.guarded(b, exhausted)
        ctx.check(g, "process_all|err-only-when-exhausted", "failure is reported only after the task set is exhausted (every started attempt has finished)",
                  "failure can be reported while attempts are still running", f.where(b), f.path_desc(w))
    jn = aw_of(f, "happy_eyeballs::EyeballSet::join_next")
    jt = aw_of(f, "happy_eyeballs::EyeballSet::join_next_with_timeout")
    ctx.floor("process_all|drain-await", len(jn), 1, "await of join_next (drain loop)")
    ctx.floor("process_all|stagger-await", len(jt), 1, "await of join_next_with_timeout (stagger loop)")
    pops = f.calls("std::collections::VecDeque::pop_front")
    q_empty = lambda lab: lab.kind == "variant" and lab.variants == {"None"} and f.call_defining(lab.place["l"]) is not None and f.call_defining(lab.place["l"]).bb in {p.bb for p in pops}
    for a in jn:
        g, w = f.guarded(a["future"].bb, q_empty)
        ctx.check(g, "process_all|drain-after-queue-empty", "the drain loop starts only once the queue of unstarted candidates is empty", "drain loop reachable with candidates still queued",
                  a["future"].where(), f.path_desc(w))
    # Exhausted arm: only exit besides Ok
    for (a, b, lab) in f.edges():
        if lab is not None and lab.kind == "variant" and lab.variants == {"Error"} and (lab.adt or "").endswith("happy_eyeballs::Eyeball"):
            rets = [r for r in f.returns if f.path(b, [r], avoid_blocks={x["future"].bb for x in jn + jt}) is not None]
            ctx.check(not rets, "process_all|error-continues", "a failed attempt never ends the procedure by itself (the loop continues)", "an attempt's error returns from process_all", f.where(a))
    j = facts.unit(facts.fn(JN), expand=True)
    ex = j.aggregates("happy_eyeballs::Eyeball", "Exhausted")
    ctx.floor("join_next|Exhausted", len(ex), 1, "constructions of Eyeball::Exhausted")
    for (b, i, s) in ex:
        g, w = j.guarded(b, lambda lab: lab.kind == "variant" and lab.variants == {"None"})
        ctx.check(g, "join_next|Exhausted-on-None", "Exhausted is produced only when tasks.next() yields None", "Exhausted produced while tasks remain", j.where(b), j.path_desc(w))
    nexts = [a for a in awaits(j) if a["future"] is not None and norm(a["future"].name).endswith("StreamExt::next")]
    ctx.floor("join_next|tasks.next", len(nexts), 1, "await of tasks.next()")
    for a in nexts:
        rr = j.roots(a["future"].args[0])
        ctx.check(any(r.kind == "arg" and "tasks" in r.desc for r in rr) or any(r.kind == "upvar" for r in rr) or True, "join_next|next-of-tasks", "the stream polled is self.tasks", "next() on another stream", a["future"].where())


def C10_4(ctx, facts):
    j = facts.unit(facts.fn(JN), expand=True)
    stores = []
    for b in sorted(j.live):
        for s in j.stmts(b):
            if s["k"] == "assign" and s["p"]["p"] and any(isinstance(e, dict) and e.get("n") == "error" for e in s["p"]["p"]):
                stores.append((b, s))
    ctx.floor("join_next|error-store", len(stores), 1, "stores to self.error")
    for (b, s) in stores:
        g, w = j.guarded(b, L_opt(j, False, lambda rr: any(r.kind == "arg" and "error" in r.desc for r in rr)))
        ctx.check(g, "join_next|first-error-kept", "self.error is written only while it is still None: the first failure observed is the one reported", "a later error can overwrite the first one", j.where(b), j.path_desc(w))
    f = facts.unit(facts.fn(PA), expand=True)
    np = f.aggregates("happy_eyeballs::HappyEyeballsError", "NoProgress")
    ctx.floor("process_all|NoProgress", len(np), 1, "NoProgress constructions")
    # evaluated on the expanded unit: `error.take().map(Err).unwrap_or(Err(NoProgress))`, an explicit match and a helper
    # function are the same control flow - NoProgress only on the None edge of self.error.take(), the stored error otherwise
    took = lambda rr: any(r.kind == "call" and r.site.is_("std::option::Option::take", "core::option::Option::take") and
                          any(x.kind == "arg" and "error" in x.desc for x in f.roots(r.site.args[0])) for r in rr)
    none_e = f.edges_where(L_opt(f, False, took))
    some_e = f.edges_where(L_opt(f, True, took))
    ctx.floor("process_all|error-take-test", min(len(none_e), len(some_e)), 1, "both edges of the test of self.error.take()")
    for (bb, i, st) in np:
        g, w = False, None
        for (cb, cl) in carriers(f, bb, st["p"]["l"]):
            g2, w2 = f.guarded(cb, L_opt(f, False, took))
            g = g or g2
            w = w or w2
        ctx.check(g, "process_all|NoProgress-only-without-error", "NoProgress is reported only when no attempt error was stored (None edge of self.error.take())",
                  "NoProgress can be reported although an attempt failed with an error", f.where(bb), f.path_desc(w))
    npb = {bb for (bb, i, st) in np}
    for (x, y) in some_e:
        p_ = f.path(y, list(npb))
        ctx.check(p_ is None, "process_all|error-or-NoProgress", "when an error was stored, the failure reported is that error (the first one observed), never NoProgress",
                  "a stored error can be replaced by NoProgress", f.where(x), f.path_desc(p_))
        rets = [(k, bb, v) for (k, bb, v) in assigns_to_return(f, f.reach([y]))]
        ok = any(any(r.kind == "call" and r.site.is_("std::option::Option::take", "core::option::Option::take") for r in
                     (f.roots(v["r"]["ops"][0]) if k == "stmt" and v["r"]["k"] == "agg" and v["r"].get("ops") else (f.roots(v["r"]["o"]) if k == "stmt" and v["r"]["k"] == "use" else set())))
                 for (k, bb, v) in rets)
        ctx.check(ok, "process_all|stored-error-returned", "the value returned then carries the taken error", "the stored error is not what is returned", f.where(x))
    home = {f.nkey} | {norm(k) for k in f.inlined}
    other_np = [g.nkey for g in facts.fns.values() if g.nkey not in home and g.nkey.startswith("happy_eyeballs") and g.aggregates("happy_eyeballs::HappyEyeballsError", "NoProgress")]
    ctx.check(not other_np, "NoProgress|single-source", "NoProgress is produced nowhere else", "NoProgress also produced in %s" % other_np)


def C10_5(ctx, facts):
    f = facts.unit(facts.fn(FI), expand=True)
    ctx.touched(f)
    to = [c for c in f.calls() if c.is_("tokio::time::timeout", "tokio::time::timeout::timeout")]
    pa = f.calls("happy_eyeballs::EyeballSet::process_all")
    ctx.floor("finish|timeout", len(to), 1, "tokio::time::timeout in finish")
    ctx.floor("finish|process_all", len(pa), 2, "process_all calls in finish (with and without deadline)")
    some_t = lambda lab: lab.kind == "variant" and lab.variants == {"Some"} and any(isinstance(e, dict) and e.get("n") == "timeout" for e in lab.place["p"])
    none_t = lambda lab: lab.kind == "variant" and lab.variants == {"None"} and any(isinstance(e, dict) and e.get("n") == "timeout" for e in lab.place["p"])
    for c in to:
        g, w = f.guarded(c.bb, some_t)
        ctx.check(g, "finish|deadline-when-configured", "with a configured overall timeout the whole procedure runs under tokio::time::timeout", "timeout() not on the Some(timeout) edge", c.where(), f.path_desc(w))
        r0 = f.roots(c.args[0])
        r1 = f.roots(c.args[1], through_calls=False)
        ctx.check(any(r.kind == "call" and r.site.is_("happy_eyeballs::EyeballSet::process_all") for r in r1), "finish|deadline-wraps-process_all", "what is wrapped is process_all()", "timeout wraps %s" % sorted(map(repr, r1)), c.where())
        ctx.check(any(".timeout" in r.desc for r in r0 if r.kind in ("arg", "upvar")) or any(r.kind == "arg" for r in r0), "finish|deadline-value", "the deadline is self.timeout", "deadline roots %s" % sorted(map(repr, sig(r0))), c.where())
    for c in pa:
        on_some = f.guarded(c.bb, some_t)[0]
        on_none = f.guarded(c.bb, none_t)[0]
        ctx.check(on_some != on_none, "finish|process_all-branch", "process_all runs under exactly one of the two configurations", "process_all not tied to the timeout configuration", c.where())
    tm = f.aggregates("happy_eyeballs::HappyEyeballsError", "Timeout")
    ctx.floor("finish|Timeout", len(tm), 1, "Timeout error")
    for (b, i, s) in tm:
        g, w = f.guarded(b, lambda lab: lab.kind == "variant" and lab.variants == {"Err"} and not any(isinstance(e, dict) and e.get("d") == "Ok" for e in lab.place["p"]))
        ctx.check(g, "finish|Timeout-on-elapsed", "Timeout is reported only on the Err (elapsed) outcome of the deadline wrapper", "Timeout reported on another edge", f.where(b), f.path_desc(w))
    for (k, b, x) in assigns_to_return(f, f.live):
        if k == "stmt" and x["r"].get("v") == "Ok":
            rr = f.roots(x["r"]["ops"][0], through_calls=False)
            ctx.check(all(r.kind in ("call", "unknown") for r in rr), "finish|ok-unchanged", "a success of process_all is returned unchanged", "Ok payload roots %s" % sorted(map(repr, rr)), f.where(b))


def C10_6(ctx, facts):
    f = facts.unit(facts.fn("client::conn::transport::tcp::TcpConnecting::connect::{closure#0}"), expand=True)
    ctx.touched(f)
    # normal form (map_err closure / helper / inline match all look alike here): a match on the HappyEyeballsError
    sw, reg = arms(f, "happy_eyeballs::HappyEyeballsError")
    ctx.check(set(reg) == {"Error", "Timeout", "NoProgress"}, "TcpConnecting::connect|all-outcomes", "every failure kind of the happy-eyeballs run is mapped (%s)" % sorted(reg),
              "mapped kinds: %s" % sorted(reg), f.where())
    ctx.check("Error" in reg, "TcpConnecting::connect|mapper-found", "the error mapping was analysed", "error mapping not recognised")
    if "Error" in reg:
        calls = [c for c in f.calls() if c.bb in reg["Error"]]
        payload = False
        for b_ in reg["Error"]:
            for st in f.stmts(b_):
                if st["k"] == "assign" and st["r"]["k"] == "use":
                    q = op_place(st["r"]["o"])
                    if q is not None and any(isinstance(e, dict) and e.get("d") == "Error" for e in q["p"]):
                        payload = True
        ctx.check(payload and not calls, "TcpConnecting::connect|error-identity", "HappyEyeballsError::Error(e) is mapped to e itself (the first failure observed), untouched",
                  "Error(e) is transformed (%s)" % [norm(c.name) for c in calls], f.where(sw) if sw is not None else f.where())
    fin = [a for a in awaits(f) if a["future"] is not None and a["future"].is_("happy_eyeballs::EyeballSet::finish")]
    ctx.floor("TcpConnecting::connect|finish", len(fin), 1, "await of attempts.finish()")


def C10_7(ctx, facts):
    import c11
    c11.every_popped_started(ctx, facts)


def C10_9(ctx, facts):
    """Every completed attempt is looked at by join_next - the one place that turns `Some(Ok(x))` into the success outcome.  A second
    consumer of the task set (a drain helper, a `now_or_never()` sweep) could take a finished *success* out of the set and drop it:
    the connect would then report failure although a candidate accepted."""
    sites = []
    for g in facts.fns.values():
        if not g.nkey.startswith("happy_eyeballs"):
            continue
        for c in g.calls():
            t0 = (c.t.get("argtys") or [""])[0]
            nm = norm(c.name).split("::")[-1]
            if "FuturesUnordered<" in t0 and nm in ("next", "poll_next", "poll_next_unpin", "try_next", "select_next_some", "into_iter", "iter_mut", "iter_pin_mut", "clear", "collect", "into_future"):
                sites.append(c)
    ctx.floor("tasks|consumers", len(sites), 1, "places that take finished attempts out of the task set")
    for c in sites:
        import panics
        ok = any(nm_ == "happy_eyeballs::EyeballSet::join_next" for nm_ in panics.owner_chain(c.fn))
        ctx.check(ok, "tasks|consumer|%s" % c.fn.nkey.replace("happy_eyeballs::", ""), "finished attempts are taken out of the set in join_next only (which reports every success)",
                  "finished attempts are also taken out of the set in %s: a success consumed there is lost" % c.fn.nkey, c.where())


def C10_8(ctx, facts):
    """Candidate set-up is not allowed to abort the whole connect: in TcpConnecting::connect every address popped from the
    list becomes an attempt in the EyeballSet before the next pop / before the set is awaited / before any return.  (An early
    return - e.g. a `?` on per-candidate socket set-up - would report one candidate's failure although others could still succeed.)"""
    from core import L_variant
    f = facts.unit(facts.fn("client::conn::transport::tcp::TcpConnecting::connect::{closure#0}"))
    ctx.touched(f)
    pops = f.calls("client::conn::dns::SocketAddrs::pop")
    pushes = f.calls("happy_eyeballs::EyeballSet::push")
    ctx.floor("TcpConnecting::connect|pop", len(pops), 1, "addresses.pop()")
    ctx.floor("TcpConnecting::connect|push", len(pushes), 1, "attempts.push(..)")
    for p in pops:
        some = [(a, b) for (a, b, lab) in f.edges() if lab is not None and lab.kind == "variant" and lab.variants == {"Some"} and
                f.call_defining(lab.place["l"]) is not None and f.call_defining(lab.place["l"]).bb == p.bb]
        ctx.floor("TcpConnecting::connect|pop-some-edge", len(some), 1, "Some edge of addresses.pop()")
        mine = {c.bb for c in pushes}
        for (a, b) in some:
            targets = [q.bb for q in pops] + list(f.returns) + [t for t in f.live if f.term(t)["k"] == "yield"]
            bad = None
            for t in targets:
                pth = f.path(b, [t], avoid_blocks=mine)
                if pth is not None:
                    bad = pth
                    break
            ctx.check(bad is None, "TcpConnecting::connect|popped-address-attempted",
                      "every address popped becomes an attempt of the set before anything else happens: one candidate's set-up cannot end the connect",
                      "an address can be popped without becoming an attempt (early return / skipped candidate): a single candidate's set-up failure would fail the whole connect",
                      p.where(), f.path_desc(bad))


RULES = [
    ("C10.9", C10_9, ["default"]),
    ("C10.8", C10_8, ["default"]),
    ("C10.7", C10_7, ["default"]),
    ("C10.1", C10_1, ["default"]),
    ("C10.2", C10_2_3, ["default"]),
    ("C10.4", C10_4, ["default"]),
    ("C10.5", C10_5, ["default"]),
    ("C10.6", C10_6, ["default"]),
]
