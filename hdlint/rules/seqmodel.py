"""Abstract model of a sequence (VecDeque / Vec) for decision tables over small lists.

`AbsPaths` evaluates MIR over a finite abstract domain; this module adds *raw oracles* that give std's sequence API a
meaning on small concrete-shaped lists of tagged elements, so that a function such as `SocketAddrs::sort_preferred` can be
evaluated for every list of families up to a bound and compared with its specification - whatever way the function is
written (index scan + remove + push_front, `position` closures, helper structs, loops over `[second, first]` ...).

Nothing of hyperdriver is executed: the interpreter walks the MIR facts, the only "library" semantics are the few lines
below for iter / enumerate / next / position / remove / push_front / push_back / pop_front / len / is_empty / get / zip.

Representation (all values are hashable tuples, part of the per-path abstract state):
  list contents      st[-id]            = ("list", (elem, elem, ...))
  list handle        ("seq", id)
  iterator           ("iterv", id, pos) | ("enum", iterator, count) | ("arr", (elems...), pos)
  element            ("const", "v4#0")  (family and original position)
"""
import re

from core import deref_value, AbsPaths, norm, _as_int

NONE = ("variant", "None", ())
ITERS = ("iterv", "itermut", "enum", "arr", "flat", "fromfn", "mapped", "filtered")


def some(v):
    return ("variant", "Some", ((0, v),))


def tup(*vs):
    return ("variant", "()", tuple((i, v) for i, v in enumerate(vs)))


def _deref(st, v, depth=8):
    return deref_value(st, v, depth)


def _list_of(st, v):
    v = _deref(st, v)
    if v is not None and v[0] == "seq":
        l = st.get(-v[1])
        if l is not None and l[0] == "list":
            return v[1], list(l[1])
    return None, None


def _set_dest(st, t, val):
    d = t["dest"]
    if d["p"] or val is None:
        st.pop(d["l"], None)
    else:
        st[d["l"]] = val
    return True


def _arg(ev, st, t, i):
    return ev._eval_operand(st, t["args"][i]) if i < len(t["args"]) else None


def _family(elem):
    e = elem
    while e is not None and e[0] in ("refval",):
        e = e[1]
    if e is not None and e[0] == "const" and isinstance(e[1], str):
        return "V4" if e[1].startswith("v4") else ("V6" if e[1].startswith("v6") else None)
    return None


def _const_value(ev, v):
    """The value of a crate-local `const` / `static` item (an array of header names, ...): its initialiser evaluated abstractly."""
    if v is None or v[0] != "const" or not isinstance(v[1], str):
        return v
    facts = ev.fn.facts
    body = facts.fns.get(v[1])
    if body is None or not str(body.d.get("kind")).startswith(("Const", "Static", "AssocConst")):
        return v
    if not hasattr(facts, "_const_values"):
        facts._const_values = {}
    if v[1] not in facts._const_values:
        try:
            outs = {x for (x, _) in AbsPaths(body, limit=2000, oracles=ev.oracle_specs, raw_oracles=ev.raw_specs).outcomes(state={})}
            facts._const_values[v[1]] = outs.pop() if len(outs) == 1 else None
        except AbsPaths.Undecided:
            facts._const_values[v[1]] = None
    return facts._const_values[v[1]] or v


def o_iter(ev, st, t, site):
    a = _arg(ev, st, t, 0)
    lid, lst = _list_of(st, a)
    if lid is None:
        v = _const_value(ev, _deref(st, a))
        if v is not None and v[0] == "variant" and v[1] == "[]":
            return _set_dest(st, t, ("arr", tuple(("refval", x) for _, x in v[2]), 0))
        return False
    # `iter_mut()`: the items designate the elements (a store through one lands in the list)
    return _set_dest(st, t, ("itermut" if norm(site.name).endswith("iter_mut") else "iterv", lid, 0))


def o_into_iter(ev, st, t, site):
    v = _const_value(ev, _deref(st, _arg(ev, st, t, 0)))
    if v is None:
        return False
    if v[0] in ITERS:
        return _set_dest(st, t, v)
    if v[0] == "seq":
        by_mut = re.match(r"^<&('\w+ )?mut ", site.name) is not None
        return _set_dest(st, t, ("itermut" if by_mut else "iterv", v[1], 0))
    if v[0] == "variant" and v[1] == "[]":
        return _set_dest(st, t, ("arr", tuple(x for _, x in v[2]), 0))
    return False


def o_enumerate(ev, st, t, site):
    v = _deref(st, _arg(ev, st, t, 0))
    if v is None or v[0] not in ("iterv", "arr"):
        return False
    return _set_dest(st, t, ("enum", v, 0))


def o_flatten(ev, st, t, site):
    v = _deref(st, _arg(ev, st, t, 0))
    if v is None or v[0] != "arr":
        return False
    return _set_dest(st, t, ("flat", v))


def _step(ev, st, it):
    """(item or None, new iterator) of one `next()`; item None means exhausted; returns (False, it) when unmodelled."""
    if it[0] == "iterv":
        l = st.get(-it[1])
        if l is None:
            return False, it
        if it[2] < len(l[1]):
            return ("refval", l[1][it[2]]), ("iterv", it[1], it[2] + 1)
        return None, it
    if it[0] == "itermut":
        l = st.get(-it[1])
        if l is None:
            return False, it
        if it[2] < len(l[1]):
            return ("elemref", it[1], it[2]), ("itermut", it[1], it[2] + 1)
        return None, it
    if it[0] == "arr":
        if it[2] < len(it[1]):
            return it[1][it[2]], ("arr", it[1], it[2] + 1)
        return None, it
    if it[0] == "enum":
        item, inner = _step(ev, st, it[1])
        if item is False:
            return False, it
        if item is None:
            return None, it
        return tup(("const", str(it[2])), item), ("enum", inner, it[2] + 1)
    if it[0] == "fromfn":
        r = _call_closure(ev, st, it[1], [])
        r = _deref(st, r)
        if r is None or r[0] != "variant" or r[1] not in ("Some", "None"):
            return False, it
        if r[1] == "None":
            return None, it
        return dict(r[2]).get(0), it
    if it[0] == "mapped":
        item, inner = _step(ev, st, it[1])
        if item is False:
            return False, it
        if item is None:
            return None, ("mapped", inner, it[2])
        r = _call_closure(ev, st, it[2], [item])
        if r is None:
            return False, it
        return r, ("mapped", inner, it[2])
    if it[0] == "filtered":
        cur = it[1]
        for _ in range(64):
            item, cur = _step(ev, st, cur)
            if item is False:
                return False, it
            if item is None:
                return None, ("filtered", cur, it[2])
            r = _call_closure(ev, st, it[2], [("refval", item)])
            if r is None or r[0] != "const" or r[1] not in ("true", "false"):
                return False, it
            if r[1] == "true":
                return item, ("filtered", cur, it[2])
        return False, it
    if it[0] == "flat":
        cur = it[1]
        while True:
            item, cur = _step(ev, st, cur)
            if item is False:
                return False, it
            if item is None:
                return None, ("flat", cur)
            x = _deref(st, item)
            if x is not None and x[0] == "variant" and x[1] == "Some":
                return dict(x[2]).get(0), ("flat", cur)
            if x is not None and x[0] == "variant" and x[1] == "None":
                continue
            return False, it
    return False, it


def o_next(ev, st, t, site):
    raw = _arg(ev, st, t, 0)
    if raw is None or raw[0] not in ("refmut", "ref"):
        return False
    it = st.get(raw[1])
    if it is None or it[0] not in ITERS:
        return False
    item, new = _step(ev, st, it)
    if item is False:
        return False
    st[raw[1]] = new
    return _set_dest(st, t, NONE if item is None else some(item))


def _call_closure(ev, st, closure_val, args):
    """Abstractly evaluate a closure value on argument values; returns the single result or None."""
    cv = _deref(st, closure_val)
    if cv is not None and cv[0] == "const" and isinstance(cv[1], str) and "::" in cv[1]:
        # a function item used as the callback (`.position(SocketAddr::is_ipv4)`): a call of that function on the arguments,
        # given its meaning by the same oracles as a direct call
        st2 = dict(st)
        ops = []
        for i, a in enumerate(args):
            st2[-999900 - i] = a
            ops.append({"c": {"l": -999900 - i, "p": []}})
        TMPD = -999899
        t = {"k": "call", "res": cv[1], "resa": cv[1], "decl": cv[1], "decla": cv[1], "resl": cv[1] in ev.fn.facts.fns, "resk": "item", "args": ops, "argtys": [],
             "dest": {"l": TMPD, "p": []}, "t": None, "u": None, "l": None}
        r = ev._call(st2, t)
        if isinstance(r, list):
            return None
        return st2.get(TMPD)
    if cv is None or cv[0] != "variant" or not str(cv[1]).startswith("{closure}:"):
        return None
    key = cv[1].split(":", 1)[1]
    facts = ev.fn.facts
    body = facts.fns.get(key)
    if body is None:
        return None
    # the closure body with every crate-local callee spliced in (its effects on captured lists must be visible)
    import inline
    if not hasattr(facts, "_closure_units"):
        facts._closure_units = {}
    pats = tuple(rx.pattern for rx, _ in ev.raw) + tuple(rx.pattern for rx, _ in ev.oracles)
    if (key, pats) not in facts._closure_units:
        def want(ck, raw):
            # callees an oracle gives a meaning to stay calls
            n = norm(ck)
            return "::_::" not in ck and not any(rx.search(n) or rx.search(ck) for rx, _ in ev.raw) and not any(rx.search(n) or rx.search(ck) for rx, _ in ev.oracles)
        facts._closure_units[(key, pats)] = inline.inline(facts, body, 3, want, expand=True)
    u = facts._closure_units[(key, pats)]
    env = cv
    if len(u.locals) > 1 and u.locals[1].startswith("&"):
        env = ("refval", cv)
    state = {1: env}
    for i, a in enumerate(args):
        state[2 + i] = a
    # captured references point into the caller's frame: resolve them to values
    def freeze(v, depth=4):
        if v is None or depth == 0:
            return v
        if v[0] in ("ref", "refmut"):
            return ("refval", freeze(st.get(v[1]), depth - 1))
        if v[0] == "refval":
            return ("refval", freeze(v[1], depth - 1))
        if v[0] in ("pref", "cellref") and v[0] == "pref":
            return ("refval", freeze(deref_value(st, v, 1), depth - 1))
        if v[0] == "variant":
            return ("variant", v[1], tuple((i, freeze(x, depth - 1)) for i, x in v[2]))
        return v
    state = {k: freeze(v) for k, v in state.items()}
    # the lists the closure may look at
    for k, v in st.items():
        if isinstance(k, int) and k < 0:
            state[k] = v
    sub = AbsPaths(u, limit=4000, oracles=ev.oracle_specs, raw_oracles=ev.raw_specs)
    heap = sorted(k for k in state if isinstance(k, int) and k < 0)
    outs = sub.outcomes(state=state, extra_keys=tuple(heap))
    if len(outs) != 1:
        return None
    (v, _, extras) = next(iter(outs)) if heap else (next(iter(outs)) + ((),))
    # the closure may have changed the lists it captured (e.g. `|| addresses.pop()`): carry the effect over
    for k, hv in zip(heap, extras):
        if hv is not None:
            st[k] = hv
    return v


def o_position(ev, st, t, site):
    raw = _arg(ev, st, t, 0)
    if raw is None or raw[0] not in ("refmut", "ref"):
        return False
    it = st.get(raw[1])
    clo = _arg(ev, st, t, 1)
    if it is None or it[0] not in ("iterv", "arr", "enum"):
        return False
    n = 0
    while True:
        item, it = _step(ev, st, it)
        if item is False:
            return False
        if item is None:
            st[raw[1]] = it
            return _set_dest(st, t, NONE)
        r = _call_closure(ev, st, clo, [item])
        if r is None or r[0] != "const" or r[1] not in ("true", "false"):
            return False
        if r[1] == "true":
            st[raw[1]] = it
            return _set_dest(st, t, some(("const", str(n))))
        n += 1


def o_version(ev, st, t, site):
    fam = _family(_deref(st, _arg(ev, st, t, 0)))
    if fam is None:
        return False
    return _set_dest(st, t, ("variant", fam, ()))


def o_is_ipv(ev, st, t, site):
    fam = _family(_deref(st, _arg(ev, st, t, 0)))
    if fam is None:
        return False
    want = "V4" if norm(site.name).endswith("is_ipv4") else "V6"
    return _set_dest(st, t, ("const", "true" if fam == want else "false"))


def o_remove(ev, st, t, site):
    lid, lst = _list_of(st, _arg(ev, st, t, 0))
    idx = _as_int(_deref(st, _arg(ev, st, t, 1)))
    if lid is None or idx is None:
        return False
    is_vec = "vec::Vec" in norm(site.name) and "VecDeque" not in norm(site.name)
    if idx < len(lst):
        e = lst.pop(idx)
        st[-lid] = ("list", tuple(lst))
        return _set_dest(st, t, e if is_vec else some(e))    # Vec::remove answers the element, VecDeque::remove an Option
    if is_vec:
        return False     # out of bounds: Vec::remove panics - not a path of the model
    return _set_dest(st, t, NONE)


def o_push_front(ev, st, t, site):
    lid, lst = _list_of(st, _arg(ev, st, t, 0))
    e = _deref(st, _arg(ev, st, t, 1))
    if lid is None or e is None:
        return False
    st[-lid] = ("list", tuple([e] + lst))
    return _set_dest(st, t, tup())


def o_push_back(ev, st, t, site):
    lid, lst = _list_of(st, _arg(ev, st, t, 0))
    e = _deref(st, _arg(ev, st, t, 1))
    if lid is None or e is None:
        return False
    st[-lid] = ("list", tuple(lst + [e]))
    return _set_dest(st, t, tup())


def o_pop_front(ev, st, t, site):
    lid, lst = _list_of(st, _arg(ev, st, t, 0))
    if lid is None:
        return False
    if lst:
        e = lst.pop(0)
        st[-lid] = ("list", tuple(lst))
        return _set_dest(st, t, some(e))
    return _set_dest(st, t, NONE)


def o_pop_back(ev, st, t, site):
    lid, lst = _list_of(st, _arg(ev, st, t, 0))
    if lid is None:
        return False
    if lst:
        e = lst.pop()
        st[-lid] = ("list", tuple(lst))
        return _set_dest(st, t, some(e))
    return _set_dest(st, t, NONE)


def o_clear(ev, st, t, site):
    lid, lst = _list_of(st, _arg(ev, st, t, 0))
    if lid is None:
        return False
    st[-lid] = ("list", ())
    return _set_dest(st, t, tup())


def o_insert(ev, st, t, site):
    lid, lst = _list_of(st, _arg(ev, st, t, 0))
    idx = _as_int(_deref(st, _arg(ev, st, t, 1)))
    e = _deref(st, _arg(ev, st, t, 2))
    if lid is None or idx is None or e is None or idx > len(lst):
        return False
    lst.insert(idx, e)
    st[-lid] = ("list", tuple(lst))
    return _set_dest(st, t, tup())


def o_retain(ev, st, t, site):
    lid, lst = _list_of(st, _arg(ev, st, t, 0))
    clo = _arg(ev, st, t, 1)
    if lid is None:
        return False
    keep = []
    for e in lst:
        r = _call_closure(ev, st, clo, [("refval", e)])
        if r is None or r[0] != "const" or r[1] not in ("true", "false"):
            return False
        if r[1] == "true":
            keep.append(e)
    st[-lid] = ("list", tuple(keep))
    return _set_dest(st, t, tup())


def o_get(ev, st, t, site):
    lid, lst = _list_of(st, _arg(ev, st, t, 0))
    idx = _as_int(_deref(st, _arg(ev, st, t, 1)))
    if lid is None or idx is None:
        return False
    return _set_dest(st, t, some(("refval", lst[idx])) if idx < len(lst) else NONE)


def o_extend(ev, st, t, site):
    """`list.extend(iter)`: the iterator is run to its end, every item appended in order."""
    lid, lst = _list_of(st, _arg(ev, st, t, 0))
    it = _deref(st, _arg(ev, st, t, 1))
    if lid is None or it is None:
        return False
    if it[0] == "seq":
        it = ("iterv", it[1], 0)
    elif it[0] == "variant" and it[1] == "[]":
        it = ("arr", tuple(x for _, x in it[2]), 0)
    if it[0] not in ITERS:
        return False
    for _ in range(64):
        item, it = _step(ev, st, it)
        if item is False:
            return False
        if item is None:
            return _set_dest(st, t, tup())
        _, lst = _list_of(st, ("seq", lid))
        st[-lid] = ("list", tuple(lst + [_deref(st, item) if item[0] in ("ref", "refmut") else item]))
    return False


def o_collect(ev, st, t, site):
    """`iter.collect()` into a list (Vec / VecDeque): the iterator is run to its end into a fresh list."""
    it = _const_value(ev, _deref(st, _arg(ev, st, t, 0)))
    if it is not None and it[0] == "seq":
        it = ("iterv", it[1], 0)
    if it is None or it[0] not in ITERS:
        return False
    try:
        ty = ev.fn.locals[t["dest"]["l"]]
    except Exception:
        ty = ""
    if not re.search(r"\b(Vec|VecDeque)<", ty) or re.search(r"^(std::result::Result|std::option::Option)<", ty):
        return False
    n = st.get(-1000)
    nid = (int(n[1]) if n else 100) + 1
    st[-1000] = ("const", str(nid))
    out = []
    for _ in range(64):
        item, it = _step(ev, st, it)
        if item is False:
            return False
        if item is None:
            st[-nid] = ("list", tuple(out))
            return _set_dest(st, t, ("seq", nid))
        out.append(_deref(st, item) if item[0] in ("ref", "refmut", "elemref") else item)
    return False


def _iter_arg(ev, st, t):
    raw = _arg(ev, st, t, 0)
    it = _const_value(ev, _deref(st, raw))
    if it is not None and it[0] == "seq":
        it = ("iterv", it[1], 0)
    if it is not None and it[0] == "variant" and it[1] == "[]":
        it = ("arr", tuple(x for _, x in it[2]), 0)
    return raw, (it if it is not None and it[0] in ITERS else None)


def o_filter(ev, st, t, site):
    raw, it = _iter_arg(ev, st, t)
    clo = _arg(ev, st, t, 1)
    if it is None or clo is None:
        return False
    return _set_dest(st, t, ("filtered", it, clo))


def _fold_bool(ev, st, t, stop_on):
    """`any` (stop_on = true) / `all` (stop_on = false): short-circuiting, the iterator is left where the scan stopped."""
    raw, it = _iter_arg(ev, st, t)
    clo = _arg(ev, st, t, 1)
    if it is None or clo is None:
        return False
    for _ in range(64):
        item, it = _step(ev, st, it)
        if item is False:
            return False
        if item is None:
            break
        r = _call_closure(ev, st, clo, [item])
        if r is None or r[0] != "const" or r[1] not in ("true", "false"):
            return False
        if (r[1] == "true") == stop_on:
            if raw is not None and raw[0] in ("ref", "refmut"):
                st[raw[1]] = it
            return _set_dest(st, t, ("const", "true" if stop_on else "false"))
    else:
        return False
    if raw is not None and raw[0] in ("ref", "refmut"):
        st[raw[1]] = it
    return _set_dest(st, t, ("const", "false" if stop_on else "true"))


def o_any(ev, st, t, site):
    return _fold_bool(ev, st, t, True)


def o_all(ev, st, t, site):
    return _fold_bool(ev, st, t, False)


def o_for_each(ev, st, t, site):
    raw, it = _iter_arg(ev, st, t)
    clo = _arg(ev, st, t, 1)
    if it is None or clo is None:
        return False
    for _ in range(64):
        item, it = _step(ev, st, it)
        if item is False:
            return False
        if item is None:
            return _set_dest(st, t, tup())
        _call_closure(ev, st, clo, [item])
    return False


def o_count(ev, st, t, site):
    raw, it = _iter_arg(ev, st, t)
    if it is None:
        return False
    n = 0
    for _ in range(64):
        item, it = _step(ev, st, it)
        if item is False:
            return False
        if item is None:
            return _set_dest(st, t, ("const", str(n)))
        n += 1
    return False


def o_unwrap(ev, st, t, site):
    a = _deref(st, _arg(ev, st, t, 0))
    if a is None or a[0] != "variant" or a[1] not in ("Some", "Ok"):
        return False
    return _set_dest(st, t, dict(a[2]).get(0))


def o_opt_take(ev, st, t, site):
    raw = _arg(ev, st, t, 0)
    v = _deref(st, raw)
    if raw is None or v is None or v[0] != "variant" or v[1] not in ("Some", "None"):
        return False
    if raw[0] == "refmut":
        st[raw[1]] = NONE
    elif raw[0] == "pref":
        ev._store(st, {"l": raw[1], "p": [{"f": f} for f in raw[2]]}, NONE)
    return _set_dest(st, t, v)


def o_vec_new(ev, st, t, site):
    n = st.get(-1000)
    nid = (int(n[1]) if n else 100) + 1
    st[-1000] = ("const", str(nid))
    st[-nid] = ("list", ())
    return _set_dest(st, t, ("seq", nid))


def o_opt_as_ref(ev, st, t, site):
    raw = _arg(ev, st, t, 0)
    v = _deref(st, raw)
    if v is None or v[0] != "variant" or v[1] not in ("Some", "None"):
        return False
    if v[1] == "None":
        return _set_dest(st, t, NONE)
    if raw is not None and re.search(r"as_mut$|as_deref_mut$|as_pin_mut$", norm(site.name)):
        # `opt.as_mut()`: a reference *into* the option - stores through it change the payload in place
        if raw[0] == "refmut":
            return _set_dest(st, t, some(("pref", raw[1], (0,))))
        if raw[0] == "pref":
            return _set_dest(st, t, some(("pref", raw[1], tuple(raw[2]) + (0,))))
    return _set_dest(st, t, some(("refval", dict(v[2]).get(0))))


def o_opt_cloned(ev, st, t, site):
    v = _deref(st, _arg(ev, st, t, 0))
    if v is None or v[0] != "variant" or v[1] not in ("Some", "None"):
        return False
    if v[1] == "None":
        return _set_dest(st, t, NONE)
    return _set_dest(st, t, some(_deref(st, dict(v[2]).get(0))))


def o_opt_pure(ev, st, t, site):
    """Closure-free Option combinators on values whose variant is known: or / and / xor / unwrap_or / is_some / is_none."""
    m = re.search(r"::(or|and|xor|unwrap_or|is_some|is_none)$", norm(site.name))
    a = _deref(st, _arg(ev, st, t, 0))
    if m is None or a is None or a[0] != "variant" or a[1] not in ("Some", "None"):
        return False
    op, sa = m.group(1), a[1] == "Some"
    if op in ("is_some", "is_none"):
        return _set_dest(st, t, ("const", "true" if sa == (op == "is_some") else "false"))
    b = _arg(ev, st, t, 1)
    if b is None:
        return False
    if op == "unwrap_or":
        return _set_dest(st, t, dict(a[2]).get(0) if sa else b)
    bv = _deref(st, b)
    if bv is None or bv[0] != "variant" or bv[1] not in ("Some", "None"):
        return False
    sb = bv[1] == "Some"
    if op == "or":
        return _set_dest(st, t, a if sa else bv)
    if op == "and":
        return _set_dest(st, t, bv if sa else NONE)
    return _set_dest(st, t, a if sa and not sb else (bv if sb and not sa else NONE))


OPTION_ORACLES = [
    (r"Option.*::(or|and|xor|unwrap_or|is_some|is_none)$", o_opt_pure),
    (r"Option.*::(cloned|copied)$", o_opt_cloned),
    (r"Option.*::(as_ref|as_mut|as_deref|as_deref_mut)$", o_opt_as_ref),
    (r"Option.*::(unwrap|expect)$|Result.*::(unwrap|expect)$", o_unwrap),
    (r"Option.*::take$", o_opt_take),
    (r"(vec::Vec|VecDeque).*::(new|with_capacity)$", o_vec_new),
]


def o_len(ev, st, t, site):
    lid, lst = _list_of(st, _arg(ev, st, t, 0))
    if lid is None:
        return False
    return _set_dest(st, t, ("const", str(len(lst))))


def o_is_empty(ev, st, t, site):
    lid, lst = _list_of(st, _arg(ev, st, t, 0))
    if lid is None:
        return False
    return _set_dest(st, t, ("const", "true" if not lst else "false"))


def o_zip(ev, st, t, site):
    a, b = _deref(st, _arg(ev, st, t, 0)), _deref(st, _arg(ev, st, t, 1))
    if a is None or b is None or a[0] != "variant" or b[0] != "variant":
        return False
    if a[1] == "Some" and b[1] == "Some":
        return _set_dest(st, t, some(tup(dict(a[2]).get(0), dict(b[2]).get(0))))
    return _set_dest(st, t, NONE)


SEQ = r"(VecDeque|Vec)(<.*>)?"
RAW_ORACLES = [
    (r"collections::VecDeque.*::iter(_mut)?$|vec::Vec.*::iter(_mut)?$|slice::<impl \[T\]>::iter(_mut)?$", o_iter),
    (r"IntoIterator.*::into_iter$", o_into_iter),
    (r"Iterator.*::enumerate$", o_enumerate),
    (r"Iterator.*::flatten$", o_flatten),
    (r"Iterator.*::next$", o_next),
    (r"Iterator.*::position$", o_position),
    (r"Iterator.*::filter$", o_filter),
    (r"Iterator.*::any$", o_any),
    (r"Iterator.*::all$", o_all),
    (r"Iterator.*::for_each$", o_for_each),
    (r"Iterator.*::count$", o_count),
    (r"Iterator.*::collect$|FromIterator.*::from_iter$", o_collect),
    (r"IpVersionExt.*::version$|dns::.*::version$", o_version),
    (r"SocketAddr::is_ipv[46]$|IpAddr::is_ipv[46]$", o_is_ipv),
    (r"VecDeque.*::remove$|Vec.*::remove$", o_remove),
    (r"VecDeque.*::push_front$", o_push_front),
    (r"VecDeque.*::push_back$|Vec.*::push$", o_push_back),
    (r"VecDeque.*::pop_front$", o_pop_front),
    (r"VecDeque.*::pop_back$|vec::Vec.*::pop$", o_pop_back),
    (r"VecDeque.*::clear$|vec::Vec.*::clear$", o_clear),
    (r"VecDeque.* as std::iter::Extend.*::extend$|Vec.* as std::iter::Extend.*::extend$", o_extend),
    (r"VecDeque.*::insert$|Vec.*::insert$", o_insert),
    (r"VecDeque.*::retain(_mut)?$|Vec.*::retain(_mut)?$", o_retain),
    (r"VecDeque.*::get$", o_get),
    (r"VecDeque.*::len$|Vec.*::len$", o_len),
    (r"VecDeque.*::is_empty$|Vec.*::is_empty$", o_is_empty),
    (r"Option.*::zip$", o_zip),
]


def expected_sort(families, prefer, tags=None):
    """Specification of sort_preferred on a list of family tags: the first address of each family moves to the front - the
    preferred family first (IPv6 first when there is no preference) -, everything else keeps its order.  `tags` gives the
    element values (equal tags = equal addresses occurring twice in the resolver's answer)."""
    elems = list(tags) if tags is not None else ["%s#%d" % (f.lower(), i) for i, f in enumerate(families)]
    i4 = next((i for i, f in enumerate(families) if f == "V4"), None)
    i6 = next((i for i, f in enumerate(families) if f == "V6"), None)
    order = [i4, i6] if prefer == "V4" else [i6, i4]
    front = [elems[i] for i in order if i is not None]
    rest = [e for i, e in enumerate(elems) if i not in (i4, i6)]
    return front + rest
