"""Decision tables for the pool's hand-back logic (`PoolInner::push`, `PoolInner::cancel_connection`): what happens to a released
or freshly connected connection, to the checkouts waiting for it, and to the idle list (P9 / P6: C02, C03, C04, C14, C15).

The pool's state is a value of the abstract evaluator: the waiter map, the idle map and the in-flight set are models of
`HashMap` / `HashSet` (mapmodel.py) whose values are sequences (seqmodel.py); a waiter is a tagged oneshot sender whose
receiver is alive, already gone, or dropped between the `is_closed` test and the `send`; a connection is shareable or
exclusive.  Every delivery is logged.  The (deliveries, queue left, idle list, in-flight set) reached by the code must be
exactly what the specification (`spec_push`) says - whatever containers, helper functions or loop forms the code uses."""
import itertools
import re

import inline
import mapmodel
import seqmodel
from core import AbsPaths, VALUE_EQ, INT_CMP, norm, deref_value
from seqmodel import NONE, some, tup, _arg, _deref, _set_dest

PUSH = "client::pool::PoolInner::push"
CANCEL = "client::pool::PoolInner::cancel_connection"
SELF = 9000
SET_C, MAP_W, MAP_I, Q, IDLE = 5, 6, 7, 20, 30
LOG = -81
TOKEN = ("variant", "Token", ((0, some(("const", "T1"))),))
OTHER = ("variant", "Token", ((0, some(("const", "T2"))),))


def _log(st, ev):
    l = st.get(LOG) or ("list", ())
    st[LOG] = ("list", l[1] + (("const", ev),))


def _tag(v):
    return v[1] if v is not None and v[0] == "const" and isinstance(v[1], str) else None


def o_is_closed(ev, st, t, site):
    tg = _tag(_deref(st, _arg(ev, st, t, 0)))
    if tg is None or not tg.startswith("tx:"):
        return False
    return _set_dest(st, t, ("const", "true" if tg.startswith("tx:closed") else "false"))


def _describe(st, v):
    """A delivered `Pooled`: (connection tag, zero / own token)."""
    v = deref_value(st, v)
    if v is None or v[0] != "variant":
        return "?"
    conn, tok = "?", "?"
    for _, x in v[2]:
        x = deref_value(st, x)
        if x is None:
            continue
        if x[0] == "variant" and x[1] == "Some" and _tag(dict(x[2]).get(0)) and _tag(dict(x[2]).get(0)).startswith(("conn:", "clone-of:")):
            conn = _tag(dict(x[2]).get(0))
        if x[0] == "variant" and x[1] == "Token":
            inner = dict(x[2]).get(0)
            tok = "zero" if inner is not None and inner[0] == "variant" and inner[1] == "None" else ("own" if x == TOKEN else "other")
    return "%s/%s" % (conn, tok)


def o_send(ev, st, t, site):
    tg = _tag(_deref(st, _arg(ev, st, t, 0)))
    val = _arg(ev, st, t, 1)
    if tg is None or not tg.startswith("tx:"):
        return False
    if tg.startswith("tx:alive"):
        _log(st, "deliver:%s:%s" % (tg, _describe(st, val)))
        return _set_dest(st, t, ("variant", "Ok", ((0, tup()),)))
    _log(st, "bounce:%s" % tg)
    return _set_dest(st, t, ("variant", "Err", ((0, deref_value(st, val)),)))


def o_reuse(ev, st, t, site):
    tg = _tag(_deref(st, _arg(ev, st, t, 0)))
    if tg is None or not tg.startswith("conn:"):
        return False
    return _set_dest(st, t, some(("const", "clone-of:" + tg)) if "shareable" in tg else NONE)


def o_can_share(ev, st, t, site):
    tg = _tag(_deref(st, _arg(ev, st, t, 0)))
    if tg is None or not tg.startswith(("conn:", "clone-of:")):
        return False
    return _set_dest(st, t, ("const", "true" if "shareable" in tg else "false"))


def o_const(name):
    def f(ev, st, t, site):
        return _set_dest(st, t, ("const", name))
    return f


RAW = [(r"oneshot::Sender.*::is_closed$", o_is_closed), (r"oneshot::Sender.*::send$", o_send),
       (r"PoolableConnection.*::reuse$", o_reuse), (r"PoolableConnection.*::can_share$", o_can_share),
       (r"PoolableConnection.*::is_open$", o_const("true")), (r"Instant::now$", o_const("NOW")),
       (r"PoolRef.* as std::clone::Clone.*::clone$|WeakOpt.*::clone$|Option.* as std::clone::Clone.*::clone$", o_const("POOLREF"))] \
    + mapmodel.RAW + seqmodel.OPTION_ORACLES + seqmodel.RAW_ORACLES


def unit_of(facts, name):
    if not hasattr(facts, "_pool_units_full"):
        facts._pool_units_full = {}
    if name not in facts._pool_units_full:
        pats = [re.compile(p) for p, _ in RAW]
        facts._pool_units_full[name] = inline.inline(facts, facts.fn(name), 4, lambda ck, raw: "::_::" not in ck and not any(rx.search(norm(ck)) for rx in pats), expand=True)
    return facts._pool_units_full[name]


def layout(facts):
    adt = facts.adt("client::pool::PoolInner")
    fl = adt["variants"][0]["fields"]
    wi = [i for i, x in enumerate(fl) if re.search(r"HashMap<.*Token, .*(VecDeque|vec::Vec)<", x["ty"]) and "IdleConnections<" not in x["ty"]]
    ii = [i for i, x in enumerate(fl) if re.search(r"HashMap<.*Token, .*IdleConnections<", x["ty"])]
    ci = [i for i, x in enumerate(fl) if re.search(r"HashSet<.*Token>", x["ty"])]
    gi = [i for i, x in enumerate(fl) if x["ty"].endswith("pool::Config")]
    if not (len(wi) == len(ii) == len(ci) == len(gi) == 1):
        raise KeyError("PoolInner fields (waiter map, idle map, in-flight set, config) not identified by type: %s" % [x["ty"][:60] for x in fl])
    cfg = facts.adt("client::pool::Config")
    mi = [i for i, x in enumerate(cfg["variants"][0]["fields"]) if x["name"] == "max_idle_per_host" or x["ty"] == "usize"]
    if len(mi) != 1:
        raise KeyError("Config has no single usize bound")
    # element type of the waiter queue: a (Sender, bool) tuple, or a private struct with a Sender and a bool
    ety = fl[wi[0]]["ty"]
    m = re.search(r"(?:VecDeque|Vec)<(.*)>>\s*$", ety)
    elem = m.group(1).rstrip(">").strip() if m else ""
    idl = facts.adt("client::pool::idle::IdleConnections")
    il = [i for i, x in enumerate(idl["variants"][0]["fields"]) if re.search(r"(Vec|VecDeque)<", x["ty"])]
    ent = facts.adt("client::pool::idle::Idle")
    ei = [i for i, x in enumerate(ent["variants"][0]["fields"]) if not x["ty"].endswith("Instant")]
    ea = [i for i, x in enumerate(ent["variants"][0]["fields"]) if x["ty"].endswith("Instant")]
    return dict(w=wi[0], i=ii[0], c=ci[0], g=gi[0], max=mi[0], elem=ety, il=il[0], ei=ei[0], ea=ea[0], cfg=cfg)


def _subst(v, old, new):
    if v is None:
        return v
    if v[0] == "const":
        return ("const", new) if v[1] == old else v
    if v[0] == "refval":
        return ("refval", _subst(v[1], old, new))
    if v[0] == "variant":
        return ("variant", v[1], tuple((i, _subst(x, old, new)) for i, x in v[2]))
    return v


def waiter_shapes(facts, lay):
    """What `Pool::checkout` registers for a dependant / for a checkout with a dial of its own: read off the code itself, so
    that the tables do not depend on how a queued waiter is represented (tuple, struct, role enum)."""
    if hasattr(facts, "_waiter_shapes"):
        return facts._waiter_shapes
    shapes = {}
    try:
        for dep in (True, False):
            lay2 = dict(lay, _no_shapes=True)
            u, outs = evaluate_checkout(facts, lay2, False, dep, False, True)
            qs = {o[2][0][0] for o in outs}
            if len(qs) == 1:
                q = next(iter(qs))
                if q is not None and len(q) == 1 and _contains(q[0], "tx:NEW"):
                    shapes[dep] = q[0]
    except Exception:
        shapes = {}
    facts._waiter_shapes = shapes if len(shapes) == 2 and shapes[True] != shapes[False] else None
    return facts._waiter_shapes


def waiter_value(facts, lay, tag, dependent):
    if not lay.get("_no_shapes"):
        sh = waiter_shapes(facts, lay)
        if sh:
            return _subst(sh[dependent], "tx:NEW", tag)
    ety = lay["elem"]
    tx = ("const", tag)
    flag = ("const", "true" if dependent else "false")
    m = re.search(r"<\((.*Sender<.*), bool\)", ety)
    if m or re.search(r"\(tokio::sync::oneshot::Sender<", ety):
        return tup(tx, flag)
    # a private struct: find it among the crate's ADTs by its fields
    for path, a in facts.adts.items():
        if not path.startswith("client::pool") or len(a["variants"]) != 1:
            continue
        fs = a["variants"][0]["fields"]
        si = [i for i, x in enumerate(fs) if "oneshot::Sender<" in x["ty"]]
        bi = [i for i, x in enumerate(fs) if x["ty"] == "bool"]
        if len(si) == 1 and len(bi) == 1 and len(fs) == 2 and path.split("::")[-1] in ety:
            return ("variant", path.split("::")[-1], tuple(sorted(((si[0], tx), (bi[0], flag)))))
    return None


def initial_state(facts, lay, waiters, idle_n, max_idle, connecting, have_queue=True, have_idle=True):
    cfgf = {i: ("const", "CFG_" + x["name"]) for i, x in enumerate(lay["cfg"]["variants"][0]["fields"])}
    cfgf[lay["max"]] = ("const", str(max_idle))
    fields = {lay["g"]: ("variant", "Config", tuple(sorted(cfgf.items()))), lay["c"]: ("set", SET_C), lay["w"]: ("map", MAP_W), lay["i"]: ("map", MAP_I)}
    ws = []
    for i, (kind, dep) in enumerate(waiters):
        w = waiter_value(facts, lay, "tx:%s#%d" % (kind, i), dep)
        if w is None:
            raise KeyError("the element type of the waiter queue is not (Sender, bool) or a struct of a Sender and a bool: %s" % lay["elem"][:120])
        ws.append(w)
    idle_entries = tuple(("variant", "Idle", tuple(sorted(((lay["ea"], ("const", "AT#%d" % k)), (lay["ei"], ("const", "idle#%d" % k)))))) for k in range(idle_n))
    st = {SELF: ("variant", "PoolInner", tuple(sorted(fields.items()))), 1: ("refmut", SELF), 2: TOKEN,
          -SET_C: ("list", ((TOKEN,) if connecting else ()) + (OTHER,)),
          -MAP_W: ("list", (((TOKEN, ("seq", Q)),) if have_queue else ()) + ((OTHER, ("seq", Q + 1)),)),
          -Q: ("list", tuple(ws)), -(Q + 1): ("list", ()),
          -MAP_I: ("list", (((TOKEN, ("variant", "IdleConnections", ((lay["il"], ("seq", IDLE)),))),) if have_idle else ())),
          -IDLE: ("list", idle_entries), LOG: ("list", ()), -1000: ("const", "100")}
    return st


def observe(lay):
    def f(st):
        def tags(lst):
            out = []
            for e in (lst or ("list", ()))[1]:
                e = deref_value(st, e)
                if e is not None and e[0] == "variant":
                    ts = [_tag(deref_value(st, x)) for _, x in e[2]]
                    ts = [x for x in ts if x and x.startswith(("tx:", "idle#", "conn:", "clone-of:"))]
                    out.append(ts[0] if ts else "?")
                else:
                    out.append(_tag(e) or "?")
            return tuple(out)
        wm = dict((k, v) for k, v in (st.get(-MAP_W) or ("list", ()))[1])
        q = wm.get(TOKEN)
        # a token without a queue and a token with an empty queue are the same state (nobody waits)
        queue = tags(st.get(-q[1])) if q is not None and q[0] == "seq" else ()
        im = dict((k, v) for k, v in (st.get(-MAP_I) or ("list", ()))[1])
        iv = im.get(TOKEN)
        idle = None
        if iv is not None and iv[0] == "variant":
            h = dict(iv[2]).get(lay["il"])
            idle = tags(st.get(-h[1])) if h is not None and h[0] == "seq" else ("?",)
        log = tuple(e[1] for e in (st.get(LOG) or ("list", ()))[1])
        inflight = TOKEN in (st.get(-SET_C) or ("list", ()))[1]
        return (log, queue, idle, inflight)
    return f


def spec_push(waiters, conn, idle_n, max_idle, have_queue, have_idle):
    log = []
    queue = ["tx:%s#%d" % (k, i) for i, (k, d) in enumerate(waiters)] if have_queue else None
    shareable = "shareable" in conn
    delivered_exclusive = False
    if queue is not None:
        while queue:
            w = queue.pop(0)
            if w.startswith("tx:closed"):
                continue
            if shareable:
                if w.startswith("tx:alive"):
                    log.append("deliver:%s:clone-of:%s/zero" % (w, conn))
                else:
                    log.append("bounce:%s" % w)
            else:
                if w.startswith("tx:alive"):
                    log.append("deliver:%s:%s/own" % (w, conn))
                    delivered_exclusive = True
                    break
                log.append("bounce:%s" % w)
    idle = ["idle#%d" % k for k in range(idle_n)] if have_idle else None
    if not delivered_exclusive:
        if idle is None:
            idle = []
        if len(idle) < max_idle:
            idle.append(conn)
    return (tuple(log), tuple(queue) if queue is not None else (), tuple(idle) if idle is not None else None, False)


def push_table(ctx, facts, label="PoolInner::push", fn_name=None):
    """`fn_name`: another hand-back entrance with push's signature (token, connection, pool reference) - it must behave as push."""
    try:
        lay = layout(facts)
    except KeyError as e:
        return ctx.missing("%s|layout" % label, str(e))
    u = unit_of(facts, fn_name or PUSH)
    ctx.touched(u)
    kinds = [("alive", False), ("closed", False), ("race", True)]
    scen = []
    for L in range(0, 3):
        for ws in itertools.product(kinds, repeat=L):
            for conn in ("conn:shareable", "conn:exclusive"):
                for (idle_n, have_idle) in ((0, True), (1, True), (0, False)):
                    scen.append((ws, conn, idle_n, True, have_idle))
    scen.append(((), "conn:exclusive", 0, False, True))
    scen.append(((), "conn:shareable", 1, False, False))
    # the bound is the configured one, not a constant: the same lists under max_idle_per_host = 2
    scen2 = [((), conn, idle_n, True, True) for conn in ("conn:shareable", "conn:exclusive") for idle_n in (1, 2)]
    rows = 0
    obs = observe(lay)
    for (ws, conn, idle_n, have_queue, have_idle) in scen + scen2:
        mx = 2 if (ws, conn, idle_n, have_queue, have_idle) in scen2 and idle_n in (1, 2) and rows >= len(scen) else 1
        key = "%s|table|waiters=%s|%s|idle=%s%s" % (label, ",".join(k for k, _ in ws) or ("-" if have_queue else "no-queue"), conn.split(":")[1], idle_n if have_idle else "no-list", "|max=2" if mx == 2 else "")
        try:
            st = initial_state(facts, lay, ws, idle_n, mx, True, have_queue, have_idle)
        except KeyError as e:
            return ctx.missing("%s|waiter-type" % label, str(e))
        st[3] = ("const", conn)
        st[4] = ("const", "POOLREF")
        try:
            outs = AbsPaths(u, limit=40000, raw_oracles=RAW, oracles=[INT_CMP, VALUE_EQ]).outcomes(state=st, extra_keys=(obs,))
        except AbsPaths.Undecided as e:
            ctx.undecided(key, str(e))
            continue
        rows += 1
        got = {o[2][0] for o in outs}
        want = spec_push(ws, conn, idle_n, mx, have_queue, have_idle)
        ok = got == {want}
        ctx.check(ok, key, "waiters [%s], a %s connection, %s idle: closed waiters are skipped, a shareable connection is cloned to every live waiter and then parked, an exclusive one goes to the first live waiter (the others stay queued) or is parked within the bound; the in-flight marker is cleared"
                  % (", ".join(k for k, _ in ws), conn.split(":")[1], idle_n if have_idle else "no list of"),
                  "the hand-back can end with (deliveries, queue left, idle list, marker still set) = %s; expected %s" % (sorted(map(str, got))[:2], want), u.where())
    ctx.floor("%s|table-rows" % label, rows, len(scen) + len(scen2), "scenarios evaluated")


def spec_cancel(waiters, connecting, have_queue):
    queue = [("tx:%s#%d" % (k, i), d) for i, (k, d) in enumerate(waiters)] if have_queue else None
    if connecting and queue is not None:
        queue = [(w, d) for (w, d) in queue if not d]
    return ((), tuple(w for w, _ in queue) if queue is not None else (), (), False)


def cancel_table(ctx, facts, label="PoolInner::cancel_connection"):
    """cancel_connection(token): the in-flight marker is cleared; if it was set, exactly the checkouts that depended on the
    cancelled attempt leave the queue (their senders are dropped, they resolve with an error instead of waiting forever),
    the others keep their place; if it was not set, nothing changes."""
    try:
        lay = layout(facts)
    except KeyError as e:
        return ctx.missing("%s|layout" % label, str(e))
    u = unit_of(facts, CANCEL)
    ctx.touched(u)
    obs = observe(lay)
    kinds = [("alive", True), ("alive", False)]
    rows = 0
    scen = [(ws, c, True) for L in range(0, 4) for ws in itertools.product(kinds, repeat=L) for c in (True, False)] + [((), True, False), ((), False, False)]
    for (ws, connecting, have_queue) in scen:
        key = "%s|table|marker=%s|waiters=%s" % (label, "set" if connecting else "unset", ",".join("dependent" if d else "own-dial" for _, d in ws) or ("-" if have_queue else "no-queue"))
        try:
            st = initial_state(facts, lay, ws, 0, 1, connecting, have_queue, True)
        except KeyError as e:
            return ctx.missing("%s|waiter-type" % label, str(e))
        try:
            outs = AbsPaths(u, limit=20000, raw_oracles=RAW, oracles=[INT_CMP, VALUE_EQ]).outcomes(state=st, extra_keys=(obs,))
        except AbsPaths.Undecided as e:
            ctx.undecided(key, str(e))
            continue
        rows += 1
        got = {o[2][0] for o in outs}
        want = spec_cancel(ws, connecting, have_queue)
        ctx.check(got == {want}, key, "marker %s, queue [%s]: the marker is cleared and exactly the dependants of a cancelled attempt are released" % ("set" if connecting else "not set", ", ".join("dependent" if d else "own-dial" for _, d in ws)),
                  "cancel_connection can end with (deliveries, queue left, idle, marker still set) = %s; expected %s" % (sorted(map(str, got))[:2], want), u.where())
    ctx.floor("%s|table-rows" % label, rows, len(scen), "scenarios evaluated")


# ---------------------------------------------------------------------------------------------------------------------------
# Pool::checkout (with Checkout::new spliced in): which kind of checkout a request gets, and what it registers

CHECKOUT = "client::pool::Pool::checkout"


def _checkout_unit(facts):
    if not hasattr(facts, "_checkout_unit"):
        OPAQUE = r"PoolInner::pop$|TokenMap::insert$|Pool::as_ref$|ConnectorMeta::new$|CheckoutId::new$"
        pats = [re.compile(p) for p, _ in RAW]
        facts._checkout_unit = inline.inline(facts, facts.fn(CHECKOUT), 4, lambda ck, raw: "::_::" not in ck and not re.search(OPAQUE, norm(ck)) and not any(rx.search(norm(ck)) for rx in pats), expand=True)
    return facts._checkout_unit


def evaluate_checkout(facts, lay, popped, marker, multiplex, cap, queue=()):
    u = _checkout_unit(facts)

    def o_lock(ev, st, t, site):
        ty = " ".join(t.get("argtys") or [])
        if "PoolInner<" in ty:
            return _set_dest(st, t, ("refmut", SELF))
        if "TokenMap<" in ty:
            return _set_dest(st, t, ("const", "KEYS_GUARD"))
        return False

    def o_deref(ev, st, t, site):
        a = _arg(ev, st, t, 0)
        v = deref_value(st, a, hops=1) if a is not None and a[0] in ("ref", "refmut", "refval") else a
        # a guard / Arc dereferences to what it guards: our guards *are* references to the guarded value
        if v is not None and v[0] in ("refmut", "ref", "const"):
            return _set_dest(st, t, v)
        if a is not None and a[0] in ("refmut", "ref"):
            return _set_dest(st, t, a)
        return False
    raw = [(r"Mutex.*::lock$", o_lock), (r"Deref(Mut)?.*::deref(_mut)?$", o_deref),
           (r"TokenMap.*::insert$", lambda ev, st, t, site: _set_dest(st, t, TOKEN)),
           (r"oneshot::channel$", lambda ev, st, t, site: _set_dest(st, t, tup(("const", "tx:NEW"), ("const", "RX")))),
           (r"PoolInner.*::pop$", lambda ev, st, t, site: _set_dest(st, t, some(("const", "conn:idle")) if popped else NONE)),
           (r"Pool.*::as_ref$", o_const("POOLREF")), (r"ConnectorMeta::new$", o_const("META")), (r"CheckoutId::new$", o_const("ID")),
           (r"Box.*::pin$|Box.*::new$", lambda ev, st, t, site: _set_dest(st, t, _deref(st, _arg(ev, st, t, 0))))] + RAW
    st = initial_state(facts, lay, queue, 0, 1, marker, True, True)
    # config: the pre-emption switch
    this = st[SELF]
    f = dict(this[2])
    cfg = dict(f[lay["g"]][2])
    ci = [i for i, x in enumerate(lay["cfg"]["variants"][0]["fields"]) if x["ty"] == "bool"]
    if len(ci) == 1:
        cfg[ci[0]] = ("const", "true" if cap else "false")
    f[lay["g"]] = ("variant", "Config", tuple(sorted(cfg.items())))
    st[SELF] = ("variant", this[1], tuple(sorted(f.items())))
    st[1] = ("const", "POOL")
    st[2] = ("const", "KEY")
    st[3] = ("const", "true" if multiplex else "false")
    st[4] = ("const", "CONNECTOR")

    def obs(s_):
        wm = dict((k, v) for k, v in (s_.get(-MAP_W) or ("list", ()))[1])
        q = wm.get(TOKEN)
        elems = s_.get(-q[1])[1] if q is not None and q[0] == "seq" and s_.get(-q[1]) is not None else None
        inflight = TOKEN in (s_.get(-SET_C) or ("list", ()))[1]
        return (elems, inflight)
    outs = AbsPaths(u, limit=40000, raw_oracles=raw, oracles=[INT_CMP, VALUE_EQ]).outcomes(state=st, extra_keys=(obs,))
    return u, outs


def _contains(v, tag, depth=8):
    if v is None or depth == 0:
        return False
    if v[0] == "const":
        return v[1] == tag
    if v[0] == "refval":
        return _contains(v[1], tag, depth - 1)
    if v[0] == "variant":
        return any(_contains(x, tag, depth - 1) for _, x in v[2])
    return False


def describe_checkout(facts, rv):
    """(state of the attempt, does it hold the connector, waiter mode, connection held) of a Checkout value."""
    if rv is None or rv[0] != "variant":
        return ("?",)
    adt = facts.adt("client::pool::checkout::Checkout")
    fl = adt["variants"][0]["fields"]
    out = {}
    for i, x in enumerate(fl):
        v = dict(rv[2]).get(i)
        if "InnerCheckoutConnecting" in x["ty"]:
            out["attempt"] = (v[1] if v is not None and v[0] == "variant" else "?", _contains(v, "CONNECTOR"))
        elif x["ty"].endswith("Waiting") or "checkout::Waiting<" in x["ty"]:
            out["waiter"] = (v[1] if v is not None and v[0] == "variant" else "?", _contains(v, "RX"))
        elif x["ty"].startswith("std::option::Option<") and "Connection" in x["ty"]:
            out["conn"] = "conn:idle" if _contains(v, "conn:idle") else ("None" if v is not None and v[0] == "variant" and v[1] == "None" else "?")
        elif x["ty"].endswith("key::Token"):
            out["token"] = "own" if v == TOKEN else "?"
    return (out.get("attempt"), out.get("waiter"), out.get("conn"), out.get("token"))


def checkout_table(ctx, facts, label="Pool::checkout"):
    """idle hit -> a finished checkout holding that connection, nothing registered; in-flight attempt for the origin -> a pure
    waiter registered as its dependant, the connector given up; otherwise -> a dialing checkout that owns the connector
    (kept alive across a drop iff the pool is configured to continue after pre-emption), registered as a waiter of its own,
    and - for a multiplexing request - the origin's in-flight marker is set."""
    try:
        lay = layout(facts)
    except KeyError as e:
        return ctx.missing("%s|layout" % label, str(e))
    rows = 0
    ctx.check(waiter_shapes(facts, lay) is not None, "%s|registrations-distinguishable" % label,
              "what a dependant registers differs from what a checkout with its own dial registers (cancel_connection can tell them apart)",
              "the registrations of a dependant and of a dialing checkout could not be read off / are identical")
    # registrations go to the back of the origin's queue, earlier ones keep their place
    for marker in (True, False):
        key = "%s|table|appends-at-back|marker-%s" % (label, "set" if marker else "unset")
        try:
            u, outs = evaluate_checkout(facts, lay, False, marker, False, True, queue=(("alive", False), ("alive", True)))
            qs = {tuple("new" if _contains(e, "tx:NEW") else ("old#0" if _contains(e, "tx:alive#0") else ("old#1" if _contains(e, "tx:alive#1") else "?")) for e in (o[2][0][0] or ())) for o in outs}
            ctx.check(qs == {("old#0", "old#1", "new")}, key, "a new waiter is appended behind the ones already queued", "the queue afterwards is %s, expected [old#0, old#1, new]" % sorted(qs), u.where())
        except (AbsPaths.Undecided, KeyError) as e:
            ctx.undecided(key, str(e))
    for popped in (True, False):
        for marker in (True, False):
            for multiplex in (True, False):
                for cap in (True, False):
                    key = "%s|table|idle-%s|marker-%s|multiplex=%s|continue-after-preemption=%s" % (label, "hit" if popped else "miss", "set" if marker else "unset", multiplex, cap)
                    try:
                        u, outs = evaluate_checkout(facts, lay, popped, marker, multiplex, cap)
                    except AbsPaths.Undecided as e:
                        ctx.undecided(key, str(e))
                        continue
                    except KeyError as e:
                        return ctx.missing("%s|waiter-type" % label, str(e))
                    if rows == 0:
                        ctx.touched(u)
                    rows += 1
                    got = set()
                    for (rv, _, ((elems, inflight),)) in outs:
                        reg = None
                        sh = waiter_shapes(facts, lay) or {}
                        if elems is not None:
                            reg = tuple(("new" if _contains(e, "tx:NEW") else "?") + ":" + ("dependent" if e == sh.get(True) else ("own" if e == sh.get(False) else "?")) for e in elems)
                        got.add((describe_checkout(facts, rv), reg, inflight))
                    if popped:
                        want = {((("Connected", False), ("Idle", True), "conn:idle", "own"), (), marker)}
                        good = "an idle connection is handed over at once: nothing is registered, no dial"
                    elif marker:
                        want = {((("Waiting", False), ("Connecting", True), "None", "own"), ("new:dependent",), True)}
                        good = "an attempt is in flight for the origin: the request waits for it (registered as its dependant), it does not dial"
                    else:
                        att = "ConnectingWithDelayDrop" if cap else "Connecting"
                        want = {(((att, True), ("Idle", True), "None", "own"), ("new:own",), bool(multiplex))}
                        good = "the request dials (owning its connector%s) and registers as a waiter of its own%s" % (", kept alive across a drop" if cap else "", "; the origin is marked as having an attempt in flight" if multiplex else "")
                    ctx.check(got == want, key, good,
                              "Pool::checkout can end with (checkout [attempt, waiter, connection, token], registered, marker set) = %s; expected %s" % (sorted(map(str, got))[:2], sorted(map(str, want))), u.where())
    ctx.floor("%s|table-rows" % label, rows, 16, "scenarios evaluated")


# ---------------------------------------------------------------------------------------------------------------------------
# the pinned drop of a Checkout: what a cancelled request leaves behind

def _drop_fn(facts):
    for k, g in facts.fns.items():
        if k.endswith("PinnedDrop>::drop::__drop_inner") and "checkout::Checkout<" in k:
            return g
    for k, g in facts.fns.items():
        if k.endswith("PinnedDrop>::drop") and "checkout::Checkout<" in k:
            return g
    raise KeyError("pinned drop of Checkout not found")


def evaluate_drop(facts, attempt, conn, lock, waiter="Idle"):
    fn = _drop_fn(facts)
    if not hasattr(facts, "_drop_unit"):
        OPAQUE = r"PoolRef::lock$|PoolInner::(push|cancel_connection)$|ConnectorMeta::new$|CheckoutId::new$"
        pats = [re.compile(p) for p, _ in RAW]
        facts._drop_unit = inline.inline(facts, fn, 4, lambda ck, raw: "::_::" not in ck and not re.search(OPAQUE, norm(ck)) and not any(rx.search(norm(ck)) for rx in pats), expand=True)
    u = facts._drop_unit
    adt = facts.adt("client::pool::checkout::Checkout")
    fl = adt["variants"][0]["fields"]
    CK, POOLSELF = 9200, 9300
    fields = {}
    for i, x in enumerate(fl):
        t = x["ty"]
        if "InnerCheckoutConnecting" in t:
            fields[i] = attempt
        elif t.endswith("Waiting") or "checkout::Waiting<" in t:
            fields[i] = ("variant", waiter, ((0, ("const", "RX")),)) if waiter != "NoPool" else ("variant", "NoPool", ())
        elif t.startswith("std::option::Option<") and "Connection" in t:
            fields[i] = NONE if conn is None else some(("const", conn))
        elif t.endswith("key::Token"):
            fields[i] = TOKEN
        elif "PoolRef<" in t:
            fields[i] = ("const", "POOLREF")
        else:
            fields[i] = ("const", "FIELD_" + x["name"])
    st = {1: ("refmut", CK), CK: ("variant", "Checkout", tuple(sorted(fields.items()))), LOG: ("list", ())}

    def locof(v):
        """(location, path) a pinned / mutable reference designates."""
        if v is None:
            return None
        if v[0] in ("refmut", "ref"):
            return v[1], ()
        if v[0] == "pref":
            return v[1], tuple(v[2])
        return None

    def o_pin_same(ev, st_, t, site):
        a = _arg(ev, st_, t, 0)
        if a is None:
            return False
        # `&mut Pin<&mut T>` / `&Pin<..>`: one level down sits the pinned reference itself
        inner = deref_value(st_, a, hops=1) if a[0] in ("ref", "refmut", "pref", "refval") else None
        if inner is not None and inner[0] in ("refmut", "ref", "pref"):
            return _set_dest(st_, t, inner)
        return _set_dest(st_, t, a)

    def o_project(ev, st_, t, site):
        a = _arg(ev, st_, t, 0)
        lp = locof(a)
        v = deref_value(st_, a)
        if lp is None or v is None or v[0] != "variant":
            return False
        loc, path = lp
        return _set_dest(st_, t, ("variant", v[1] if v[1] != "Checkout" else "__CheckoutProjection", tuple((i, ("pref", loc, path + (i,))) for i, _ in v[2])))

    def o_lock(ev, st_, t, site):
        return _set_dest(st_, t, some(("variant", "PoolGuard", ((0, ("refmut", POOLSELF)),))) if lock else NONE)

    def o_guard(ev, st_, t, site):
        a = _arg(ev, st_, t, 0)
        v = deref_value(st_, a, hops=1) if a is not None and a[0] in ("ref", "refmut", "pref", "refval") else a
        if v is not None and v[0] == "variant" and v[1] == "PoolGuard":
            v = dict(v[2]).get(0)
        if v is not None and v[0] in ("refmut", "ref"):
            return _set_dest(st_, t, v)
        return False

    def tok(v):
        v = deref_value(st, v) if False else v
        return "own" if v == TOKEN else "?"

    def o_push(ev, st_, t, site):
        c = deref_value(st_, _arg(ev, st_, t, 2))
        _log(st_, "handback:%s/%s" % (_tag(c) or "?", "own" if deref_value(st_, _arg(ev, st_, t, 1)) == TOKEN else "?"))
        return _set_dest(st_, t, tup())

    def o_cancel(ev, st_, t, site):
        _log(st_, "cancel:%s" % ("own" if deref_value(st_, _arg(ev, st_, t, 1)) == TOKEN else "?"))
        return _set_dest(st_, t, tup())

    def find_checkout(v, depth=8):
        if v is None or depth == 0:
            return None
        if v[0] == "refval":
            return find_checkout(v[1], depth - 1)
        if v[0] == "variant":
            if v[1] == "Checkout":
                return v
            for _, x in v[2]:
                r = find_checkout(x, depth - 1)
                if r is not None:
                    return r
        return None

    def o_spawn(ev, st_, t, site):
        fut = deref_value(st_, _arg(ev, st_, t, 0))
        ck = find_checkout(fut)
        if ck is None:
            _log(st_, "spawn:?")
        else:
            d = describe_checkout(facts, ck)
            pool_same = any(x == ("const", "POOLREF") for _, x in ck[2])
            _log(st_, "spawn:%s%s/%s/%s/%s" % (d[0][0] if d[0] else "?", "+connector" if d[0] and d[0][1] else "", d[1][0] if d[1] else "?", d[3], "same-pool" if pool_same else "other-pool"))
        return _set_dest(st_, t, ("const", "JOIN_HANDLE"))

    def o_is_open(ev, st_, t, site):
        tg = _tag(deref_value(st_, _arg(ev, st_, t, 0)))
        if tg is None or not tg.startswith("conn:"):
            return False
        return _set_dest(st_, t, ("const", "false" if "closed" in tg else "true"))
    raw = [(r"Pin.* as std::ops::Deref(Mut)?.*::deref(_mut)?$|Pin.*::(as_mut|get_mut|into_inner|get_unchecked_mut|into_ref|as_ref)$", o_pin_same),
           (r"::_::<impl .*>::(project|project_ref)$", o_project), (r"PoolRef.*::lock$", o_lock),
           (r"(PoolGuard|MutexGuard|ArcMutexGuard).* as std::ops::Deref(Mut)?.*::deref(_mut)?$", o_guard),
           (r"PoolInner.*::push$", o_push), (r"PoolInner.*::cancel_connection$", o_cancel), (r"tokio::(task::)?spawn$|tokio::task::spawn::spawn$", o_spawn),
           (r"PoolableConnection.*::is_open$", o_is_open), (r"ConnectorMeta::new$", o_const("META")), (r"CheckoutId::new$", o_const("ID")),
           (r"Box.*::pin$", lambda ev, st_, t, site: _set_dest(st_, t, _deref(st_, _arg(ev, st_, t, 0))))] + RAW

    def left(st_):
        v = st_.get(CK)
        return describe_checkout(facts, v) if v is not None else None
    outs = AbsPaths(u, limit=40000, raw_oracles=raw, oracles=[INT_CMP, VALUE_EQ]).outcomes(state=st, extra_keys=(LOG, left))
    return u, {(tuple(e[1] for e in o[2][0][1]) if o[2][0] is not None else None) for o in outs}


def spec_drop(attempt_name, has_connector, conn, lock):
    ev = []
    if conn is not None and "closed" not in conn and lock:
        ev.append("handback:%s/own" % conn)
    if attempt_name == "ConnectingWithDelayDrop" and has_connector:
        ev.append("spawn:ConnectingDelayed+connector/NoPool/own/same-pool")
    elif attempt_name != "Waiting" and lock:
        ev.append("cancel:own")
    return tuple(ev)


def drop_table(ctx, facts, label="Checkout::drop"):
    """Dropping a checkout: a connection it took from the pool but never delivered goes back (if still open); an attempt that may
    continue (delayed-drop state still owning its connector) is handed - connector, token, pool reference and all - to a
    background task and its marker is left alone; any other owner of an attempt cancels its marker; a pure waiter does nothing."""
    rows = 0
    C = ("const", "CONNECTOR")
    attempts = [("Waiting", ("variant", "Waiting", ()), False), ("Connected", ("variant", "Connected", ()), False),
                ("Connecting", ("variant", "Connecting", ((0, C),)), True),
                ("ConnectingWithDelayDrop", ("variant", "ConnectingWithDelayDrop", ((0, some(C)),)), True),
                ("ConnectingWithDelayDrop", ("variant", "ConnectingWithDelayDrop", ((0, NONE),)), False),
                ("ConnectingDelayed", ("variant", "ConnectingDelayed", ((0, C),)), True)]
    for (name, val, hasc) in attempts:
      for waiter in ("Idle", "Connecting", "NoPool"):
        for conn in (None, "conn:open", "conn:closed"):
            for lock in (True, False):
                key = "%s|table|attempt=%s%s|waiter=%s|undelivered=%s|pool-%s" % (label, name, "(connector gone)" if name == "ConnectingWithDelayDrop" and not hasc else "", waiter, conn or "none", "alive" if lock else "gone")
                try:
                    u, got = evaluate_drop(facts, val, conn, lock, waiter)
                except AbsPaths.Undecided as e:
                    ctx.undecided(key, str(e))
                    continue
                except KeyError as e:
                    return ctx.missing("%s|anchor" % label, str(e))
                if rows == 0:
                    ctx.touched(u)
                rows += 1
                want = spec_drop(name, hasc, conn, lock)
                ctx.check(got == {want}, key, "dropping a checkout in state %s holding %s, pool %s: %s" % (name, conn or "no connection", "alive" if lock else "gone", list(want) or "nothing to do"),
                          "dropping a checkout in state %s holding %s, pool %s: the drop can do %s, expected %s" % (name, conn or "no connection", "alive" if lock else "gone", sorted(map(str, got)), list(want)), u.where())
    ctx.floor("%s|table-rows" % label, rows, 108, "scenarios evaluated")
