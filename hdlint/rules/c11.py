"""C11: happy-eyeballs attempts are paced, ordered, bounded and meet the deadline (level: other)."""
import re
from core import norm, L_call, L_variant, arms, assigns_to_return, closure_arg_of, sig, const_of, awaits, CallSite
from mir import op_place
import c10

META = {
    "thorough_extra": ["client-only", "tls"],
    "level": "other",
    "explanation": "Ordering / pacing mechanisms, decided on the mir_built bodies: (C11.1) FIFO - the only mutators of EyeballSet.queue are push_back / extend / pop_front and of "
                   "SocketAddrs.0 (outside sort_preferred) pop_front / iter_mut / collect; TcpConnecting::connect pushes attempts in pop order; (C11.2) at most once - every value "
                   "given to tasks.push comes from queue.pop_front (moved, never cloned); (C11.3) the initial batch iterates the half-open range 0..initial_concurrency.unwrap_or(queue.len()); "
                   "(C11.4) pacing - in the stagger loop the push of a popped candidate is separated from its pop by the completed await of join_next_with_timeout, which wraps "
                   "join_next in tokio::time::timeout(self.delay) exactly when a delay is configured; (C11.5) the overall deadline wrapper (C10.5); (C11.6) delay = timeout / number of "
                   "addresses under the non-empty guard, and EyeballSet::new receives (delay, overall timeout, concurrency) in that order."
                   " As built now: C11.1 / C11.2 are rows of the process_all trace table and the join_next table (patable.py), C11.6 is the delay table (candloop.delay_table: overall timeout x number of addresses -> (stagger delay, overall timeout, concurrency) read off the set at its await, the TcpConnecting constructor spliced in); the queue of unstarted candidates may be touched by push / extend / process_all only.",
    "trusted_base": ["rustc type/borrow checker (move semantics: a future is started at most once)", "std VecDeque FIFO", "tokio::time::timeout", "FuturesUnordered::push starts polling on next()"],
    "assumptions": [],
    "undecided": "actual start times and the deadline in (virtual) time",
    "level_text": "static necessary conditions (who-mutates-the-queue, provenance of started attempts, must-pass-through of the stagger await); wall-clock pacing is not decided",
}

PA = c10.PA
JT = c10.JT
VDQ = "std::collections::VecDeque"


def _field_of_recv(fn, c):
    from pool2 import _fields_of_ref
    return _fields_of_ref(fn, c.args[0]) if c.args else []


def C11_1(ctx, facts):
    import panics
    import patable
    # who touches the set's queue of unstarted candidates: EyeballSet::push / Extend (appending: decided by the candidate-loop
    # table, which reads the queue off at the await of the set) and process_all (decided by the trace table); nobody else
    n = 0
    for g in facts.fns.values():
        if not g.nkey.startswith(("happy_eyeballs", "<happy_eyeballs")):
            continue
        chain = panics.owner_chain(g)
        owner_ok = any(nm in ("happy_eyeballs::EyeballSet::process_all", "happy_eyeballs::EyeballSet::push", "happy_eyeballs::EyeballSet::new") or nm.startswith("<happy_eyeballs::EyeballSet as std::iter::Extend") for nm in chain)
        for c in g.calls():
            tys = c.t.get("argtys") or [""]
            if not re.search(r"^&mut (std::collections::VecDeque|std::vec::Vec|alloc::vec::Vec)<F", tys[0]) or "queue" not in _field_of_recv(g, c):
                continue
            n += 1
            m = norm(c.name).split("::")[-1]
            ctx.check(owner_ok, "EyeballSet.queue|%s|%s" % (g.nkey.split("::")[-1] if "{closure" not in g.nkey else g.nkey.split("::")[-2], m),
                      "the queue is touched by push / extend / process_all only (%s)" % m, "queue mutated through %s in %s" % (norm(c.name), g.nkey), c.where())
    ctx.floor("EyeballSet.queue|mutators", n, 3, "mutating accesses to EyeballSet.queue")
    # candidates leave the queue in process_all only, and there in FIFO order: trace table (starts in queue order)
    patable.table(ctx, facts)
    m2 = 0
    import c16
    port_fns = {h.nkey for h in c16._port_fns(facts)}
    for g in facts.fns.values():
        if not g.nkey.startswith(("client::conn::dns::SocketAddrs", "<client::conn::dns::SocketAddrs")) or "sort_preferred" in g.nkey:
            continue
        import panics
        if any(nm_.endswith("SocketAddrs::sort_preferred") for nm_ in panics.owner_chain(g)):
            continue  # a private helper of sort_preferred: its effect on the list is decided by the C16.1 table
        if any(nm_ in port_fns for nm_ in panics.owner_chain(g)) or g.nkey in port_fns:
            continue  # the port-applying method (in place or rebuilding the list): its effect on the list is decided by the C16.4 port table
        for c in g.calls():
            tys = c.t.get("argtys") or [""]
            if tys[0].startswith("&mut std::collections::VecDeque<std::net::SocketAddr>"):
                m2 += 1
                m = norm(c.name).split("::")[-1]
                ctx.check(m in ("pop_front", "iter_mut", "into_iter", "clear"), "SocketAddrs.0|%s|%s" % (g.nkey.split("::")[-1], m), "address list consumed front to back (%s)" % m,
                          "address list mutated through %s" % norm(c.name), c.where())
    ctx.floor("SocketAddrs.0|mutators", m2, 1, "mutating accesses to SocketAddrs.0 outside sort_preferred and the port method")
    pop = facts.unit(facts.fn("client::conn::dns::SocketAddrs::pop"))
    ctx.check(any(c.matches(r"VecDeque.*::pop_front$") for c in pop.calls()), "SocketAddrs::pop|front", "SocketAddrs::pop takes the front element", "SocketAddrs::pop does not pop the front", pop.where())
    # the candidate loop of TcpConnecting::connect as a decision table (candloop.py): one attempt per address, in list order,
    # before the set is awaited - whatever the loop looks like
    import candloop
    candloop.table(ctx, facts)


def C11_2_3_4(ctx, facts):
    # the initial batch (min(concurrency, n) candidates, in order), one stagger wait before every further start, every popped
    # candidate started: rows of the process_all trace table (patable.py)
    import patable
    patable.table(ctx, facts)
    # every finished attempt is reported by exactly one call of join_next (a swallowed failure would delay the next start)
    patable.join_next_table(ctx, facts)
    f = patable.full_unit(facts, facts.fn(PA))
    home = {f.nkey} | {norm(k) for k in f.inlined}
    starts = [c for g in facts.fns.values() if g.nkey.startswith(("happy_eyeballs", "<happy_eyeballs")) for c in g.calls()
              if (c.t.get("argtys") or [""])[0].startswith(("&futures_util::stream::FuturesUnordered<", "&mut futures_util::stream::FuturesUnordered<")) and
              norm(c.name).split("::")[-1] in ("push", "extend")]
    ctx.floor("tasks.push|sites", len(starts), 1, "places that start attempts")
    other = [c for c in starts if c.fn.nkey not in home]
    ctx.check(not other, "tasks.push|only-in-process_all", "attempts are started only in process_all", "attempts also started in %s" % [c.fn.nkey for c in other])
    # the stagger wait itself - bounded by exactly the set's delay when one is configured, a plain wait otherwise, the elapsed
    # bound being the only source of the "timed out" answer - is part of the trace table: the helper that implements it is spliced
    # in (whatever its name and interface), `tokio::time::timeout` has its meaning, rows exist for delay = Some / None


def C11_6(ctx, facts):
    """The pacing parameters of the attempt set: decision table (candloop.delay_table) over overall timeout x number of
    addresses, read off the set at the moment it is awaited (EyeballSet::new and the TcpConnecting constructor spliced in)."""
    import candloop
    candloop.delay_table(ctx, facts)


RULES = [
    ("C11.1", C11_1, ["default"]),
    ("C11.2", C11_2_3_4, ["default"]),
    ("C11.5", c10.C10_5, ["default"]),
    ("C11.6", C11_6, ["default"]),
]
