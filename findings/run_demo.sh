#!/bin/sh
# usage: run_demo.sh <git rev of /repo> <source file (relative)> <snippet file> <test filter> [cargo feature list]
# Appends the snippet inside the last `mod` block of the source file (before its closing brace) in a scratch
# worktree of /repo at <rev>, runs the filtered unit tests, removes the worktree.  Documentation aid only.
set -e
REV=${1:-HEAD}; SRC=$2; SNIP=$3; FILTER=$4; FEATS=${5:-mocks}
D=$(mktemp -d /var/tmp/hd-demo-XXXX)
git -C /repo worktree add --detach "$D" "$REV" >/dev/null 2>&1
python3 - "$D/$SRC" "$SNIP" <<'PY'
import sys
p, snip = sys.argv[1], sys.argv[2]
s = open(p).read()
t = open(snip).read()
if t.lstrip().startswith("// MODE: append-module"):
    open(p, 'w').write(s + "\n" + t + "\n")
else:
    i = s.rstrip().rfind('}')
    open(p, 'w').write(s[:i] + "\n" + t + "}\n")
PY
(cd "$D" && CARGO_TARGET_DIR=/var/tmp/hd-demo-target cargo test --offline --lib --features "$FEATS" "$FILTER" 2>&1 | grep -E "^test |test result|^error" ) || true
git -C /repo worktree remove --force "$D"
