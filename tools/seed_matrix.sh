#!/bin/bash
# Apply every stored seeded change to /repo in turn, run all quick checks once, restore /repo. Prints a matrix line per seed.
# NOTE: modifies /repo's working tree while it runs (restored after each seed); do not run other checks concurrently.
cd /verif
for d in seeded/*/; do
  id=$(basename $d)
  git -C /repo apply /verif/seeded/$id/patch.diff || { echo "$id: patch does not apply"; continue; }
  out=$(./check all 2>&1)
  git -C /repo checkout -- .
  fired=$(echo "$out" | grep -E "new=[1-9]|BUILD" | awk '{print $1}' | tr '\n' ' ')
  rules=$(echo "$out" | grep -E "^\s+\[(violation|anchor-missing|undecided)\]" | awk '{print $2}' | sort -u | tr '\n' ' ')
  echo "$id -> fired: ${fired:-NONE} | rules: $rules"
done
git -C /repo status --short | head -3
