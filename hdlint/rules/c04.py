"""C04: idle connections are reused; HTTP/2 requests to an origin share one connection (level: other)."""
from core import L_variant, norm
import pool
import pool2

META = {
    "thorough_extra": ["mocks", "client-only"],
    "level": "other",
    "explanation": "Mechanisms of reuse and de-duplication, decided on all paths: (P8) Pool::checkout consults the idle list first, builds exactly three kinds of checkout "
                   "(idle hit: popped connection, no connector; in-flight attempt: no connector; otherwise: own connector, only on contains()==false), and sets the "
                   "in-flight marker only for multiplexed checkouts when none is set; (P9) every push clears the marker and serves waiters before the idle list; "
                   "(P2) a new shareable connection's reuse() clone is pushed while the caller keeps the original, released exclusive connections return through WhenReady (P3); "
                   "(P10) only a checkout that can own the marker clears it on drop; (P15) every type that can hold a connection has a checked release path and an unpolled checkout "
                   "returns the connection it popped; (C04.1) connect_to uses the pool when one is configured and derives `multiplex` from the request version."
                   " P8 classifies Pool::checkout by path class (idle hit / dependent / dial) with abstract values of the connector and connection arguments, whatever the number of Checkout::new call sites."
                   " As built now: P8 / P9 / P10 / P14 / P15 are the decision tables of pooltable.py (Pool::checkout, PoolInner::push, the pinned drop), P5 is the idle-pop table (idletable.py: the newest open unexpired entry is the one handed out), C04.1's multiplex() is a two-row table.",
    "trusted_base": ["rustc type/borrow checker", "std collections", "tokio oneshot"],
    "assumptions": ["Connector.shareable is hard-wired false today, so ALPN-upgraded connections do not set the marker during the handshake window (noted, not claimed)"],
    "undecided": "the number of dials versus the minimum a history requires (arithmetic over histories)",
    "level_text": "static necessary conditions (guard dominance, path-sensitive argument values, who-may-call, release paths); dial counts over histories are not decided",
}


def C04_1(ctx, facts):
    f = facts.fn("client::pool::service::ConnectionPoolService::connect_to")
    ctx.touched(f)
    co = f.calls("client::pool::Pool::checkout")
    de = f.calls("client::pool::checkout::Checkout::detached")
    ctx.floor("connect_to|checkout", len(co), 1, "Pool::checkout in connect_to")
    ctx.floor("connect_to|detached", len(de), 1, "Checkout::detached in connect_to")
    some = lambda lab: lab.kind == "variant" and lab.variants == {"Some"} and any(r.kind == "arg" and r.desc.endswith("self.pool") for r in f.roots(lab.place))
    none = lambda lab: lab.kind == "variant" and lab.variants == {"None"} and any(r.kind == "arg" and r.desc.endswith("self.pool") for r in f.roots(lab.place))
    for c in co:
        ok, w = f.guarded(c.bb, some)
        ctx.check(ok, "connect_to|pool-used", "with a pool configured the connection is obtained through Pool::checkout", "Pool::checkout not on the pool-present edge", c.where(), f.path_desc(w))
        rr = f.roots(c.args[2])
        ok2 = any(r.kind == "call" and r.site.is_("client::conn::protocol::HttpProtocol::multiplex") for r in rr) and \
            any(r.kind == "arg" and r.desc.startswith("request_parts.version") for r in rr)
        ctx.check(ok2, "connect_to|multiplex-from-version", "`multiplex` is HttpProtocol::multiplex(request version)", "multiplex roots: %s" % sorted(map(repr, rr)), c.where())
    for c in de:
        ok, w = f.guarded(c.bb, none)
        ctx.check(ok, "connect_to|detached-only-without-pool", "a detached (pool-less) checkout is used only when no pool is configured",
                  "Checkout::detached reachable with a pool configured", c.where(), f.path_desc(w))
    # multiplex(): true exactly for Http2 - decision table over the protocol (abstract evaluation; `match`, `matches!`, `==`)
    from core import AbsPaths, VALUE_EQ
    mp = facts.unit(facts.fn("client::conn::protocol::HttpProtocol::multiplex"), expand=True)
    ctx.touched(mp)
    for v in ("Http1", "Http2"):
        try:
            outs = {x for (x, _) in AbsPaths(mp, oracles=[VALUE_EQ]).outcomes(state={1: ("refval", ("variant", v, ()))})}
        except AbsPaths.Undecided as e:
            ctx.undecided("HttpProtocol::multiplex|%s" % v, str(e))
            continue
        want = "true" if v == "Http2" else "false"
        ctx.check(outs == {("const", want)}, "HttpProtocol::multiplex|%s" % v, "multiplex() is %s for %s" % (want, v), "multiplex() yields %s for %s" % (sorted(map(str, outs)), v), mp.where())


def C04_2(ctx, facts):
    """A healthy idle connection is not thrown away by a look-up: PoolInner::pop (run by every checkout) removes an origin's
    idle list from the map only when that list is empty.  Decision table over (list empty after the pop?, what was popped):
    whenever the list still holds connections, no removal of the list may happen."""
    from core import AbsPaths
    f = facts.unit(facts.fn("client::pool::PoolInner::pop"), expand=True)
    ctx.touched(f)
    IDLE_MAP = "HashMap<client::pool::key::Token, client::pool::idle::IdleConnections"
    removals = []
    for c in f.calls():
        t0 = (c.t.get("argtys") or [""])[0]
        nm = norm(c.name).split("::")[-1]
        if (IDLE_MAP in t0 and t0.startswith("&mut ") and nm in ("remove", "remove_entry", "clear", "retain", "drain", "insert")) or \
                ("OccupiedEntry<" in t0 and "IdleConnections" in t0 and nm in ("remove", "remove_entry", "insert")):
            removals.append(c)
    ctx.floor("PoolInner::pop|list-removal", len(removals), 1, "removal of an (empty) idle list from the map")
    rb = {c.bb for c in removals}
    some_list = ("variant", "Some", ((0, ("const", "LIST")),))
    rows = 0
    for empty in (True, False):
        for popped in ("None", "exclusive", "shareable"):
            pv = ("variant", "None", ()) if popped == "None" else ("variant", "Some", ((0, ("const", "CONN")),))
            oracles = [(r"IdleConnections.*::is_empty$|Vec.*::is_empty$", lambda site, vals, empty=empty: ("const", "true" if empty else "false")),
                       (r"IdleConnections.*::len$|Vec.*::len$", lambda site, vals, empty=empty: ("const", "0" if empty else "2")),
                       (r"IdleConnections.*::pop$", lambda site, vals, pv=pv: pv),
                       (r"PoolableConnection.*::can_share$", lambda site, vals, popped=popped: ("const", "true" if popped == "shareable" else "false")),
                       (r"HashMap.*::get_mut$", lambda site, vals: some_list),
                       (r"HashMap.*::entry$", lambda site, vals: ("variant", "Occupied", ((0, ("const", "ENTRY")),)))]
            try:
                outs = AbsPaths(f, oracles=oracles).outcomes(observe_blocks=rb)
            except AbsPaths.Undecided as e:
                ctx.undecided("PoolInner::pop|row|empty=%s,popped=%s" % (empty, popped), str(e), f.where())
                continue
            rows += 1
            removed = any(vis for (_, vis) in outs)
            if not empty:
                ctx.check(not removed, "PoolInner::pop|row|list-not-empty,popped=%s" % popped,
                          "while the origin's idle list still holds connections it stays in the map (popped: %s)" % popped,
                          "the origin's idle list can be removed although it still holds connections (popped: %s): healthy idle connections are destroyed by a look-up" % popped, f.where())
            else:
                ctx.ok("PoolInner::pop|row|list-empty,popped=%s" % popped, "empty list: removal %s" % ("happens" if removed else "does not happen"))
    ctx.floor("PoolInner::pop|table-rows", rows, 6, "scenarios evaluated")


RULES = [
    ("C04.2", C04_2, ["default"]),
    ("P8", pool2.P8, ["default"]),
    ("P9", pool2.P9_aspects("waiters-first", "delivered-or-drained", "payload", "queue-kept"), ["default"]),
    ("P2", pool.P2_aspects("callers", "conn"), ["default"]),
    ("P3", pool.P3_route, ["default"]),
    ("P10", pool2.P10_aspects("sites", "pure-waiter", "keeps"), ["default"]),
    ("P15", pool2.P15, ["default"]),
    ("P16b", pool2.no_try_lock, ["default"]),
    # which idle entry is handed out (newest open unexpired one): the idle-pop decision table
    ("P5", pool.P5, ["default"]),
    ("C04.1", C04_1, ["default"]),
]
