"""Decision table for `check_http1_request` (C13.3): the request target written on an HTTP/1 connection.

The URI is a record in the abstract state (scheme none / http / https, authority none / present, path none / "/" / "/p");
`uri_mut()` hands out a reference to it, `scheme()` / `authority()` / `path_and_query()` read it, `Uri::from_parts` /
`Uri::default` build new ones.  Rule, for every connection version x method x URI shape: on HTTP/2 and above nothing is
touched; CONNECT is reduced to authority-form (and stays there); any other request with scheme and authority goes out in
origin-form, anything else as given."""
import re

import inline
import seqmodel
from core import AbsPaths, VALUE_EQ, STR_EQ, INT_CMP, norm, deref_value, http_version, VERSION_CMP
from seqmodel import NONE, some, tup, _arg, _deref, _set_dest

FN = "service::http::http1::check_http1_request"
CELL = -50
ORDER = {"HTTP_09": 0, "HTTP_10": 1, "HTTP_11": 2, "HTTP_2": 3, "HTTP_3": 4}


def uri(scheme, authority, path):
    return ("variant", "Uri", ((0, NONE if scheme is None else some(("const", "scheme:" + scheme))),
                               (1, NONE if authority is None else some(("const", "AUTH"))),
                               (2, NONE if path is None else some(("const", '"%s"' % path)))))


def _field(v, i):
    v = v if v is not None and v[0] == "variant" else None
    return dict(v[2]).get(i) if v else None


def evaluate(facts, version, method, u0):
    fn = facts.fn(FN)
    if not hasattr(facts, "_h1_unit"):
        OPAQUE = r"ExecuteRequest.*::(connection|request|request_mut)$|Connection.*::version$"
        pats = [re.compile(p) for p, _ in seqmodel.RAW_ORACLES]
        facts._h1_unit = inline.inline(facts, fn, 4, lambda ck, raw: "::_::" not in ck and not re.search(OPAQUE, norm(ck)) and not any(rx.search(norm(ck)) for rx in pats), expand=True)
    u = facts._h1_unit
    # field indices of http::uri::Parts as the code names them
    idx = {}
    for b in u.live:
        for s_ in u.stmts(b):
            if s_.get("k") != "assign":
                continue
            for e in s_["p"]["p"]:
                if isinstance(e, dict) and e.get("n") in ("scheme", "authority", "path_and_query") and "Parts" in (u.locals[s_["p"]["l"]] or ""):
                    idx[e["n"]] = e["f"]
    idx.setdefault("scheme", 0)
    idx.setdefault("authority", 1)
    idx.setdefault("path_and_query", 2)

    def const(name):
        return lambda ev, st, t, site: _set_dest(st, t, ("const", name))

    def o_uri_mut(ev, st, t, site):
        st[t["dest"]["l"]] = ("cellref", CELL)
        return True

    def o_uri(ev, st, t, site):
        st[t["dest"]["l"]] = ("cellref", CELL)
        return True

    def getter(i):
        def f(ev, st, t, site):
            v = deref_value(st, _arg(ev, st, t, 0))
            x = _field(v, i)
            if x is None:
                return False
            if x[0] == "variant" and x[1] == "Some":
                return _set_dest(st, t, some(("refval", dict(x[2]).get(0))))
            return _set_dest(st, t, x)
        return f

    def o_from_parts(ev, st, t, site):
        p = deref_value(st, _arg(ev, st, t, 0))
        if p is None or p[0] != "variant":
            return False
        f = dict(p[2])

        def g(name):
            x = f.get(idx[name])
            if x is None:
                return None
            if x[0] == "variant" and x[1] == "Some":
                return some(deref_value({}, dict(x[2]).get(0)))
            return x
        parts = (g("scheme"), g("authority"), g("path_and_query"))
        if any(x is None for x in parts):
            return False
        return _set_dest(st, t, ("variant", "Ok", ((0, ("variant", "Uri", tuple(enumerate(parts)))),)))

    def o_parts_default(ev, st, t, site):
        if "Parts" not in " ".join(t.get("targs") or []) + (t.get("resa") or "") + (t.get("decla") or ""):
            return False
        return _set_dest(st, t, ("variant", "Parts", tuple(sorted((i, NONE) for i in idx.values()))))

    def o_uri_default(ev, st, t, site):
        if "Uri" not in (t.get("resa") or "") + (t.get("decla") or "") + " ".join(t.get("targs") or []):
            return False
        return _set_dest(st, t, uri(None, None, "/"))

    def o_clone(ev, st, t, site):
        v = deref_value(st, _arg(ev, st, t, 0))
        if v is None:
            return False
        return _set_dest(st, t, v)

    def o_as_str(ev, st, t, site):
        v = deref_value(st, _arg(ev, st, t, 0))
        if v is None or v[0] != "const":
            return False
        return _set_dest(st, t, v)

    def o_version_cmp(ev, st, t, site):
        a, b = deref_value(st, _arg(ev, st, t, 0)), deref_value(st, _arg(ev, st, t, 1))

        def rank(v):
            m = re.search(r"Version::(HTTP_\w+)$", str(v[1])) if v is not None and v[0] == "const" else None
            return ORDER.get(m.group(1)) if m else None
        x, y = rank(a), rank(b)
        if x is None or y is None:
            return False
        op = norm(site.name).split("::")[-1]
        r = {"lt": x < y, "le": x <= y, "gt": x > y, "ge": x >= y, "eq": x == y, "ne": x != y}.get(op)
        if r is None:
            return False
        return _set_dest(st, t, ("const", "true" if r else "false"))

    def o_scheme_eq(ev, st, t, site):
        # `uri.scheme() == Some(&Scheme::HTTPS)`
        a, b = deref_value(st, _arg(ev, st, t, 0)), deref_value(st, _arg(ev, st, t, 1))

        def sch(v, depth=6):
            while v is not None and depth > 0:
                depth -= 1
                if v[0] in ("refval", "ref", "refmut", "pref", "cellref"):
                    v = deref_value(st, v, hops=1)
                elif v[0] == "variant" and v[1] == "Some":
                    v = dict(v[2]).get(0)
                elif v[0] == "variant" and v[1] == "None":
                    return "none"
                elif v[0] == "const":
                    m = re.search(r"Scheme::(HTTPS|HTTP)$", str(v[1]))
                    if m:
                        return "scheme:" + m.group(1).lower()
                    return v[1] if str(v[1]).startswith("scheme:") else None
                else:
                    return None
            return None
        x, y = sch(a), sch(b)
        if x is None or y is None:
            return False
        eq = x == y
        if norm(site.name).endswith("::ne"):
            eq = not eq
        return _set_dest(st, t, ("const", "true" if eq else "false"))
    raw = [(r"ExecuteRequest.*::connection$", const("CONN")), (r"Connection.*::version$", lambda ev, st, t, site: _set_dest(st, t, http_version(version))), VERSION_CMP,
           (r"ExecuteRequest.*::(request|request_mut)$", const("REQ")), (r"Request.*::method$", const("http::Method::" + method)),
           (r"Request.*::uri_mut$", o_uri_mut), (r"Request.*::uri$", o_uri),
           (r"Uri::scheme$", getter(0)), (r"Uri::authority$", getter(1)), (r"Uri::path_and_query$", getter(2)),
           (r"Uri::from_parts$", o_from_parts), (r"Default.*::default$", o_parts_default), (r"Default.*::default$", o_uri_default),
           (r"Clone.*::clone$", o_clone), (r"PathAndQuery::as_str$|Authority::as_str$", o_as_str),
           (r"PartialOrd.*::(lt|le|gt|ge)$", o_version_cmp), (r"PartialEq.*::(eq|ne)$", o_scheme_eq)] + seqmodel.OPTION_ORACLES + seqmodel.RAW_ORACLES
    st = {1: ("const", "EXECUTE_REQUEST"), CELL: u0}
    outs = AbsPaths(u, limit=20000, raw_oracles=raw, oracles=[STR_EQ, VALUE_EQ, INT_CMP]).outcomes(state=st, extra_keys=(CELL,))
    res = set()
    for (rv, _, (cell,)) in outs:
        kind = rv[1] if rv is not None and rv[0] == "variant" else "?"
        res.add((kind, cell))
    return u, res


def spec(version, method, scheme, authority, path):
    if ORDER[version] >= ORDER["HTTP_2"]:
        return uri(scheme, authority, path)
    if method == "CONNECT":
        if authority is None:
            return uri(scheme, authority, path)
        return uri(None, authority, None)
    if scheme is None or authority is None:
        return uri(scheme, authority, path)
    return uri(None, None, path if path not in (None, "/") else "/")


def table(ctx, facts, label="check_http1_request"):
    rows = 0
    # an `http::Uri` with a scheme always has an authority: (scheme, no authority) is not a value of the type
    shapes = [(s, a, p) for s in (None, "http", "https") for a in (None, "AUTH") for p in (None, "/", "/p") if not (s is not None and a is None)]
    for version in ("HTTP_11", "HTTP_10", "HTTP_2", "HTTP_3"):
        for method in ("GET", "CONNECT"):
            for (s, a, p) in shapes:
                key = "%s|h1-table|%s|%s|scheme=%s,authority=%s,path=%s" % (label, version, method, s, "yes" if a else "no", p)
                try:
                    u, got = evaluate(facts, version, method, uri(s, a, p))
                except AbsPaths.Undecided as e:
                    ctx.undecided(key, str(e))
                    continue
                if rows == 0:
                    ctx.touched(u)
                rows += 1
                want = {("Ok", spec(version, method, s, a, p))}

                def show(x):
                    k, c = x
                    f = dict(c[2]) if c is not None and c[0] == "variant" else {}
                    def opt(v):
                        v = deref_value({}, v)
                        if v is None:
                            return "?"
                        if v[0] == "variant" and v[1] == "None":
                            return "-"
                        if v[0] == "variant" and v[1] == "Some":
                            y = deref_value({}, dict(v[2]).get(0))
                            return str(y[1]) if y is not None and y[0] == "const" else "?"
                        return "?"
                    return "%s(scheme=%s, authority=%s, path=%s)" % (k, opt(f.get(0)), opt(f.get(1)), opt(f.get(2)))
                norm_got = {(k, c) for (k, c) in got}
                ctx.check(norm_got == want, key, "%s connection, %s %s: the target goes out as %s" % (version, method, show(("", uri(s, a, p)))[0:0] + show(("", uri(s, a, p))), show(next(iter(want)))),
                          "%s connection, %s, target %s: the function can answer %s, expected %s" % (version, method, show(("", uri(s, a, p))), sorted(show(x) for x in norm_got), show(next(iter(want)))), u.where())
    ctx.floor("%s|h1-table-rows" % label, rows, 4 * 2 * len(shapes), "scenarios evaluated")
