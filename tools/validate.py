#!/usr/bin/env python3-vt
"""Validate MANIFEST.json and every evidence file before committing.

Beyond the two schemas this refuses evidence that does not describe a quiet run on the unchanged tree:
a committed evidence file once came from a run made while a seeded change was applied in /repo
(obligations 56, discharged 54, violations 2) - schema-valid, but not a record of the claimed level."""
import glob
import json
import os
import subprocess
import sys

import jsonschema

bad = []
man = json.load(open('/verif/MANIFEST.json'))
jsonschema.validate(man, json.load(open('/root/.vp/MANIFEST.schema.json')))
es = json.load(open('/root/.vp/EVIDENCE.schema.json'))
claimed = {c['property_id']: c for c in man['checks']}
seen = set()
for f in sorted(glob.glob('/verif/evidence/*.json')):
    ev = json.load(open(f))
    jsonschema.validate(ev, es)
    pid = ev['property_id']
    seen.add(pid)
    cov = ev['coverage']
    why = []
    if os.path.basename(f) != pid + '.json':
        why.append('file name does not match property_id %s' % pid)
    if pid not in claimed:
        why.append('evidence for a property MANIFEST.json does not claim')
    elif claimed[pid]['level_claimed']['category'] != ev['level']:
        why.append('level %s differs from the manifest (%s)' % (ev['level'], claimed[pid]['level_claimed']['category']))
    if cov.get('obligations') != cov.get('discharged'):
        why.append('discharged (%s) != obligations (%s)' % (cov.get('discharged'), cov.get('obligations')))
    if ev.get('violations', 0) != 0:
        why.append('violations = %s: written by a run that was not quiet' % ev.get('violations'))
    nd = [o for o in cov.get('all_obligations', []) if o.get('status') != 'discharged']
    if nd:
        why.append('%d obligation(s) not discharged, first: %s|%s' % (len(nd), nd[0].get('rule'), nd[0].get('key')))
    if len(cov.get('all_obligations', [])) != cov.get('obligations'):
        why.append('all_obligations has %d entries, obligations says %s' % (len(cov.get('all_obligations', [])), cov.get('obligations')))
    if why:
        bad.append((f, why))
        print('BAD', f)
        for w in why:
            print('    ' + w)
    else:
        print('ok', f, 'obligations=%d' % cov['obligations'])
for pid in sorted(set(claimed) - seen):
    bad.append((pid, ['no evidence file']))
    print('BAD', pid, 'claimed in MANIFEST.json but has no evidence file')

# the evidence must describe the committed /repo: refuse when its working tree is dirty
st = subprocess.run(['git', '-C', '/repo', 'status', '--porcelain'], stdout=subprocess.PIPE, text=True).stdout.strip()
if st:
    bad.append(('/repo', ['working tree not clean']))
    print('BAD /repo working tree is not clean; evidence written now would not describe the committed tree:\n' + st)

if bad:
    print('validation FAILED (%d problem(s))' % len(bad))
    sys.exit(1)
print('manifest ok, %d evidence files ok' % len(seen))
