    // ---- demonstrations for F8 / F9 (C20).  Appended inside `mod tests` of src/server/conn/tls/sni.rs;
    // run with `cargo test --offline --lib --features tls,tls-ring,sni verif_`.
    #[test]
    fn verif_f8_host_comparison_is_case_insensitive() {
        let mut req = Request::new(());
        req.headers_mut()
            .insert(header::HOST, "Example.COM:8443".parse().unwrap());
        req.extensions_mut().insert(TlsConnectionInfo {
            server_name: Some("example.com".into()),
            ..TlsConnectionInfo::default()
        });
        assert!(handle(&mut req).is_none(), "F8: equal host rejected because of letter case");
    }

    #[test]
    fn verif_f9_http2_falls_back_to_host_header() {
        let mut req = Request::builder().uri("/path").version(http::Version::HTTP_2).body(()).unwrap();
        req.headers_mut()
            .insert(header::HOST, "evil.org".parse().unwrap());
        req.extensions_mut().insert(TlsConnectionInfo {
            server_name: Some("example.com".into()),
            ..TlsConnectionInfo::default()
        });
        assert!(
            matches!(handle(&mut req), Some(ValidateSNIError::InvalidSNI { .. })),
            "F9: HTTP/2 request without authority but with a foreign Host header was forwarded"
        );
    }
