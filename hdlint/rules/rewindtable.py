"""Decision table for `Rewind::poll_read` (C08.5 = C18.3): replaying a sniffed prefix.

The prefix is a window `[a, b)` over the bytes sniffed before (a `Bytes` value in the abstract state: `len`, `is_empty`,
`advance`, `split_to`, `[..n]` / `[a..b]` and `mem::take` are given their meaning on it); the caller's cursor has `room`
free bytes; copying into it is an event `put:[a,b)` that also uses up room (the crate's own two cursor helpers, or hyper's
public `ReadBufCursor::remaining` / `put_slice`, are the primitive - the helpers themselves are checked separately below).
Rule, for every prefix state (none / empty / 1 / 3 bytes left) x room (0, 1, 2, 5): with bytes left, exactly the first
min(left, room) of them are copied, in order, the rest stays for the next call, the answer is Ready(Ok) and the live stream
is not touched; with nothing left, the call is the inner stream's `poll_read` with the same context and buffer."""
import re

import inline
import seqmodel
from core import AbsPaths, VALUE_EQ, INT_CMP, norm, deref_value, _as_int
from seqmodel import NONE, some, tup, _arg, _deref, _set_dest

RW, ROOM, LOG = 9400, -60, -81


def bytes_(a, b):
    return ("variant", "Bytes", ((0, ("const", str(a))), (1, ("const", str(b)))))


def _win(v):
    v = deref_value({}, v) if v is not None and v[0] == "refval" else v
    if v is None or v[0] != "variant" or v[1] not in ("Bytes", "Slice", "CurSlice"):
        return None
    f = dict(v[2])
    a, b = _as_int(f.get(0)), _as_int(f.get(1))
    return (a, b) if a is not None and b is not None else None


def _log(st, ev):
    l = st.get(LOG) or ("list", ())
    st[LOG] = ("list", l[1] + (("const", ev),))


def evaluate(facts, prefix, room):
    fn = facts.method("rewind::Rewind", "Read", "poll_read")
    if not hasattr(facts, "_rewind_unit"):
        # the crate's cursor helpers are spliced in: the primitive is hyper's cursor itself (see o_cur_* below)
        facts._rewind_unit = inline.inline(facts, fn, 4, lambda ck, raw: "::_::" not in ck, expand=True)
    u = facts._rewind_unit
    adt = facts.adt("rewind::Rewind")
    fl = adt["variants"][0]["fields"]
    pi = [i for i, x in enumerate(fl) if "Bytes" in x["ty"]]
    ii = [i for i, x in enumerate(fl) if "Bytes" not in x["ty"]]
    if len(pi) != 1 or len(ii) != 1:
        raise KeyError("Rewind { inner, prefix: ..Bytes.. } not identified by type")
    wrapped = "Option<" in fl[pi[0]]["ty"]
    pv = prefix if not wrapped else (NONE if prefix is None else some(prefix))
    if prefix is None and not wrapped:
        pv = bytes_(0, 0)
    st = {1: ("refmut", RW), RW: ("variant", "Rewind", tuple(sorted(((ii[0], ("const", "INNER")), (pi[0], pv))))), 2: ("const", "CX"), 3: ("const", "CURSOR"),
          ROOM: ("const", str(room)), LOG: ("list", ())}

    def w_of(ev, st_, t, i):
        return _win(deref_value(st_, _arg(ev, st_, t, i)))

    def o_len(ev, st_, t, site):
        w = w_of(ev, st_, t, 0)
        if w is None:
            return False
        return _set_dest(st_, t, ("const", str(w[1] - w[0])))

    def o_is_empty(ev, st_, t, site):
        w = w_of(ev, st_, t, 0)
        if w is None:
            return False
        return _set_dest(st_, t, ("const", "true" if w[0] == w[1] else "false"))

    def store_arg0(ev, st_, t, val):
        raw = _arg(ev, st_, t, 0)
        if raw is None:
            return False
        if raw[0] == "refmut":
            st_[raw[1]] = val
            return True
        if raw[0] == "pref":
            ev._store(st_, {"l": raw[1], "p": [{"f": f} for f in raw[2]]}, val)
            return True
        return False

    def o_advance(ev, st_, t, site):
        w = w_of(ev, st_, t, 0)
        n = _as_int(deref_value(st_, _arg(ev, st_, t, 1)))
        if w is None or n is None or w[0] + n > w[1]:
            return False
        if not store_arg0(ev, st_, t, bytes_(w[0] + n, w[1])):
            return False
        return _set_dest(st_, t, tup())

    def o_split_to(ev, st_, t, site):
        w = w_of(ev, st_, t, 0)
        n = _as_int(deref_value(st_, _arg(ev, st_, t, 1)))
        if w is None or n is None or w[0] + n > w[1]:
            return False
        if not store_arg0(ev, st_, t, bytes_(w[0] + n, w[1])):
            return False
        return _set_dest(st_, t, bytes_(w[0], w[0] + n))

    def o_take(ev, st_, t, site):
        w = w_of(ev, st_, t, 0)
        if w is None:
            return False
        if not store_arg0(ev, st_, t, bytes_(w[1], w[1])):
            return False
        return _set_dest(st_, t, bytes_(w[0], w[1]))

    def o_deref(ev, st_, t, site):
        w = w_of(ev, st_, t, 0)
        if w is None:
            return False
        return _set_dest(st_, t, ("refval", ("variant", "Slice", ((0, ("const", str(w[0]))), (1, ("const", str(w[1])))))))

    def o_index(ev, st_, t, site):
        w = w_of(ev, st_, t, 0)
        r = deref_value(st_, _arg(ev, st_, t, 1))
        if w is None or r is None or r[0] != "variant":
            return False
        src = deref_value(st_, _arg(ev, st_, t, 0))
        kind = "CurSlice" if src is not None and src[0] == "variant" and src[1] == "CurSlice" else "Slice"
        f = dict(r[2])
        ln = w[1] - w[0]
        if r[1] == "RangeTo":
            lo, hi = 0, _as_int(f.get(0))
        elif r[1] == "RangeFrom":
            lo, hi = _as_int(f.get(0)), ln
        elif r[1] == "Range":
            lo, hi = _as_int(f.get(0)), _as_int(f.get(1))
        elif r[1] == "RangeFull":
            lo, hi = 0, ln
        else:
            return False
        if lo is None or hi is None or lo > hi or hi > ln:
            return False
        return _set_dest(st_, t, ("refval", ("variant", kind, ((0, ("const", str(w[0] + lo))), (1, ("const", str(w[0] + hi)))))))

    # hyper's cursor at the level of its unsafe interface: `as_mut()` is the unfilled part (`room` bytes), a raw copy to its
    # start is a pending `copy:[a,b)` event, `advance(n)` turns the pending copy of exactly n bytes into `put:[a,b)`
    def o_cur_as_mut(ev, st_, t, site):
        rm = _as_int(st_.get(ROOM))
        if rm is None:
            return False
        return _set_dest(st_, t, ("refval", ("variant", "CurSlice", ((0, ("const", "0")), (1, ("const", str(rm)))))))

    def o_as_ptr(ev, st_, t, site):
        v = deref_value(st_, _arg(ev, st_, t, 0))
        w = _win(v)
        if w is None:
            return False
        kind = "CurPtr" if v[1] == "CurSlice" else "SrcPtr"
        return _set_dest(st_, t, ("variant", kind, ((0, ("const", str(w[0]))), (1, ("const", str(w[1]))))))

    def o_same(ev, st_, t, site):
        a = _arg(ev, st_, t, 0)
        return a is not None and _set_dest(st_, t, a)

    def o_copy(ev, st_, t, site):
        n_ = norm(site.name)
        a0, a1 = deref_value(st_, _arg(ev, st_, t, 0)), deref_value(st_, _arg(ev, st_, t, 1))
        n = _as_int(deref_value(st_, _arg(ev, st_, t, 2)))
        dst, src = (a0, a1) if "copy_from" in n_ else (a1, a0)
        if n is None or dst is None or src is None or dst[0] != "variant" or src[0] != "variant" or dst[1] != "CurPtr" or src[1] != "SrcPtr":
            return False
        d, s_ = dict(dst[2]), dict(src[2])
        dlo, dhi, slo, shi = (_as_int(x) for x in (d.get(0), d.get(1), s_.get(0), s_.get(1)))
        if None in (dlo, dhi, slo, shi) or dlo != 0 or n > dhi - dlo or n > shi - slo:
            return False      # out of bounds, or not to the start of the unfilled part: not a replay the model can name
        _log(st_, "copy:[%d,%d)" % (slo, slo + n))
        return _set_dest(st_, t, tup())

    def o_cur_advance(ev, st_, t, site):
        n = _as_int(deref_value(st_, _arg(ev, st_, t, 1)))
        rm = _as_int(st_.get(ROOM))
        l = (st_.get(LOG) or ("list", ()))[1]
        if n is None or rm is None or n > rm:
            return False
        m = re.match(r"^copy:\[(\d+),(\d+)\)$", str(l[-1][1])) if l else None
        if m and int(m.group(2)) - int(m.group(1)) == n:
            st_[LOG] = ("list", l[:-1] + (("const", "put:[%s,%s)" % (m.group(1), m.group(2))),))
        else:
            _log(st_, "advance-without-copy:%d" % n)
        st_[ROOM] = ("const", str(rm - n))
        return _set_dest(st_, t, tup())

    def o_remaining(ev, st_, t, site):
        return _set_dest(st_, t, st_.get(ROOM))

    def o_put(ev, st_, t, site):
        w = w_of(ev, st_, t, 1)
        rm = _as_int(st_.get(ROOM))
        if w is None or rm is None or w[1] - w[0] > rm:
            return False      # would panic (asserted by the helper): not a path of the model
        _log(st_, "put:[%d,%d)" % w)
        st_[ROOM] = ("const", str(rm - (w[1] - w[0])))
        return _set_dest(st_, t, tup())

    def o_inner(ev, st_, t, site):
        a0 = deref_value(st_, _arg(ev, st_, t, 0))
        a1 = deref_value(st_, _arg(ev, st_, t, 1))
        a2 = deref_value(st_, _arg(ev, st_, t, 2))
        _log(st_, "inner-read:%s:%s:%s" % (a0[1] if a0 is not None and a0[0] == "const" else "?", a1[1] if a1 is not None and a1[0] == "const" else "?", a2[1] if a2 is not None and a2[0] == "const" else "?"))
        return _set_dest(st_, t, ("const", "INNER_RESULT"))

    def o_pin_same(ev, st_, t, site):
        a = _arg(ev, st_, t, 0)
        if a is None:
            return False
        inner = deref_value(st_, a, hops=1) if a[0] in ("ref", "refmut", "pref", "refval") else None
        if inner is not None and inner[0] in ("refmut", "ref", "pref"):
            return _set_dest(st_, t, inner)
        return _set_dest(st_, t, a)

    def o_min(ev, st_, t, site):
        a, b = _as_int(deref_value(st_, _arg(ev, st_, t, 0))), _as_int(deref_value(st_, _arg(ev, st_, t, 1)))
        if a is None or b is None:
            return False
        return _set_dest(st_, t, ("const", str(min(a, b) if norm(site.name).endswith("min") else max(a, b))))
    raw = [(r"Bytes.*::len$|Buf.*::remaining$|slice.*::len$|<impl \[T\]>::len$", o_len), (r"Bytes.*::is_empty$|<impl \[T\]>::is_empty$|Buf.*::has_remaining$", o_is_empty),
           (r"Buf.*::advance$|Bytes.*::advance$", o_advance), (r"Bytes.*::split_to$", o_split_to), (r"mem::take$", o_take),
           (r"Bytes.* as std::ops::Deref.*::deref$|Bytes.*::as_ref$|AsRef.*::as_ref$|Bytes.*::chunk$|Buf.*::chunk$", o_deref), (r"Index(Mut)?.*::index(_mut)?$", o_index),
           (r"ReadBufCursor.*::remaining$", o_remaining), (r"ReadBufCursor.*::put_slice$", o_put),
           (r"ReadBufCursor.*::as_mut$", o_cur_as_mut), (r"ReadBufCursor.*::advance$", o_cur_advance),
           (r"<impl \[.*\]>::as_(mut_)?ptr$", o_as_ptr), (r"<impl \*(mut|const) .*>::cast(_mut|_const)?$", o_same),
           (r"<impl \*mut .*>::copy_from(_nonoverlapping)?$|ptr::copy(_nonoverlapping)?$|intrinsics::copy(_nonoverlapping)?$|<impl \*const .*>::copy_to(_nonoverlapping)?$", o_copy),
           (r"Read.*::poll_read$", o_inner), (r"Pin.* as std::ops::Deref(Mut)?.*::deref(_mut)?$|Pin.*::(new|as_mut|get_mut|new_unchecked)$", o_pin_same),
           (r"cmp::min$|cmp::max$|Ord.*::min$|Ord.*::max$", o_min)] + seqmodel.OPTION_ORACLES + seqmodel.RAW_ORACLES

    def left(st_):
        v = st_.get(RW)
        x = dict(v[2]).get(pi[0]) if v is not None and v[0] == "variant" else None
        if x is not None and x[0] == "variant" and x[1] == "Some":
            x = dict(x[2]).get(0)
        elif x is not None and x[0] == "variant" and x[1] == "None":
            return "none"
        w = _win(x)
        if w is None:
            return "?"
        return "none" if w[0] == w[1] else "[%d,%d)" % w
    outs = AbsPaths(u, limit=20000, raw_oracles=raw, oracles=[INT_CMP, VALUE_EQ]).outcomes(state=st, extra_keys=(LOG, left))
    res = set()
    for (rv, _, (lg, lf)) in outs:
        if rv is not None and rv[0] == "const":
            r = rv[1]
        elif rv is not None and rv[0] == "variant" and rv[1] == "Ready":
            x = dict(rv[2]).get(0)
            r = "Ready(%s)" % (x[1] if x is not None and x[0] == "variant" else "?")
        else:
            r = "?"
        res.add((tuple(e[1] for e in lg[1] if not re.match(r"^put:\[(\d+),\1\)$", str(e[1]))) if lg is not None else None, r, lf))
    return u, res


def table(ctx, facts, label="Rewind::poll_read"):
    rows = 0
    for (pname, pv, m) in (("none", None, 0), ("empty", bytes_(4, 4), 0), ("1-left", bytes_(2, 3), 1), ("3-left", bytes_(0, 3), 3)):
        for room in (0, 1, 2, 5):
            key = "%s|table|prefix=%s|room=%d" % (label, pname, room)
            try:
                u, got = evaluate(facts, pv, room)
            except AbsPaths.Undecided as e:
                ctx.undecided(key, str(e))
                continue
            except KeyError as e:
                return ctx.missing("%s|fields" % label, str(e))
            if rows == 0:
                ctx.touched(u)
            rows += 1
            if m == 0:
                want = {(("inner-read:INNER:CX:CURSOR",), "INNER_RESULT", "none")}
                good = "nothing left to replay: the call is the inner stream's poll_read with the same context and buffer"
            else:
                a = dict(pv[2])[0][1]
                a = int(a)
                n = min(m, room)
                want = {((("put:[%d,%d)" % (a, a + n),) if n else ()), "Ready(Ok)", "none" if n == m else "[%d,%d)" % (a + n, a + m))}
                good = "%d byte(s) left, room for %d: the first %d are copied in order, %s, Ready(Ok), the live stream is not read" % (m, room, n, "nothing remains" if n == m else "%d remain for the next call" % (m - n))
            ctx.check(got == want, key, good, "prefix %s, room %d: the call can do (events, answer, prefix left) = %s, expected %s" % (pname, room, sorted(map(str, got)), sorted(map(str, want))), u.where())
    ctx.floor("%s|table-rows" % label, rows, 16, "scenarios evaluated")
