"""MIR inliner over the fact model.

`inline(facts, fn, depth)` returns a new `Fn` whose body is `fn`'s body with the bodies of crate-local callees
(plain functions and inherent / trait methods that resolved to a crate-local item with a MIR body) spliced in at their
call sites, recursively up to `depth` levels.  Rules that are anchored on an *entry point* and evaluated on its inlined
body see the same control flow and data flow whether a maintainer keeps a step inline, extracts it into a private helper,
or splits a method in two - the property lives in the composition, not in where the lines sit.

Splicing a call `dest = callee(a1..an) -> T`:
  * the callee's locals are appended (renumbered), its blocks appended (renumbered);
  * the call terminator becomes `_p1 = a1; ..; _pn = an; goto callee_bb0`;
  * every `return` of the callee becomes `dest = move _ret; goto T` (or `unreachable` if the call diverges);
  * cleanup blocks and unwind edges are renumbered too but are not part of the normal CFG the rules look at.
Closures are not spliced (they are called through the Fn* traits with a tupled argument); recursion is cut.
"""
import copy
import re

from core import Fn
from mir import is_noise


def _is_place(x):
    return isinstance(x, dict) and isinstance(x.get("l"), int) and isinstance(x.get("p"), list)


def _shift(x, dl):
    """Shift every local number inside a JSON fragment (places, index projections) by dl, in place."""
    if isinstance(x, list):
        for y in x:
            _shift(y, dl)
        return
    if not isinstance(x, dict):
        return
    if _is_place(x):
        x["l"] += dl
        for e in x["p"]:
            if isinstance(e, dict) and "ix" in e:
                e["ix"] += dl
        return
    for k, v in x.items():
        if isinstance(v, (dict, list)):
            _shift(v, dl)


def _retarget(t, db):
    k = t["k"]
    for f in ("t", "u", "im", "drop"):
        if isinstance(t.get(f), int):
            t[f] += db
    if k == "switch":
        t["ts"] = [[v, tb + db] for v, tb in t["ts"]]
        if isinstance(t.get("else"), int):
            t["else"] += db


def _into_to_from(facts, t):
    """`x.into()` through std's blanket `impl Into<D> for S where D: From<S>`: when the `From<S> for D` impl is crate-local the
    call *is* a call of that `from` (logic pushed into a conversion impl is spliced like any other helper)."""
    if t.get("k") != "call" or t.get("resl"):
        return
    name = t.get("resa") or t.get("res") or t.get("decla") or t.get("decl") or ""
    m = re.match(r"^<(.+) as std::convert::Into<(.+)>>::into$", name)
    if not m:
        return
    # split at the top-level " as std::convert::Into<" (S itself may contain generics)
    mark = " as std::convert::Into<"
    depth = 0
    cut = None
    body = name[1:-len(">::into")]
    for i, ch in enumerate(body):
        if ch == "<":
            depth += 1
        elif ch == ">":
            depth -= 1
        elif depth == 0 and body.startswith(mark, i):
            cut = i
            break
    if cut is None:
        return
    src, dst = body[:cut], body[cut + len(mark):-1]
    key = "<%s as std::convert::From<%s>>::from" % (dst, src)
    fns = facts.data["fns"]
    if key not in fns:
        from core import norm
        nk = norm(key)
        cands = [k for k in fns if k.endswith("::from") and norm(k) == nk]
        if len(cands) != 1:
            return
        key = cands[0]
    t["res"] = key
    t["resa"] = key
    t["decl"] = key
    t["decla"] = key
    t["resl"] = True
    t["resk"] = "item"


def inlinable(facts, t, stack, want=None, closures=False):
    _into_to_from(facts, t)
    if t.get("k") != "call" or not t.get("resl") or is_noise(t) or t.get("no_splice"):
        return None
    ck = t.get("res")
    raw = facts.data["fns"].get(ck)
    if raw is None:
        return None
    if t.get("synthetic_closure_call"):
        if raw.get("kind") != "Closure" or ck in stack or int(raw["argc"]) != len(t.get("args", [])):
            return None
        return ck
    if raw.get("kind") == "Closure" and len(raw.get("locals", [])) > 1 and raw["locals"][1].startswith("{async") and \
            (t.get("decl") or "").endswith("Future::poll") and len(t.get("args", [])) == 2:
        # `.await` of a crate-local async fn / async block: Future::poll resolved to the coroutine body
        if not closures or ck in stack:
            return None
        parent = raw.get("parent")
        praw = facts.data["fns"].get(parent) if parent else None
        if want is not None and praw is not None and praw.get("kind") in ("Fn", "AssocFn") and not want(parent, praw):
            return None
        t["await_splice"] = True
        return ck
    if raw.get("kind") == "Closure":
        # a local closure called directly: `let f = |x| ..; f(a)` is Fn*::call*(f, (a,)) resolved to the closure body
        decl = t.get("decl") or ""
        if not closures or ck in stack or len(t.get("args", [])) != 2 or not decl.split("::")[-1] in ("call", "call_mut", "call_once"):
            return None
        pl = t["args"][1].get("m") or t["args"][1].get("c")
        if pl is None:
            return None
        t["rust_call"] = True
        return ck
    if raw.get("kind") not in ("Fn", "AssocFn"):
        return None
    if ck in stack:
        return None
    if int(raw["argc"]) != len(t.get("args", [])):
        return None
    if want is not None and not want(ck, raw):
        return None
    return ck


# ---------------------------------------------------------------------------------------------------------------------
# std combinators as control flow.  `o.map(f)`, `r.map_err(f)`, `o.filter(p)`, `x?` ... are rewritten into the `match`
# they abbreviate (a discriminant switch, the closure body spliced into the arm that calls it, a literal result per arm),
# so that a rule sees one normal form whichever spelling the source uses.

OPT, RES, POLL, CF = "std::option::Option", "std::result::Result", "std::task::Poll", "std::ops::ControlFlow"
HENTRY = "std::collections::hash_map::Entry"
HDRENTRY = "http::header::Entry"
VARIANTS = {HDRENTRY: ["Occupied", "Vacant"], OPT: ["None", "Some"], RES: ["Ok", "Err"], POLL: ["Ready", "Pending"], CF: ["Continue", "Break"], HENTRY: ["Occupied", "Vacant"]}

# result expressions: ("payload",) | ("arg", i) | ("call", i, "payload"|"refpayload"|None) | ("wrap", adt, variant, expr|None)
#                     | ("bool", b) | ("filter", i)
COMBINATORS = [
    (r"^std::option::Option::<.*>::map$", OPT, {"Some": ("wrap", OPT, "Some", ("call", 1, "payload")), "None": ("wrap", OPT, "None", None)}),
    (r"^std::option::Option::<.*>::and_then$", OPT, {"Some": ("call", 1, "payload"), "None": ("wrap", OPT, "None", None)}),
    (r"^std::option::Option::<.*>::filter$", OPT, {"Some": ("filter", 1), "None": ("wrap", OPT, "None", None)}),
    (r"^std::option::Option::<.*>::is_some_and$", OPT, {"Some": ("call", 1, "payload"), "None": ("bool", False)}),
    (r"^std::option::Option::<.*>::is_none_or$", OPT, {"Some": ("call", 1, "payload"), "None": ("bool", True)}),
    (r"^std::option::Option::<.*>::map_or$", OPT, {"Some": ("call", 2, "payload"), "None": ("arg", 1)}),
    (r"^std::option::Option::<.*>::map_or_else$", OPT, {"Some": ("call", 2, "payload"), "None": ("call", 1, None)}),
    (r"^std::option::Option::<.*>::unwrap_or_else$", OPT, {"Some": ("payload",), "None": ("call", 1, None)}),
    (r"^std::option::Option::<.*>::unwrap_or$", OPT, {"Some": ("payload",), "None": ("arg", 1)}),
    (r"^std::option::Option::<.*>::unwrap_or_default$", OPT, {"Some": ("payload",), "None": ("defcall",)}),
    (r"^std::result::Result::<.*>::unwrap_or_default$", RES, {"Ok": ("payload",), "Err": ("defcall",)}),
    (r"^std::option::Option::<.*>::ok_or_else$", OPT, {"Some": ("wrap", RES, "Ok", ("payload",)), "None": ("wrap", RES, "Err", ("call", 1, None))}),
    (r"^std::option::Option::<.*>::ok_or$", OPT, {"Some": ("wrap", RES, "Ok", ("payload",)), "None": ("wrap", RES, "Err", ("arg", 1))}),
    (r"^std::option::Option::<.*>::or_else$", OPT, {"Some": ("wrap", OPT, "Some", ("payload",)), "None": ("call", 1, None)}),
    (r"^std::result::Result::<.*>::map$", RES, {"Ok": ("wrap", RES, "Ok", ("call", 1, "payload")), "Err": ("wrap", RES, "Err", ("payload",))}),
    (r"^std::result::Result::<.*>::map_err$", RES, {"Ok": ("wrap", RES, "Ok", ("payload",)), "Err": ("wrap", RES, "Err", ("call", 1, "payload"))}),
    (r"^std::result::Result::<.*>::and_then$", RES, {"Ok": ("call", 1, "payload"), "Err": ("wrap", RES, "Err", ("payload",))}),
    (r"^std::result::Result::<.*>::or_else$", RES, {"Ok": ("wrap", RES, "Ok", ("payload",)), "Err": ("call", 1, "payload")}),
    (r"^std::result::Result::<.*>::unwrap_or_else$", RES, {"Ok": ("payload",), "Err": ("call", 1, "payload")}),
    (r"^std::result::Result::<.*>::unwrap_or$", RES, {"Ok": ("payload",), "Err": ("arg", 1)}),
    (r"^std::result::Result::<.*>::ok$", RES, {"Ok": ("wrap", OPT, "Some", ("payload",)), "Err": ("wrap", OPT, "None", None)}),
    (r"^std::result::Result::<.*>::err$", RES, {"Ok": ("wrap", OPT, "None", None), "Err": ("wrap", OPT, "Some", ("payload",))}),
    (r"^std::task::Poll::<.*>::map$", POLL, {"Ready": ("wrap", POLL, "Ready", ("call", 1, "payload")), "Pending": ("wrap", POLL, "Pending", None)}),
    (r"^std::collections::hash_map::Entry::<.*>::or_insert_with$", HENTRY,
     {"Occupied": ("stdcall", "std::collections::hash_map::OccupiedEntry::into_mut", ["payload"]),
      "Vacant": ("stdcall", "std::collections::hash_map::VacantEntry::insert", ["payload", ("call", 1, None)])}),
    (r"^http::header::(map::)?Entry::<.*>::or_insert_with$", HDRENTRY,
     {"Occupied": ("stdcall", "http::header::OccupiedEntry::into_mut", ["payload"]),
      "Vacant": ("stdcall", "http::header::VacantEntry::insert", ["payload", ("call", 1, None)])}),
    (r"^http::header::(map::)?Entry::<.*>::or_insert$", HDRENTRY,
     {"Occupied": ("stdcall", "http::header::OccupiedEntry::into_mut", ["payload"]),
      "Vacant": ("stdcall", "http::header::VacantEntry::insert", ["payload", ("arg", 1)])}),
    (r"^std::collections::hash_map::Entry::<.*>::or_insert$", HENTRY,
     {"Occupied": ("stdcall", "std::collections::hash_map::OccupiedEntry::into_mut", ["payload"]),
      "Vacant": ("stdcall", "std::collections::hash_map::VacantEntry::insert", ["payload", ("arg", 1)])}),
    (r"^std::task::Poll::<std::result::Result<.*>>::map_ok$", POLL,
     {"Ready": ("match", RES, {"Ok": ("wrap", POLL, "Ready", ("wrap", RES, "Ok", ("call", 1, "payload"))), "Err": ("wrap", POLL, "Ready", ("wrap", RES, "Err", ("payload",)))}),
      "Pending": ("wrap", POLL, "Pending", None)}),
    (r"^std::task::Poll::<std::result::Result<.*>>::map_err$", POLL,
     {"Ready": ("match", RES, {"Ok": ("wrap", POLL, "Ready", ("wrap", RES, "Ok", ("payload",))), "Err": ("wrap", POLL, "Ready", ("wrap", RES, "Err", ("call", 1, "payload")))}),
      "Pending": ("wrap", POLL, "Pending", None)}),
    (r"^<std::option::Option<.*> as std::ops::Try>::branch$", OPT, {"Some": ("wrap", CF, "Continue", ("payload",)), "None": ("wrap", CF, "Break", ("wrap", OPT, "None", None))}),
    (r"^<std::result::Result<.*> as std::ops::Try>::branch$", RES, {"Ok": ("wrap", CF, "Continue", ("payload",)), "Err": ("wrap", CF, "Break", ("wrap", RES, "Err", ("payload",)))}),
    (r"^<std::option::Option<.*> as std::ops::FromResidual<.*>>::from_residual$", None, ("wrap", OPT, "None", None)),
    # the residual of a Result is always its Err (Ok is Infallible): no test, a literal Err(e)
    (r"^<std::result::Result<.*> as std::ops::FromResidual<std::result::Result<.*>>>::from_residual$", None,
     ("wrap", RES, "Err", ("argfield", 0, "Err", 1))),
    (r"^<std::task::Poll<std::result::Result<.*>> as std::ops::FromResidual<std::result::Result<.*>>>::from_residual$", None,
     ("wrap", POLL, "Ready", ("wrap", RES, "Err", ("argfield", 0, "Err", 1)))),
]


def _find_combinator(t):
    import re
    if t.get("k") != "call" or t.get("resl") or is_noise(t):
        return None
    name = t.get("resa") or t.get("res") or t.get("decla") or ""
    gen = t.get("res") or t.get("decl") or ""
    for pat, adt, arms in COMBINATORS:
        if re.search(pat, gen) or re.search(pat, name):
            return (adt, arms)
    return None


def _closure_key_of(d, blocks, operand, facts):
    """Body key of the closure / function item an operand denotes, looking through moves inside the function."""
    k = operand.get("k") if isinstance(operand, dict) else None
    if k:
        for f in ("closure", "fn", "fna"):
            if k.get(f) in facts.data["fns"]:
                return k[f], "item"
        if k.get("fn"):
            # a function item of another crate used as the callback (`.map(str::parse::<T>)`, `.and_then(Result::ok)`): the
            # expansion calls it by name; what it does is then up to the rules / oracles, as for any foreign call
            return k["fn"], "foreign"
        return None, None
    pl = operand.get("m") or operand.get("c")
    seen = 0
    while pl is not None and not pl["p"] and seen < 8:
        seen += 1
        defs = []
        for blk in blocks:
            for st in blk["s"]:
                if st.get("k") == "assign" and st["p"]["l"] == pl["l"] and not st["p"]["p"]:
                    defs.append(st)
        if len(defs) != 1:
            return None, None
        r = defs[0]["r"]
        if r["k"] == "agg":
            for kk in ("closure",):
                if kk in r and r[kk] in facts.data["fns"]:
                    return r[kk], "closure"
            return None, None
        if r["k"] == "use":
            o = r["o"]
            if "k" in o:
                return _closure_key_of(d, blocks, o, facts)
            pl = o.get("m") or o.get("c")
            continue
        return None, None
    return None, None


def _expand_combinator(facts, d, blocks, b, spec, level, stack_of):
    """Rewrite block b's combinator call into a switch with one arm per variant.  Returns True when rewritten."""
    adt, arms = spec
    blk = blocks[b]
    t = blk["t"]
    target = t.get("t")
    if target is None:
        return False
    args = t["args"]
    dest = t["dest"]
    line = t.get("l")
    lv = level[b]
    stk = stack_of[b]

    def new_local(ty="?"):
        d["locals"] = d["locals"] + [ty]
        if "user" in d:
            d["user"] = d["user"] + ["false"]
        return len(d["locals"]) - 1

    def new_block(stmts, term):
        blocks.append({"s": stmts, "t": term, "cleanup": False, "file": blk.get("file"), "syn": True})
        nid = len(blocks) - 1
        level[nid] = lv
        stack_of[nid] = stk
        return nid

    # resolve closures used by the arms first: if one cannot be resolved keep the call as it is
    need = set()

    def closures_in(e):
        if e is None:
            return
        if e[0] in ("call", "filter"):
            need.add(e[1])
        if e[0] == "wrap":
            closures_in(e[3])
        if e[0] == "match":
            for x in e[2].values():
                closures_in(x)
        if e[0] == "stdcall":
            for a in e[2]:
                if a != "payload":
                    closures_in(a)
    if adt is None:
        closures_in(arms)
    else:
        for e in arms.values():
            closures_in(e)
    ckeys = {}
    for i in need:
        if i >= len(args):
            return False
        ck, kind = _closure_key_of(d, blocks, args[i], facts)
        if ck is None:
            return False
        raw = facts.data["fns"].get(ck)
        ckeys[i] = (ck, kind, raw)

    ret = new_local()
    glue = new_block([{"k": "assign", "p": copy.deepcopy(dest), "r": {"k": "use", "o": {"m": {"l": ret, "p": []}}}, "l": line, "syn": "glue"}],
                     {"k": "goto", "t": target, "l": line})
    lo = len(blocks)

    def emit(e, payload, cont_place, nxt):
        """Blocks computing expression e into cont_place, then going to nxt.  Returns the entry block id."""
        if e is None:
            return nxt
        kind = e[0]
        if kind == "payload":
            return new_block([{"k": "assign", "p": cont_place, "r": {"k": "use", "o": {"m": copy.deepcopy(payload)}}, "l": line}], {"k": "goto", "t": nxt, "l": line})
        if kind == "match":
            # nested test of the current payload: ("match", ADT, {variant: expr})
            _, madt, marms = e
            vs_ = VARIANTS[madt]
            dtmp = new_local("isize")
            ent = {}
            for i_, v_ in enumerate(vs_):
                pl2 = {"l": payload["l"], "p": list(payload["p"]) + [{"d": v_, "i": i_}, {"f": 0, "n": "0", "t": None}]}
                ent[v_] = emit(marms[v_], pl2, cont_place, nxt)
            st_ = {"k": "assign", "p": {"l": dtmp, "p": []}, "r": {"k": "discr", "p": copy.deepcopy(payload), "adt": madt, "vars": [[str(i_), v_] for i_, v_ in enumerate(vs_)]}, "l": line, "syn": "discr"}
            return new_block([st_], {"k": "switch", "o": {"m": {"l": dtmp, "p": []}}, "oty": "isize", "ts": [["0", ent[vs_[0]]]], "else": ent[vs_[1]], "l": line, "syn": "comb"})
        if kind == "argfield":
            _, ai, vname, vidx = e
            base = args[ai].get("m") or args[ai].get("c")
            if base is None:
                return new_block([{"k": "assign", "p": cont_place, "r": {"k": "use", "o": copy.deepcopy(args[ai])}, "l": line}], {"k": "goto", "t": nxt, "l": line})
            src = {"l": base["l"], "p": list(base["p"]) + [{"d": vname, "i": vidx}, {"f": 0, "n": "0", "t": None}]}
            return new_block([{"k": "assign", "p": cont_place, "r": {"k": "use", "o": {"m": src}}, "l": line}], {"k": "goto", "t": nxt, "l": line})
        if kind == "arg":
            return new_block([{"k": "assign", "p": cont_place, "r": {"k": "use", "o": copy.deepcopy(args[e[1]])}, "l": line}], {"k": "goto", "t": nxt, "l": line})
        if kind == "bool":
            return new_block([{"k": "assign", "p": cont_place, "r": {"k": "use", "o": {"k": {"ty": "bool", "v": "true" if e[1] else "false"}}}, "l": line}], {"k": "goto", "t": nxt, "l": line})
        if kind == "stdcall":
            # dest = <std fn>(args...) where an argument is the payload or a sub-expression computed first
            _, name, alist = e
            cargs = []
            chain_entry = None
            pending = []
            for a in alist:
                if a == "payload":
                    cargs.append({"m": copy.deepcopy(payload)})
                else:
                    tmp = new_local()
                    cargs.append({"m": {"l": tmp, "p": []}})
                    pending.append((a, tmp))
            term = {"k": "call", "decl": name, "decla": name, "res": name, "resa": name, "resl": False, "resk": "item", "args": cargs, "argtys": [], "dest": cont_place, "t": nxt, "u": None, "l": line, "fl": line}
            cur = new_block([], term)
            for (a, tmp) in reversed(pending):
                cur = emit(a, payload, {"l": tmp, "p": []}, cur)
            return cur
        if kind == "defcall":
            term = {"k": "call", "decl": "std::default::Default::default", "decla": "std::default::Default::default", "res": None, "resl": False, "args": [], "argtys": [],
                    "dest": cont_place, "t": nxt, "u": None, "l": line, "fl": line}
            return new_block([], term)
        if kind == "wrap":
            _, wadt, wv, inner = e
            if inner is None:
                st = {"k": "assign", "p": cont_place, "r": {"k": "agg", "adt": wadt, "v": wv, "vi": VARIANTS[wadt].index(wv), "fields": [], "ops": []}, "l": line}
                return new_block([st], {"k": "goto", "t": nxt, "l": line})
            tmp = new_local()
            st = {"k": "assign", "p": cont_place, "r": {"k": "agg", "adt": wadt, "v": wv, "vi": VARIANTS[wadt].index(wv), "fields": ["0"], "ops": [{"m": {"l": tmp, "p": []}}]}, "l": line}
            wb = new_block([st], {"k": "goto", "t": nxt, "l": line})
            return emit(inner, payload, {"l": tmp, "p": []}, wb)
        if kind == "call":
            _, ci, how = e
            ck, ckind, raw = ckeys[ci]
            if ckind == "foreign":
                mctor = re.search(r"(?:option::Option(?:::<.*>)?|result::Result(?:::<.*>)?|prelude::\w+)::(Some|Ok|Err)$", ck)
                if mctor and how == "payload":
                    # a tuple-variant constructor used as the callback (`.map(Err)`): the value is the variant itself
                    wadt = OPT if mctor.group(1) == "Some" else RES
                    return emit(("wrap", wadt, mctor.group(1), ("payload",)), payload, cont_place, nxt)
            cargs = []
            pre = []
            if ckind == "closure":
                env_ty = raw["locals"][1] if len(raw["locals"]) > 1 else ""
                cl = args[ci].get("m") or args[ci].get("c")
                if env_ty.startswith("&"):
                    envl = new_local(env_ty)
                    pre.append({"k": "assign", "p": {"l": envl, "p": []}, "r": {"k": "ref", "bk": "mut" if env_ty.startswith("&mut") else "shared", "p": copy.deepcopy(cl)}, "l": line})
                    cargs.append({"m": {"l": envl, "p": []}})
                else:
                    cargs.append(copy.deepcopy(args[ci]))
            if how == "payload":
                cargs.append({"m": copy.deepcopy(payload)})
            elif how == "refpayload":
                rl = new_local()
                pre.append({"k": "assign", "p": {"l": rl, "p": []}, "r": {"k": "ref", "bk": "shared", "p": copy.deepcopy(payload)}, "l": line})
                cargs.append({"m": {"l": rl, "p": []}})
            term = {"k": "call", "res": ck, "resa": ck, "decl": ck, "resl": ckind != "foreign", "resk": "item", "args": cargs, "argtys": [], "dest": cont_place, "t": nxt, "u": None, "l": line, "fl": line}
            if ckind == "foreign":
                fna = (args[ci].get("k") or {}).get("fna") or ck
                term.update({"decla": fna, "resa": fna, "targs": []})
            if ckind == "closure":
                term["synthetic_closure_call"] = True
            return new_block(pre, term)
        if kind == "filter":
            ci = e[1]
            flag = new_local("bool")
            keep = emit(("wrap", OPT, "Some", ("payload",)), payload, cont_place, nxt)
            drop_ = emit(("wrap", OPT, "None", None), payload, cont_place, nxt)
            sw = new_block([], {"k": "switch", "o": {"m": {"l": flag, "p": []}}, "oty": "bool", "ts": [["0", drop_]], "else": keep, "l": line})
            return emit(("call", ci, "refpayload"), payload, {"l": flag, "p": []}, sw)
        raise ValueError(kind)

    if adt is None:
        entry = emit(arms, None, {"l": ret, "p": []}, glue)
        blk["t"] = {"k": "goto", "t": entry, "l": line, "syn": "comb"}
    else:
        recv = new_local()
        dl_ = new_local("isize")
        blk["s"].append({"k": "assign", "p": {"l": recv, "p": []}, "r": {"k": "use", "o": copy.deepcopy(args[0])}, "l": line, "syn": "recv"})
        vs = VARIANTS[adt]
        blk["s"].append({"k": "assign", "p": {"l": dl_, "p": []}, "r": {"k": "discr", "p": {"l": recv, "p": []}, "adt": adt, "vars": [[str(i), v] for i, v in enumerate(vs)]}, "l": line, "syn": "discr"})
        entries = {}
        for i, v in enumerate(vs):
            payload = {"l": recv, "p": [{"d": v, "i": i}, {"f": 0, "n": "0", "t": None}]}
            entries[v] = emit(arms[v], payload, {"l": ret, "p": []}, glue)
        blk["t"] = {"k": "switch", "o": {"m": {"l": dl_, "p": []}}, "oty": "isize", "ts": [["0", entries[vs[0]]]], "else": entries[vs[1]], "l": line, "syn": "comb"}
    hi = len(blocks)
    _thread_returns(d, blocks, lo, hi, ret, glue, level, stack_of)
    d.setdefault("_glues", []).append((lo, hi, ret, glue))
    return True


def _normal_succ(blocks, b):
    t = blocks[b]["t"]
    k = t["k"]
    if k in ("goto", "drop", "assert", "false_edge", "false_unwind"):
        return [t["t"]]
    if k == "call":
        return [t["t"]] if t.get("t") is not None else []
    if k == "switch":
        return [tb for _, tb in t["ts"]] + [t["else"]]
    if k == "yield":
        return [t["t"]]
    return []


def _const_result(st, ret_local, blocks=None):
    """('variant', name) / ('bool', b) when the statement assigns a literal enum variant / bool to the whole return local
    (directly, or by moving a temporary whose only definition in the function is such a literal)."""
    if st.get("k") != "assign" or st["p"]["l"] != ret_local or st["p"]["p"]:
        return None
    r = st["r"]
    if r["k"] == "use" and blocks is not None:
        q = r["o"].get("m") or r["o"].get("c")
        hops = 0
        while q is not None and not q["p"] and hops < 4:
            hops += 1
            defs = [s2 for blk in blocks for s2 in blk["s"] if s2.get("k") == "assign" and s2["p"]["l"] == q["l"] and not s2["p"]["p"]]
            calls = [blk for blk in blocks if blk["t"].get("k") == "call" and blk["t"]["dest"]["l"] == q["l"]]
            if len(defs) != 1 or calls:
                return None
            r = defs[0]["r"]
            if r["k"] == "use" and ("m" in r["o"] or "c" in r["o"]):
                q = r["o"].get("m") or r["o"].get("c")
                continue
            break
    if r["k"] == "agg" and "adt" in r and r.get("v") is not None:
        return ("variant", r["v"])
    if r["k"] == "use" and "k" in r["o"] and r["o"]["k"].get("v") in ("true", "false"):
        return ("bool", r["o"]["k"]["v"] == "true")
    return None


def _thread_returns(d, blocks, lo, hi, ret_local, glue, level, stack_of):
    """Jump threading across the spliced return: when a return path of the callee leaves with a literal result
    (`return None`, `Some(x)`, `true`) and the caller immediately branches on that result (`if let Some(..) = helper()`,
    `match helper()`, `if helper()`), the path is connected straight to the matching arm.  Without it every return path of
    the helper would seem to reach every arm of the caller's test (the CFG alone does not relate the two)."""
    T = blocks[glue]["t"]["t"]
    tb = blocks[T]
    tt = tb["t"]
    if tt["k"] != "switch":
        return
    dest = blocks[glue]["s"][0]["p"]
    op = tt["o"].get("m") or tt["o"].get("c")
    if op is None or op["p"]:
        return
    # how is the switch operand computed inside T?
    mode = None
    vars_ = None
    aliases = [dest]   # whole-value copies of dest made inside T before the test (`recv = move dest`)
    for st in tb["s"]:
        if st.get("k") == "assign" and st["p"]["l"] == dest["l"] and len(st["p"]["p"]) <= len(dest["p"]):
            return  # dest is rewritten before the test
        if st.get("k") == "assign" and not st["p"]["p"] and st["r"]["k"] == "use" and (st["r"]["o"].get("m") in aliases or st["r"]["o"].get("c") in aliases) \
                and st["p"]["l"] != op["l"]:
            aliases.append({"l": st["p"]["l"], "p": []})
        if st.get("k") == "assign" and st["p"]["l"] == op["l"] and not st["p"]["p"]:
            r = st["r"]
            if r["k"] == "discr" and r["p"] in aliases and "vars" in r:
                mode, vars_ = "variant", {name: v for v, name in r["vars"]}
            elif r["k"] == "use" and (r["o"].get("m") in aliases or r["o"].get("c") in aliases):
                mode = "bool"
            else:
                mode = None
    if mode is None and tt.get("oty") == "bool" and op == dest:
        mode = "bool"
    if mode is None:
        return

    def arm_for(res):
        if res[0] == "variant" and mode == "variant":
            v = vars_.get(res[1])
            if v is None:
                return None
            for vv, tgt in tt["ts"]:
                if vv == v:
                    return tgt
            return tt["else"]
        if res[0] == "bool" and mode == "bool":
            for vv, tgt in tt["ts"]:
                if vv == "0":
                    return tgt if not res[1] else tt["else"]
            return None
        return None

    for a in range(lo, hi):
        blk = blocks[a]
        if blk.get("cleanup"):
            continue
        res = None
        for st in blk["s"]:
            c = _const_result(st, ret_local, blocks)
            if c is not None:
                res = c
            elif st.get("k") == "assign" and st["p"]["l"] == ret_local:
                res = None
        if res is None:
            continue
        arm = arm_for(res)
        if arm is None:
            continue
        # linear chain a -> ... -> glue
        chain = []
        cur = a
        ok = True
        for _ in range(64):
            ns = _normal_succ(blocks, cur)
            if len(ns) != 1:
                ok = False
                break
            nxt = ns[0]
            if nxt == glue:
                break
            nb_ = blocks[nxt]
            if nb_["t"]["k"] == "call" and not is_noise(nb_["t"]):
                ok = False
                break
            if any(st.get("k") == "assign" and st["p"]["l"] == ret_local for st in nb_["s"]):
                ok = False
                break
            chain.append(nxt)
            cur = nxt
        else:
            ok = False
        if not ok:
            continue
        # duplicate chain + glue + T (with T's switch resolved) and route block a through the copies
        prev = a
        for src in chain + [glue, T]:
            cp = copy.deepcopy(blocks[src])
            nid = len(blocks)
            blocks.append(cp)
            level[nid] = level.get(src, 0)
            stack_of[nid] = stack_of.get(src, ())
            pt = blocks[prev]["t"]
            pt["t"] = nid
            prev = nid
        blocks[prev]["t"] = {"k": "goto", "t": arm, "l": tt.get("l"), "threaded": True}


def _thread_bools(blocks, level, stack_of, rounds=3):
    """Jump threading across boolean joins: `let ok = a && b; if !ok {..}`, `if a || b`, a flag set on one path and tested
    right after the join.  When a block only tests a boolean local (possibly through `!` / copies) and a predecessor path
    assigned that local a literal, the path is connected straight to the matching arm.  The CFG then shows that the arm is
    reached exactly on the conditions that decided the literal (`a` false), whichever way the condition was spelled."""
    for _ in range(rounds):
        changed = False
        n0 = len(blocks)
        for T in range(n0):
            tb = blocks[T]
            tt = tb["t"]
            if tb.get("cleanup") or tt.get("k") != "switch" or tt.get("oty") != "bool":
                continue
            op = tt["o"].get("m") or tt["o"].get("c")
            if op is None or op["p"]:
                continue
            base, pol, ok = op["l"], True, True
            for st in reversed(tb["s"]):
                if st.get("k") != "assign":
                    continue
                if st["p"]["p"] or st["p"]["l"] != base:
                    ok = False    # the block computes something else as well: skipping it would lose that
                    break
                r = st["r"]
                src = None
                if r["k"] == "unop" and r.get("op") == "Not":
                    src = r["o"].get("m") or r["o"].get("c")
                    flip = True
                elif r["k"] == "use":
                    src = r["o"].get("m") or r["o"].get("c")
                    flip = False
                if src is None or src["p"]:
                    ok = False
                    break
                base = src["l"]
                pol = pol != flip
            if not ok:
                continue
            f_tgt = [tgt for vv, tgt in tt["ts"] if vv == "0"]
            if len(f_tgt) != 1 or len(tt["ts"]) != 1:
                continue
            preds = {}
            for a in range(n0):
                if blocks[a].get("cleanup"):
                    continue
                ta = blocks[a]["t"]
                if ta.get("k") == "goto" and ta.get("t") == T:
                    preds[a] = True
            for a in sorted(preds):
                # walk back along a linear chain of goto-only blocks to the literal assignment of `base`
                chain = [a]
                cur = a
                val = None
                for _hop in range(6):
                    lit = None
                    touched = False
                    for st in blocks[cur]["s"]:
                        if st.get("k") == "assign" and st["p"]["l"] == base:
                            touched = True
                            r = st["r"]
                            if not st["p"]["p"] and r["k"] == "use" and "k" in r["o"] and r["o"]["k"].get("v") in ("true", "false"):
                                lit = r["o"]["k"]["v"] == "true"
                            else:
                                lit = None
                    if touched:
                        val = lit
                        break
                    ps = [x for x in range(len(blocks)) if not blocks[x].get("cleanup") and cur in _normal_succ(blocks, x)]
                    if len(ps) != 1 or blocks[ps[0]]["t"].get("k") != "goto":
                        break
                    cur = ps[0]
                    chain.insert(0, cur)
                if val is None:
                    continue
                taken = val if pol else (not val)
                arm = tt["else"] if taken else f_tgt[0]
                # chain[0] holds the literal; blocks after it up to `a` may be shared with other paths: copy them
                prev = chain[0]
                for src in chain[1:]:
                    cp = copy.deepcopy(blocks[src])
                    nid = len(blocks)
                    blocks.append(cp)
                    level[nid] = level.get(src, 0)
                    stack_of[nid] = stack_of.get(src, ())
                    blocks[prev]["t"] = dict(blocks[prev]["t"], t=nid)
                    prev = nid
                blocks[prev]["t"] = {"k": "goto", "t": arm, "l": blocks[prev]["t"].get("l"), "threaded": True}
                changed = True
        if not changed:
            break


def _trace_coroutine_local(blocks, arg0):
    """Local holding the coroutine that `Future::poll(Pin::new_unchecked(&mut f), cx)` polls (the `.await` desugaring):
    pinned ref <- Pin::new_unchecked(&mut X) <- X = into_future(Y) <- Y = moves ... <- coroutine aggregate."""
    def defs_of(l):
        out = []
        for blk in blocks:
            for st in blk["s"]:
                if st.get("k") == "assign" and st["p"]["l"] == l and not st["p"]["p"]:
                    out.append(("stmt", st))
            tt = blk["t"]
            if tt.get("k") == "call" and tt["dest"]["l"] == l and not tt["dest"]["p"]:
                out.append(("call", tt))
        return out
    pl = arg0.get("m") or arg0.get("c")
    if pl is None or pl["p"]:
        return None
    l = pl["l"]
    for _ in range(24):
        ds = defs_of(l)
        if len(ds) != 1:
            return None
        kind, x = ds[0]
        if kind == "call":
            name = (x.get("decl") or "")
            if name.endswith("new_unchecked") or name.endswith("into_future") or name.endswith("Pin::new"):
                q = x["args"][0].get("m") or x["args"][0].get("c")
                if q is None or q["p"]:
                    return None
                l = q["l"]
                continue
            return None
        r = x["r"]
        if r["k"] == "agg" and "coroutine" in r:
            return l
        if r["k"] == "use":
            q = r["o"].get("m") or r["o"].get("c")
            if q is None or q["p"]:
                return None
            l = q["l"]
            continue
        if r["k"] == "ref":
            q = r["p"]
            if q["p"] not in ([], ["*"]):
                return None
            l = q["l"]
            continue
        return None
    return None


def inline(facts, fn, depth=2, want=None, expand=False):
    d = copy.deepcopy(fn.d)
    expanded = []
    blocks = d["blocks"]
    level = {b: 0 for b in range(len(blocks))}
    stack_of = {b: (fn.key,) for b in range(len(blocks))}
    inlined = []
    b = 0
    while b < len(blocks):
        blk = blocks[b]
        t = blk["t"]
        lv = level[b]
        if expand and not blk.get("cleanup") and t.get("k") == "call":
            spec = _find_combinator(t)
            if spec is not None and _expand_combinator(facts, d, blocks, b, spec, level, stack_of):
                expanded.append(t.get("res") or t.get("decl"))
                # the block now ends in a switch / goto; synthetic closure calls sit in the new blocks
                b += 1
                continue
        ck = inlinable(facts, t, stack_of[b], want, closures=expand) if (lv < depth or t.get("synthetic_closure_call")) and not blk.get("cleanup") else None
        if ck is None:
            b += 1
            continue
        raw = copy.deepcopy(facts.data["fns"][ck])
        dl = len(d["locals"])
        db = len(blocks)
        d["locals"] = d["locals"] + raw["locals"]
        if "user" in d and "user" in raw:
            d["user"] = d["user"] + raw["user"]
        for n, p in raw.get("names", []):
            q = copy.deepcopy(p)
            _shift(q, dl)
            d["names"].append([n + "@" + ck.split("::")[-1], q])
        target = t.get("t")
        dest = t["dest"]
        nb = len(raw["blocks"])
        glue = db + nb if target is not None else None
        for i, cb in enumerate(raw["blocks"]):
            _shift(cb["s"], dl)
            ct = cb["t"]
            _shift(ct, dl)
            _retarget(ct, db)
            if ct["k"] == "return":
                if glue is None:
                    cb["t"] = {"k": "unreachable", "l": ct.get("l")}
                else:
                    cb["t"] = {"k": "goto", "t": glue, "l": ct.get("l"), "inl_ret": ck}
            cb["file"] = raw.get("file")
            cb["inl"] = ck
            blocks.append(cb)
            level[db + i] = lv + 1
            stack_of[db + i] = stack_of[b] + (ck,)
        if glue is not None:
            blocks.append({"s": [{"k": "assign", "p": copy.deepcopy(dest), "r": {"k": "use", "o": {"m": {"l": dl, "p": []}}}, "l": t.get("l"), "inl_glue": ck}],
                           "t": {"k": "goto", "t": target, "l": t.get("l")}, "cleanup": False, "inl": ck, "file": blk.get("file")})
            level[glue] = lv
            stack_of[glue] = stack_of[b]
        if glue is not None:
            _thread_returns(d, blocks, db, db + nb, dl, glue, level, stack_of)
            d.setdefault("_glues", []).append((db, db + nb, dl, glue))
        # argument passing + jump
        if t.get("await_splice"):
            cor = _trace_coroutine_local(blocks, t["args"][0])
            if cor is None:
                # cannot find the coroutine value: undo the splice (leave the call)
                del blocks[db:]
                d["locals"] = d["locals"][:dl]
                if "user" in d:
                    d["user"] = d["user"][:dl]
                t.pop("await_splice", None)
                t["no_splice"] = True
                b += 1
                continue
            blk["s"].append({"k": "assign", "p": {"l": dl + 1, "p": []}, "r": {"k": "use", "o": {"m": {"l": cor, "p": []}}}, "l": t.get("l"), "inl_arg": ck})
            blk["s"].append({"k": "assign", "p": {"l": dl + 2, "p": []}, "r": {"k": "use", "o": copy.deepcopy(t["args"][1])}, "l": t.get("l"), "inl_arg": ck})
            # the spliced body returns the awaited value: the poll "answers" Ready(value)
            g_ = blocks[glue]
            tmp = len(d["locals"])
            d["locals"] = d["locals"] + ["?"]
            if "user" in d:
                d["user"] = d["user"] + ["false"]
            g_["s"] = [{"k": "assign", "p": {"l": tmp, "p": []}, "r": {"k": "use", "o": {"m": {"l": dl, "p": []}}}, "l": t.get("l")},
                       {"k": "assign", "p": copy.deepcopy(dest), "r": {"k": "agg", "adt": "std::task::Poll", "v": "Ready", "vi": 0, "fields": ["0"], "ops": [{"m": {"l": tmp, "p": []}}]}, "l": t.get("l"), "inl_glue": ck}]
        elif t.get("rust_call"):
            blk["s"].append({"k": "assign", "p": {"l": dl + 1, "p": []}, "r": {"k": "use", "o": copy.deepcopy(t["args"][0])}, "l": t.get("l"), "inl_arg": ck})
            tup = t["args"][1].get("m") or t["args"][1].get("c")
            for i in range(int(raw["argc"]) - 1):
                src = {"l": tup["l"], "p": list(tup["p"]) + [{"f": i, "n": str(i), "t": None}]}
                blk["s"].append({"k": "assign", "p": {"l": dl + 2 + i, "p": []}, "r": {"k": "use", "o": {"m": src}}, "l": t.get("l"), "inl_arg": ck})
        else:
            for i, a in enumerate(t.get("args", [])):
                blk["s"].append({"k": "assign", "p": {"l": dl + 1 + i, "p": []}, "r": {"k": "use", "o": copy.deepcopy(a)}, "l": t.get("l"), "inl_arg": ck})
        blk["t"] = {"k": "goto", "t": db, "l": t.get("l"), "inl_call": ck, "x": t.get("x")}
        inlined.append(ck)
        b += 1
    # second threading pass: a continuation that was a call when its producer was spliced (e.g. `x.ok_or(e)?`: the `?`
    # is expanded after `ok_or`) may have become a test of the produced value since
    for _ in range(2):
        for (lo_, hi_, ret_, glue_) in list(d.get("_glues", [])):
            try:
                _thread_returns(d, blocks, lo_, hi_, ret_, glue_, level, stack_of)
            except (KeyError, IndexError):
                pass
    if expand:
        _thread_bools(blocks, level, stack_of)
    d.pop("_glues", None)
    g = Fn(fn.facts, fn.key, d)
    g.inlined = inlined
    g.expanded = expanded
    g.origin = fn
    return g
