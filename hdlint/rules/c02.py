"""C02: a non-multiplexed connection serves one request at a time (level: proof, modulo hyper)."""
import pool

META = {
    "thorough_extra": ["mocks", "client-only"],
    "level": "proof",
    "explanation": "Ownership argument whose premises are each decided statically: a connection value cannot be duplicated except through reuse() "
                   "(P4: no Clone supertrait / impl, reuse call sites enumerated, H1 arm of HttpConnection::reuse is None and can_share false), so an "
                   "HTTP/1 connection is in exactly one holder (Rust move semantics); it re-enters the pool only through PoolInner::push, whose callers "
                   "are enumerated with provenance and guards (P2), reached from a holder only via a spawned WhenReady (P3) that resolves on "
                   "poll_ready's Ready edge and hands back only if is_open()==true, which is the sender's is_ready() (C02.1); Pooled does not leak the "
                   "connection by value (C02.2); the idle list has one entrance (P1).",
    "trusted_base": ["rustc type/borrow checker (move semantics, no Clone)", "hyper: SendRequest::poll_ready/is_ready are Ready/true only when the previous exchange is complete and never after an upgrade",
                     "tokio oneshot delivers a value to at most one receiver"],
    "assumptions": ["custom PoolableConnection impls honour the can_share/reuse contract (the crate's own HttpConnection is checked)"],
    "undecided": "hyper's readiness semantics (trusted); user-supplied PoolableConnection impls",
    "level_text": "proof by enumeration of premises of an ownership/inductive argument (every premise a decided local fact over all paths), modulo hyper's documented sender semantics",
}

import witness


def W(ctx):
    witness.run(ctx, {"W1": "HttpConnection<Body>: Clone does not hold", "W2": "Pooled.connection is not accessible outside the pool module",
                      "W3": "Pooled<HttpConnection<Body>, Body>: Clone does not hold"})


THOROUGH_RULES = [("W", W)]

RULES = [
    ("P1", pool.P1, ["default"]),
    ("P2", pool.P2_aspects("callers", "open-guard", "conn"), ["default"]),
    ("P3", pool.P3, ["default"]),
    ("P4", pool.P4, ["default"]),
    ("C02.1", pool.C02_1, ["default"]),
    ("C02.2", pool.C02_2, ["default"]),
]
