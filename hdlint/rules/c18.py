"""C18: stream adapters deliver exactly the bytes written, in order (level: other)."""
import re
from core import norm, L_call, L_variant, arms, assigns_to_return, closure_arg_of, sig, const_of, CallSite, L_poll, L_result
from mir import op_place
import fwd
import c08

META = {
    "thorough_extra": ["mocks", "client-only", "server-only", "aws"],
    "level": "other",
    "explanation": "(E-FWD) every plain forwarding I/O method of the crate - TokioIo (write side, both directions), Rewind (write side), Braid / TlsBraid, client and server Stream, "
                   "DuplexStream, TcpStream, UnixStream - calls, on every path and in every match arm, the same trait item on a part of self, passes cx / buf / bufs as received and "
                   "returns the call's result untransformed; the lazy-handshake TLS streams are checked by their own exception rule; and for the three counting adapters: "
                   "(C18.1) TokioIo as hyper Read - advance(n) only on the Ready(Ok) edge with n = tbuf.filled().len() of the buffer built from buf.as_mut(), other results returned unchanged; "
                   "(C18.2) TokioIo as AsyncRead - set_filled(a + b) with a = tbuf.filled().len() read before the inner call and b = the sub-buffer's filled().len() after it, "
                   "assume_init(b), sub-buffer built from tbuf.unfilled_mut(); (C18.3) Rewind::poll_read (= C08.5); (C18.4) DuplexStream::new gives both ends one tokio::io::duplex pair; "
                   "(C18.5) the crate's unsafe blocks are exactly the eight known blocks in the six known functions."
                   " C18.6 claims the sniffing half of the rewind buffer (progress persisted after every successful read, Rewind given the reader's io and the whole filled buffer); unsafe blocks are filed under their owner with reviewed counts."
                   " As built now: C18.1 / C18.2 are decision tables of the two read bridges (bridgetable.py: buffers as objects, the inner read a nondeterministic step incl. readers that initialise more than they fill: advance by exactly the bytes filled, initialised before filled, the new bytes land right behind those already in the caller's buffer - the region the sub-buffer is built over is followed -, Pending / errors forwarded, one inner poll); C18.3 is the rewind table.",
    "trusted_base": ["rustc type/borrow checker", "tokio::io::ReadBuf / hyper::rt::ReadBuf bookkeeping", "tokio::io::duplex", "rustls / tokio_rustls stream adapters"],
    "assumptions": ["the eight reviewed unsafe blocks are sound under the bookkeeping facts checked by C18.1 / C18.2 / C08.5"],
    "undecided": "tokio's / hyper's buffer types themselves; bytes over all patterns of partial reads and writes (needs execution)",
    "level_text": "static necessary conditions (sibling / forwarding agreement of every adapter method, provenance of the byte counts, unsafe-block inventory)",
}

UNSAFE_OWNERS = {
    # owner (see panics.owner_name) -> number of reviewed blocks; fewer is fine (blocks merged / removed), more is new unsafe code
    "client::conn::transport::tcp::TcpConnectionAttempt::connect": 1,  # socket2 -> std -> tokio conversion of the connecting socket (fn connect)
    "client::conn::transport::tcp::connect": 1,
    "<bridge::io::TokioIo as hyper::rt::Read>::poll_read": 2,
    "<bridge::io::TokioIo as tokio::io::AsyncRead>::poll_read": 2,
    "<rewind::Rewind as hyper::rt::Read>::poll_read": 2,               # remaining() / put_slice() helpers over ReadBufCursor
    "<server::conn::auto::ReadVersion as futures_core::Future>::poll": 1,
}



def E_FWD_all(ctx, facts):
    # counted by hand per configuration (methods compiled in): see DESIGN.md 4.3
    want = {"default": 43, "tls": 47, "mocks": 47, "aws": 47, "client-only": 30, "server-only": 39}[ctx.cur_config]
    n = fwd.E_FWD(ctx, facts, min_count=want)
    if ctx.cur_config in ("tls", "mocks", "aws"):
        fwd.fwd_tls_stream(ctx, facts, "client::conn::stream::tls::TlsStream", "State", "client TlsStream")
        fwd.fwd_tls_stream(ctx, facts, "server::conn::tls::TlsStream", "TlsState", "server TlsStream")


def _len_of(f, operand, callee_pat):
    """operand = [u8]::len(X.filled()) where filled is `callee_pat`; returns the filled() call site or None"""
    p = op_place(operand)
    if p is None:
        return None
    c = f.call_defining(p["l"])
    if c is not None and c.matches(r"slice::<impl \[u8\]>::len$|<impl \[T\]>::len$|::len$"):
        inner = f.call_defining(op_place(c.args[0])["l"]) if op_place(c.args[0]) else None
        if inner is not None and inner.matches(callee_pat):
            return inner
    # the length travelled (through a helper's return value, an Ok(n) payload, a tuple ...): follow the value - but only
    # through moves, wrappers and projections: any arithmetic on the way disqualifies it
    seen, work = set(), [p["l"]]
    while work:
        l = work.pop()
        if l in seen or len(seen) > 60:
            continue
        seen.add(l)
        for d in f.defs(l):
            if d[0] != "stmt":
                continue
            r = d[3]["r"]
            if r["k"] in ("binop", "unop"):
                return None
            ops_ = [r.get("o")] if r.get("o") else (r.get("ops") or [])
            for o in ops_:
                q = op_place(o) if o else None
                if q is not None:
                    work.append(q["l"])
            if r["k"] in ("ref", "copyderef") and r.get("p"):
                work.append(r["p"]["l"])
    rr = f.roots(operand, through_calls=True)
    lens = [r.site for r in rr if r.kind == "call" and r.site.matches(r"slice::<impl \[u8\]>::len$|<impl \[T\]>::len$")]
    fills = [r.site for r in rr if r.kind == "call" and r.site.matches(callee_pat)]
    others = [r for r in rr if r.kind == "call" and r.site not in lens and r.site not in fills and
              not r.site.matches(r"::uninit$|::unfilled_mut$|::as_mut$|::unfilled$|Pin|project|poll_read$|::branch$|from_residual$")]
    if len(lens) == 1 and len(fills) == 1 and any(q.kind == "call" and q.site.bb == fills[0].bb for q in f.roots(lens[0].args[0])):
        return fills[0]
    return None


def _outcomes_forwarded(ctx, f, label, inner):
    """Every outcome of the inner read other than Ready(Ok) is what the adapter returns: from the inner read's Pending edge
    only Pending / the inner result itself can be returned; from its Err edge only the inner result or Ready(Err(e)) carrying
    that error; a fresh Ready(Ok(())) is returned only on the Ok edge.  (`match .. other => return other`, `ready!(..)?` and
    explicit arms are the same thing here.)"""
    ib = {c.bb for c in inner}
    pend = f.edges_where(L_poll(f, False, ib))
    errs = f.edges_where(L_result(f, False, ib))
    oks = f.edges_where(L_result(f, True, ib))
    ctx.floor("%s|inner-outcome-edges" % label, min(len(pend) + len(errs), len(oks)), 1, "edges on the outcome of the inner read")

    def kind_of(k, b, x):
        if k == "call":
            return "inner" if b in ib else "call"
        r = x["r"]
        if r["k"] == "use" and op_place(r["o"]) is not None:
            rr = f.roots(r["o"], through_calls=False)
            return "inner" if rr and all(q.kind == "call" and q.site.bb in ib for q in rr if q.kind == "call") and any(q.kind == "call" for q in rr) else "other"
        if r["k"] == "agg" and r.get("v") == "Pending":
            return "Pending"
        if r["k"] == "agg" and r.get("v") == "Ready":
            d = f.unique_def(op_place(r["ops"][0])["l"]) if r.get("ops") and op_place(r["ops"][0]) else None
            if d and d[0] == "stmt" and d[3]["r"]["k"] == "agg":
                v = d[3]["r"].get("v")
                if v == "Err":
                    er = f.roots(d[3]["r"]["ops"][0])
                    return "Ready(Err(inner))" if any(q.kind == "call" and q.site.bb in ib for q in er) else "Ready(Err(?))"
                if v == "Ok":
                    return "Ready(Ok)"
            return "Ready(?)"
        return "other"

    for name, edges, allowed in (("Pending", pend, {"inner", "Pending"}), ("Err", errs, {"inner", "Ready(Err(inner))"})):
        for (x, y) in edges:
            kinds = {kind_of(k, b, v) for (k, b, v) in assigns_to_return(f, f.reach([y]) - ({e[1] for e in oks} if False else set()))}
            # the Ok continuation is not reachable from a Pending / Err edge except through shared return blocks: ignore
            # results that are only assigned on the Ok edge
            ok_only = {kind_of(k, b, v) for (k, b, v) in assigns_to_return(f, f.live) if all(f.guarded(b, L_result(f, True, ib))[0] for _ in [0])}
            bad = sorted(kinds - allowed - ok_only)
            ctx.check(not bad, "%s|%s-forwarded" % (label, name), "a %s outcome of the inner read is returned as it is" % name,
                      "after a %s outcome of the inner read the adapter can return %s" % (name, bad), f.where(x))
    fresh = [(k, b, v) for (k, b, v) in assigns_to_return(f, f.live) if kind_of(k, b, v) == "Ready(Ok)"]
    for (k, b, v) in fresh:
        g, w = f.guarded(b, L_result(f, True, ib))
        ctx.check(g, "%s|ok-only-on-ok" % label, "Ready(Ok(())) is produced only on the inner read's Ready(Ok) edge", "Ready(Ok(())) can be produced on another outcome", f.where(b), f.path_desc(w))


def C18_1(ctx, facts):
    """hyper::rt::Read for TokioIo<T: AsyncRead>: decision table of the bridge (bridgetable.py)."""
    import bridgetable
    bridgetable.hyper_read_table(ctx, facts)


def C18_2(ctx, facts):
    """tokio::io::AsyncRead for TokioIo<T: hyper Read>: decision table of the bridge (bridgetable.py)."""
    import bridgetable
    bridgetable.tokio_read_table(ctx, facts)



def _copy_src(f, operand):
    q = op_place(operand)
    ll = q["l"]
    for _ in range(4):
        dd = f.unique_def(ll)
        if dd and dd[0] == "stmt" and dd[3]["r"]["k"] == "use" and op_place(dd[3]["r"]["o"]) and not op_place(dd[3]["r"]["o"])["p"]:
            ll = op_place(dd[3]["r"]["o"])["l"]
        else:
            break
    return ll


def C18_4(ctx, facts):
    f = facts.unit(facts.fn("stream::duplex::DuplexStream::new"))
    ctx.touched(f)
    dup = [c for c in f.calls() if c.is_("tokio::io::duplex", "tokio::io::util::mem::duplex")]
    ctx.check(len(dup) == 1, "DuplexStream::new|one-pair", "both ends come from one tokio::io::duplex(max_buf_size) pair", "%d duplex() calls" % len(dup), f.where())
    ends = set()
    for (b, i, s) in f.aggregates("stream::duplex::DuplexStream"):
        r = s["r"]
        o = r["ops"][r["fields"].index("inner")]
        rr = f.roots(o, through_calls=False)
        fields = {r_.fields[:1] for r_ in rr if r_.kind == "call" and getattr(r_, "fields", None)}
        src = None
        p = op_place(o)
        l = p["l"] if p else None
        for _ in range(6):
            d = f.unique_def(l) if l is not None else None
            if not (d and d[0] == "stmt" and d[3]["r"]["k"] == "use"):
                break
            q = op_place(d[3]["r"]["o"])
            if q is None:
                break
            if q["p"]:
                src = tuple(e.get("f") for e in q["p"] if isinstance(e, dict) and "f" in e)
                break
            l = q["l"]
        ends.add(src)
        ctx.check(any(x.kind == "call" and x.site.bb in {c.bb for c in dup} for x in rr), "DuplexStream::new|end-from-pair", "the end wraps a half of the pair", "end roots %s" % sorted(map(repr, rr)), f.where(b))
    ctx.check(ends == {(0,), (1,)}, "DuplexStream::new|both-halves", "the two ends wrap the two different halves", "halves used: %s" % sorted(map(str, ends)), f.where())
    for c in dup:
        rr = f.roots(c.args[0], through_calls=False)
        ctx.check(any(r.kind == "arg" and r.desc == "max_buf_size" for r in rr), "DuplexStream::new|buffer-size", "with the requested buffer size", "size roots %s" % sorted(map(repr, rr)), c.where())


def C18_3(ctx, facts):
    if ctx.cur_config == "client-only" and not facts.by_norm.get("rewind::Rewind::new"):
        return ctx.ok("Rewind|not-compiled", "rewind.rs is not part of the client-only configuration (declared compile-out)")
    return c08.C08_5(ctx, facts)


def C18_6(ctx, facts):
    """The sniffing half of the rewind buffer: what ReadVersion consumed from the socket is what the Rewind replays.  Progress
    of every successful read is persisted before the next read / return (C08.1) and the Rewind is given the reader's own io and
    the whole filled buffer (C08.4) - the same obligations C08 needs, claimed here for "no byte lost or duplicated"."""
    if ctx.cur_config == "client-only" and not facts.by_norm.get("rewind::Rewind::new"):
        return ctx.ok("ReadVersion|not-compiled", "the sniffing reader is not part of the client-only configuration (declared compile-out)")
    c08.C08_1(ctx, facts)
    c08.C08_4(ctx, facts)


def C18_5(ctx, facts):
    """Hand-written unsafe stays where it was reviewed.  A block is filed under its owner (panics.owner_name: the named
    function, or - for a private single-caller helper - its caller), so renaming / extracting / merging helpers or merging
    two blocks into one changes nothing; an unsafe block under a *new* owner is reported."""
    import panics
    got = {}
    for u in facts.data.get("unsafe_blocks", []):
        if not u["count"]:
            continue
        cands = facts.by_norm.get(norm(u["fn"])) or []
        owner = panics.owner_name(cands[0], use_atoms=False) if len(cands) == 1 else norm(u["fn"])
        got[owner] = got.get(owner, 0) + u["count"]
    expected = set(UNSAFE_OWNERS)
    new = sorted(set(got) - expected)
    ctx.check(not new, "unsafe-blocks|inventory", "hand-written unsafe blocks sit only in the reviewed functions (%s)" % sorted(got),
              "unsafe code in a function that was not reviewed: %s" % new)
    more = {k: v for k, v in got.items() if k in UNSAFE_OWNERS and v > UNSAFE_OWNERS[k]}
    ctx.check(not more, "unsafe-blocks|no-new-blocks", "no reviewed function gained an unsafe block", "unsafe blocks added to reviewed functions: %s (reviewed: %s)" % (more, {k: UNSAFE_OWNERS[k] for k in more}))
    ctx.floor("unsafe-blocks|count", sum(got.values()), 1, "unsafe blocks")


RULES = [
    ("E-FWD", E_FWD_all, ["default", "tls"]),
    ("C18.1", C18_1, ["default"]),
    ("C18.2", C18_2, ["default"]),
    ("C18.3", C18_3, ["default"]),
    ("C18.4", C18_4, ["default"]),
    ("C18.5", C18_5, ["default", "tls"]),
    ("C18.6", C18_6, ["default"]),
]
