#!/bin/bash
# Apply every stored seeded change to /repo in turn, run all quick checks, restore /repo. Prints a matrix line per seed.
cd /verif
for d in seeded/*/; do
  id=$(basename $d)
  git -C /repo apply /verif/seeded/$id/patch.diff || { echo "$id: patch does not apply"; continue; }
  fired=$(./check all 2>&1 | grep -E "new=[1-9]|BUILD" | awk '{print $1}' | tr '\n' ' ')
  rules=$(./check all 2>&1 | grep -E "^\s+\[(violation|anchor-missing|undecided)\]" | awk '{print $2}' | sort -u | tr '\n' ' ')
  git -C /repo checkout -- .
  echo "$id -> fired: ${fired:-NONE} | rules: $rules"
done
git -C /repo status --short | head -3
