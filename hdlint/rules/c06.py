"""C06: connections are never shared across origins (level: proof of an inductive invariant)."""
from core import norm, L_call, L_variant, CallSite, closure_arg_of, sig
from mir import op_place, place_str
import re
import pool

META = {
    "thorough_extra": ["mocks", "client-only"],
    "level": "proof",
    "explanation": "Inductive invariant: every connection stored under token t was dialled from request parts whose key maps to t. Premises, each decided "
                   "statically: (C06.1) UriKey::try_from(&Parts) builds the key from parts.uri.scheme() and parts.uri.authority() only, and its Eq/Hash are "
                   "derived over both fields; (C06.2) connect_to derives key and connector from the same request parts and passes both to one Pool::checkout call; "
                   "the connector dials exactly those parts; (C06.3) tokens are minted only in key.rs and TokenMap::insert returns map.entry(key).or_insert_with(fresh); "
                   "(C06.4) every HashMap/HashSet<Token> access in the pool uses one token root per function and only keyed methods (no iteration); "
                   "(C06.5) token fields are written only in struct literals whose token operand is the function's own token or Token::zero(); "
                   "(C06.6) hand-back sites pass their own token with their own connection (P2)."
                   " C06.1 requires scheme and authority to enter the key through accessors and clones only; C06.3 checks TokenMap::insert in normal form (entry: Occupied answers the stored token, a token is minted and stored only for Vacant) and that no TokenMap value is ever overwritten or its counter stored from anything but an advance."
                   " As built now: TokenMap::insert is a decision table over an abstract HashMap (mapmodel.py): key known / new x counter ordinary / at its maximum -> token answered, map afterwards, counter afterwards; `entry().or_insert_with`, an explicit match on the Entry and `get` + `insert` are one table. New: what is mapped to a token is the caller's key itself (clones only), Pool's map is TokenMap<K> (a digest of the key would let two origins share a token).",
    "trusted_base": ["rustc type/borrow checker", "std HashMap/HashSet keyed-access semantics", "http::uri Scheme/Authority equality is the notion of origin",
                     "PoolInner methods are atomic (&mut self behind a mutex)"],
    "assumptions": ["token counter does not wrap (2^64 inserts)", "user-supplied K: Key has a lawful Eq/Hash (the crate's UriKey is checked)"],
    "undecided": "counter wrap-around; lossy user-defined keys",
    "level_text": "proof by enumeration: every premise of the inductive token-isolation invariant is a decided local fact over all paths of every function touching the pool maps",
}

TOKEN_TY = "client::pool::key::Token"
KEYED_OK = {"get", "get_mut", "entry", "remove", "insert", "contains", "contains_key", "new", "default", "with_capacity", "is_empty", "len"}


def _is_token_map_recv(ty):
    t = ty.replace("&mut ", "").replace("&", "")
    return (t.startswith("std::collections::HashMap<%s," % TOKEN_TY) or t.startswith("std::collections::HashSet<%s" % TOKEN_TY))


def _stop(site):
    return site.is_("client::pool::key::TokenMap::insert", "client::pool::key::Token::zero")


def troots(fn, operand):
    return fn.roots(operand, stop_at_call=_stop)


def token_root_class(r):
    """Classify a root of a Token-typed value."""
    from core import is_transparent
    if r.kind == "arg":
        d = r.desc
        last = d.split(".")[-1].replace("cap:", "").split("__")[-1]
        if last == "token":
            return "own:token"
        return "arg:" + d
    if r.kind == "call" and is_transparent(r.site):
        return None
    if r.kind == "call":
        if r.site.is_("client::pool::key::Token::zero"):
            return "zero"
        if r.site.is_("client::pool::key::TokenMap::insert"):
            return "minted"
        if r.site.is_("parking_lot::Mutex::lock", "lock_api::Mutex::lock", "lock_api::mutex::Mutex::lock") or "MutexGuard" in norm(r.site.name) or r.site.is_("std::ops::DerefMut::deref_mut", "core::ops::DerefMut::deref_mut"):
            return None  # plumbing on the way to TokenMap::insert's receiver
        return "call:" + norm(r.site.name)
    if r.kind == "const":
        return None
    return r.kind + ":" + str(r.desc)


def C06_1(ctx, facts):
    f = None
    for cand in facts.fns.values():
        d = cand.d
        if d.get("name") == "try_from" and norm(d.get("impl_self", "")).endswith("client::pool::key::UriKey") and "request::Parts" in (cand.locals[1] if len(cand.locals) > 1 else ""):
            f = cand
    if f is None:
        return ctx.missing("anchor", "impl TryFrom<&http::request::Parts> for UriKey not found")
    f = facts.unit(f, expand=True)
    ctx.touched(f)
    aggs = f.aggregates("client::pool::key::UriKey")
    ctx.floor("UriKey::try_from|ctor", len(aggs), 1, "UriKey constructions in try_from(&Parts)")
    for (b, i, s) in aggs:
        ops = s["r"]["ops"]
        r0 = f.roots(ops[0])
        r1 = f.roots(ops[1])
        ok0 = any(r.kind == "call" and r.site.is_("http::Uri::scheme", "http::uri::Uri::scheme") for r in r0) and \
            any(r.kind == "arg" and r.desc.endswith("parts.uri") for r in r0)
        ok1 = any(r.kind == "call" and r.site.is_("http::Uri::authority", "http::uri::Uri::authority") for r in r1) and \
            any(r.kind == "arg" and r.desc.endswith("parts.uri") for r in r1)
        ctx.check(ok0, "UriKey::try_from|scheme", "key field 0 derives from parts.uri.scheme()", "key field 0 roots: %s" % sorted(map(repr, r0)), f.where(b))
        ctx.check(ok1, "UriKey::try_from|authority", "key field 1 derives from parts.uri.authority()", "key field 1 roots: %s" % sorted(map(repr, r1)), f.where(b))
        # the key is the scheme and the authority *as they are*: on the way into the key they only pass through accessors
        # and clones.  Any other call (parsing, slicing, rebuilding, normalising) could map two origins to one key.
        IDENT = r"(Clone.*::clone$|::cloned$|::as_ref$|::as_deref$|Uri::scheme$|Uri::authority$|Uri::into_parts$|Uri::from_parts$|Result.*::unwrap$|::to_owned$|Option.*::(map|and_then|ok_or_else|ok_or)$|Try.*::branch$|from_residual$|Uri::clone$|Request.*::uri$)"
        import re as _re
        odd = sorted({norm(r.site.name) for r in (r0 | r1) if r.kind == "call" and not _re.search(IDENT, norm(r.site.name))})
        ctx.check(not odd, "UriKey::try_from|fields-unmodified", "scheme and authority enter the key unmodified (only accessors and clones on the way)",
                  "the key fields are computed through %s: distinct origins may collapse into one key" % odd, f.where(b))
        foreign = [r for r in (r0 | r1) if r.kind == "arg" and not r.desc.startswith("parts")]
        ctx.check(not foreign, "UriKey::try_from|only-parts", "the key depends on nothing but the request parts", "key also depends on %s" % foreign, f.where(b))
    adt = facts.adt("client::pool::key::UriKey")
    nfields = len(adt["variants"][0]["fields"]) if adt else 0
    ctx.check(nfields == 2, "UriKey|fields", "UriKey has exactly the two fields (scheme, authority)", "UriKey has %d fields" % nfields)
    for tr in ("PartialEq", "Eq", "Hash"):
        ims = facts.impls_of(tr, "client::pool::key::UriKey")
        ok = len(ims) == 1 and ims[0].get("derived") is True
        ctx.check(ok, "UriKey|derived-%s" % tr, "%s for UriKey is #[derive]d over both fields" % tr,
                  "%s for UriKey is hand-written or missing (%d impls)" % (tr, len(ims)), ims[0]["span"] if ims else None)
    # Token itself: derived Eq/Hash
    for tr in ("PartialEq", "Eq", "Hash"):
        ims = facts.impls_of(tr, TOKEN_TY)
        ok = len(ims) == 1 and ims[0].get("derived") is True
        ctx.check(ok, "Token|derived-%s" % tr, "%s for Token is #[derive]d" % tr, "%s for Token is hand-written or missing" % tr)


def C06_2(ctx, facts):
    # evaluated on the unit of Service::call with connect_to spliced in: whether the key is computed in `call` and handed to
    # `connect_to`, or inside `connect_to`, is the same program
    import inline
    svc = facts.method("client::pool::service::ConnectionPoolService", "Service", "call")
    f = inline.inline(facts, svc, 3, lambda ck, raw: norm(ck).endswith("ConnectionPoolService::connect_to"), expand=False)
    ctx.touched(f)
    PARTS = ("request_parts", "req")
    tf = [c for c in f.calls("core::convert::TryFrom::try_from", "std::convert::TryFrom::try_from") if "Parts" in " ".join(c.t.get("argtys") or []) + " ".join(c.t.get("targs") or [])]
    ctx.floor("connect_to|key", len(tf), 1, "K::try_from(request_parts) in connect_to")
    for c in tf:
        rr = f.roots(c.args[0])
        ctx.check(rr and all(r.kind == "arg" and r.desc.startswith(PARTS) for r in rr if r.kind == "arg") and any(r.kind == "arg" for r in rr),
                  "connect_to|key-from-parts", "the pool key is computed from this request's parts", "key input roots: %s" % sorted(map(repr, rr)), c.where())
    cn = f.calls("client::conn::connector::Connector::new")
    ctx.floor("connect_to|connector", len(cn), 1, "Connector::new in connect_to")
    for c in cn:
        rr = f.roots(c.args[2])
        ctx.check(any(r.kind == "arg" and r.desc.startswith(PARTS) for r in rr) and
                  not any(r.kind == "arg" and not (r.desc.startswith(PARTS)) for r in rr),
                  "connect_to|connector-from-parts", "the connector dials this request's parts", "connector parts roots: %s" % sorted(map(repr, rr)), c.where())
    co = f.calls("client::pool::Pool::checkout")
    ctx.floor("connect_to|checkout", len(co), 1, "Pool::checkout in connect_to")
    for c in co:
        rk = f.roots(c.args[1], through_calls=False)
        rc = f.roots(c.args[3], through_calls=False)
        ok = any(r.kind == "call" and r.site.is_("core::convert::TryFrom::try_from", "std::convert::TryFrom::try_from", "core::ops::Try::branch", "std::ops::Try::branch") for r in rk) and \
            any(r.kind == "call" and r.site.is_("client::conn::connector::Connector::new") for r in rc)
        ctx.check(ok, "connect_to|same-call", "key and connector of the same request enter one Pool::checkout call",
                  "checkout key roots %s / connector roots %s" % (sorted(map(repr, rk)), sorted(map(repr, rc))), c.where())
    # the connector dials the parts it was built with
    cnew = facts.fn("client::conn::connector::Connector::new")
    ctx.touched(cnew)
    sites = []
    for g in facts.fns.values():
        for (b, i, s) in g.aggregates("client::conn::connector::ConnectorState", "PollReadyTransport"):
            sites.append((g, b, s))
    ctx.floor("Connector|initial-state", len(sites), 1, "constructions of ConnectorState::PollReadyTransport")
    for (g, b, s) in sites:
        ok = g.key == cnew.key
        if ok:
            o = s["r"]["ops"][s["r"]["fields"].index("parts")]
            rr = g.roots(o)
            ok = any(r.kind == "arg" and r.desc == "parts" for r in rr) and not any(r.kind == "arg" and r.desc != "parts" for r in rr)
        ctx.check(ok, "Connector|parts-stored|%s" % g.nkey, "the connector's initial state stores exactly the parts it was given",
                  "PollReadyTransport built elsewhere / from other parts", g.where(b))
    pc = facts.fn("client::conn::connector::Connector::poll_connector")
    ctx.touched(pc)
    conns = pc.calls("client::conn::transport::Transport::connect")
    ctx.floor("Connector|dial", len(conns), 1, "Transport::connect calls in poll_connector")
    for c in conns:
        rr = pc.roots(c.args[1])
        ok = any(r.kind == "call" and r.site.is_("std::option::Option::take", "core::option::Option::take") for r in rr) and \
            any((r.kind == "call" and "project" in norm(r.site.name)) or (r.kind == "arg" and r.desc.startswith("self")) for r in rr)
        foreign = [r for r in rr if r.kind == "arg" and not r.desc.startswith("self")]
        ctx.check(ok and not foreign, "Connector|dial-own-parts", "Transport::connect receives the parts taken from the connector's own state",
                  "connect() argument roots: %s" % sorted(map(repr, rr)), c.where())


def tokenmap_insert_table(ctx, facts):
    import inline
    import mapmodel
    import seqmodel
    from core import AbsPaths, VALUE_EQ, INT_CMP
    from seqmodel import NONE, some, _arg, _deref, _set_dest
    ins = facts.fn("client::pool::key::TokenMap::insert")
    pats = [re.compile(p_) for p_, _ in mapmodel.RAW]
    u = inline.inline(facts, ins, 4, lambda ck, raw: "::_::" not in ck and not any(rx.search(norm(ck)) for rx in pats), expand=True)
    ctx.touched(u)
    adt = facts.adt("client::pool::key::TokenMap")
    fl = adt["variants"][0]["fields"]
    mi = [i for i, x in enumerate(fl) if "HashMap<" in x["ty"]]
    ci = [i for i, x in enumerate(fl) if "NonZero" in x["ty"]]
    if len(mi) != 1 or len(ci) != 1:
        return ctx.missing("TokenMap|fields", "TokenMap { counter: NonZero.., map: HashMap<K, Token> } not identified by type")

    def o_checked_add(ev, st, t, site):
        a = _deref(st, _arg(ev, st, t, 0))
        if a == ("const", "CNT"):
            return _set_dest(st, t, some(("const", "CNT+1")))
        if a == ("const", "CNT_MAX"):
            return _set_dest(st, t, NONE)
        return False

    def o_nz_new(ev, st, t, site):
        a = _deref(st, _arg(ev, st, t, 0))
        if a is not None and a[0] == "const" and str(a[1]).startswith("1"):
            return _set_dest(st, t, some(("const", "ONE")))
        return False

    def o_or(ev, st, t, site):
        a, b_ = _deref(st, _arg(ev, st, t, 0)), _deref(st, _arg(ev, st, t, 1))
        if a is None or a[0] != "variant":
            return False
        return _set_dest(st, t, a if a[1] == "Some" else b_)

    def o_unwrap(ev, st, t, site):
        a = _deref(st, _arg(ev, st, t, 0))
        if a is None or a[0] != "variant" or a[1] not in ("Some", "Ok"):
            return False
        return _set_dest(st, t, dict(a[2]).get(0))
    raw = mapmodel.RAW + [(r"NonZero.*::checked_add$", o_checked_add), (r"NonZero.*::new$", o_nz_new), (r"Option.*::or$", o_or),
                          (r"Option.*::(unwrap|expect)$|Result.*::(unwrap|expect)$", o_unwrap)] + seqmodel.RAW_ORACLES
    SELF = 9000
    old_tok = ("variant", "Token", ((0, some(("const", "CNT_OLD"))),))
    rows = 0
    for present in (True, False):
        for cmax in (False, True):
            cnt = ("const", "CNT_MAX" if cmax else "CNT")
            this = ("variant", "TokenMap", tuple(sorted({ci[0]: cnt, mi[0]: ("map", 7)}.items())))
            items = ((("const", "KEY_OTHER"), ("variant", "Token", ((0, some(("const", "CNT_OTHER"))),))),) + (((("const", "KEY"), old_tok),) if present else ())
            st = {1: ("refmut", SELF), SELF: this, 2: ("const", "KEY"), -7: ("list", items)}
            key = "TokenMap::insert|table|key-%s|counter-%s" % ("known" if present else "new", "max" if cmax else "ordinary")

            def counter_of(st_):
                v = st_.get(SELF)
                return dict(v[2]).get(ci[0]) if v is not None and v[0] == "variant" else None
            try:
                outs = AbsPaths(u, limit=20000, raw_oracles=raw, oracles=[VALUE_EQ, INT_CMP]).outcomes(state=st, extra_keys=(-7, counter_of))
            except AbsPaths.Undecided as e:
                ctx.undecided(key, str(e))
                continue
            rows += 1
            got = set()
            for (rv, _, (m, c)) in outs:
                while rv is not None and rv[0] == "refval":
                    rv = rv[1]
                c2 = c
                if c2 is not None and c2[0] == "const" and ("MIN" in str(c2[1]) or str(c2[1]) in ("ONE",) or re.match(r"^1(_usize|_u64)?$", str(c2[1]))):
                    c2 = ("const", "ONE")
                got.add((rv, m[1] if m is not None else None, c2))
            if present:
                want = {(old_tok, items, cnt)}
                good = "a known key keeps its token: the stored token is answered, the map and the counter are untouched"
            else:
                tok = ("variant", "Token", ((0, some(cnt)),))
                want = {(tok, items + ((("const", "KEY"), tok),), ("const", "ONE" if cmax else "CNT+1"))}
                good = "a new key gets the current counter value as its token, the token is stored under that key (other keys untouched), and the counter advances%s" % (" (wrapping to 1)" if cmax else "")
            ctx.check(got == want, key, good,
                      "TokenMap::insert can end with (token answered, map afterwards, counter afterwards) = %s; expected %s" % (sorted(map(str, got))[:3], sorted(map(str, want))), u.where())
    ctx.floor("TokenMap::insert|table-rows", rows, 4, "scenarios evaluated")


def C06_3(ctx, facts):
    sites = []
    for g in facts.fns.values():
        for (b, i, s) in g.aggregates(TOKEN_TY):
            sites.append((g, b, s))
    ctx.floor("Token|mint-sites", len(sites), 2, "constructions of Token")
    ins = facts.fn("client::pool::key::TokenMap::insert")
    ctx.touched(ins)
    ins_family = {g.key for g in facts.family(ins, depth=3)}
    for (g, b, s) in sites:
        nk = g.nkey
        ok = nk == "client::pool::key::Token::zero" or g.key in ins_family or nk.startswith("<client::pool::key::Token as ")
        ctx.check(ok, "Token|minted-in|%s" % nk, "Token constructed only in Token::zero / TokenMap::insert", "Token constructed in %s" % nk, g.where(b))
        if g.key in ins_family and nk != "client::pool::key::Token::zero":
            o = s["r"]["ops"][0]
            rr = g.roots(o)
            ctx.check(any(r.kind == "arg" and "counter" in r.desc for r in rr), "TokenMap::insert|fresh-from-counter",
                      "a fresh token takes the current counter value", "fresh token roots: %s" % sorted(map(repr, rr)), g.where(b))
            # counter advanced in the same closure
            adv = False
            for bb in g.live:
                for st in g.stmts(bb):
                    is_counter = st["k"] == "assign" and (any(isinstance(e, dict) and (e.get("n") or "").endswith("counter") for e in st["p"]["p"]) or
                                                          (st["p"]["p"] == ["*"] and g.locals[st["p"]["l"]].startswith("&mut std::num::NonZero")))
                    if is_counter:
                        rr2 = g.roots(st["r"]["o"]) if st["r"]["k"] == "use" else set()
                        if any(r.kind == "call" and r.site.matches(r"checked_add|NonZero.*::(checked_add|saturating_add)") for r in rr2):
                            adv = True
            ctx.check(adv, "TokenMap::insert|counter-advances", "the counter is advanced (checked_add) when a token is minted",
                      "the counter is not advanced in the minting closure", g.where())
    # what is mapped to a token is the pool key itself: equality of keys (not of some digest of them) decides whether two
    # requests share a token.  On the way into TokenMap::insert the key passes only through clones / borrows.
    import re as _re
    isites = facts.call_sites_of("client::pool::key::TokenMap::insert")
    ctx.floor("TokenMap::insert|call-sites", len(isites), 1, "call sites of TokenMap::insert")
    for c in isites:
        u = facts.unit(c.fn, expand=True) if "{closure" not in c.fn.nkey else c.fn
        cs = [x for x in u.calls("client::pool::key::TokenMap::insert")] or [c]
        for x in cs:
            rr = x.fn.roots(x.args[1])
            odd = sorted({norm(r.site.name) for r in rr if r.kind == "call" and not _re.search(r"Clone.*::clone$|Borrow.*::borrow$|AsRef.*::as_ref$|ToOwned.*::to_owned$|Deref.*::deref$|Into.*::into$|From.*::from$", norm(r.site.name))})
            from_key = any(r.kind == "arg" and _re.search(r"(^|\.)key$", r.desc) for r in rr)
            ctx.check(from_key and not odd, "TokenMap::insert|key-itself|%s" % x.fn.nkey.replace("client::pool::", ""),
                      "the value mapped to a token is the caller's key itself (clones only): distinct keys can never share a token",
                      "the value mapped to a token is computed from the key through %s (roots %s): two different origins with the same digest would share one token, idle list and waiter queue"
                      % (odd, sorted(map(repr, sig(rr)))[:5]), x.where())
    padt = facts.adt("client::pool::Pool")
    kf = [fl["ty"] for fl in padt["variants"][0]["fields"] if "TokenMap<" in fl["ty"]] if padt else []
    ctx.check(len(kf) == 1 and _re.search(r"TokenMap<K>", kf[0]) is not None, "Pool|token-map-keyed-by-K", "Pool's token map is keyed by the pool's key type K",
              "Pool's token map is declared as %s" % kf)
    # zero token is None
    z = facts.fn("client::pool::key::Token::zero")
    for (b, i, s) in z.aggregates(TOKEN_TY):
        rr = z.roots(s["r"]["ops"][0])
        ctx.check(any(r.kind == "agg" and r.desc.endswith("::None") for r in rr), "Token::zero|is-None", "Token::zero() is Token(None), distinct from every minted Token(Some(_))",
                  "Token::zero() is not None: %s" % sorted(map(repr, rr)), z.where(b))
    # what insert does, as a decision table (abstract evaluation with a model of the map, mapmodel.py): key known / new x counter
    # ordinary / at its maximum.  `entry().or_insert_with(..)`, an explicit match on the Entry and `get` + `insert` are one table.
    tokenmap_insert_table(ctx, facts)
    # nothing else writes TokenMap.map / counter
    for g in facts.fns.values():
        if g.key in ins_family or g.d.get("parent") in ins_family or g.nkey.startswith("<client::pool::key::TokenMap as std::default::Default>"):
            continue
        for c in g.calls():
            tys = c.t.get("argtys") or []
            if tys and tys[0].startswith("&mut std::collections::HashMap<") and tys[0].rstrip(">").endswith(TOKEN_TY):
                ctx.bad("%s|tokenmap-write" % g.nkey, "the key->token map is accessed mutably outside TokenMap::insert", c.where())
    # the key->token relation only ever grows: no TokenMap value is overwritten / replaced (tokens already handed out
    # stay reserved for their key; a reset would re-issue live tokens to other keys), the counter is written only by the
    # advancing store of the minting closure, and insert touches the map through entry() alone.
    TM = "client::pool::key::TokenMap<"
    n_scanned = 0
    for g in facts.fns.values():
        ctor = g.nkey.startswith("<client::pool::key::TokenMap as std::default::Default>") or g.nkey in ("client::pool::key::TokenMap::new",)
        for b in g.live:
            for st in g.stmts(b):
                if st["k"] != "assign":
                    continue
                n_scanned += 1
                pl = st["p"]
                lty = g.locals[pl["l"]]
                whole = (pl["p"] == ["*"] and lty.startswith("&mut " + TM))
                r = st["r"]
                src = r.get("o") if r["k"] == "use" else None
                sp = (src.get("m") or src.get("c")) if isinstance(src, dict) else None
                if sp is not None and not sp["p"] and g.locals[sp["l"]].startswith(TM) and pl["p"] and not ctor:
                    whole = True
                if r["k"] == "agg" and (r.get("adt") or "").endswith("key::TokenMap") and pl["p"] and not ctor:
                    whole = True
                if whole:
                    ctx.bad("%s|tokenmap-overwritten" % g.nkey, "a TokenMap is overwritten in place: tokens already handed out would be issued again to other keys", g.where(b))
                if pl["p"] and isinstance(pl["p"][-1], dict) and (pl["p"][-1].get("n") or "").endswith("counter") and not ctor:
                    base_ty = lty
                    if "TokenMap" in base_ty or g.d.get("parent") == ins.key or g.key in ins_family:
                        rr2 = g.roots(r["o"]) if r["k"] == "use" else set()
                        adv = any(x.kind == "call" and x.site.matches(r"checked_add|saturating_add") for x in rr2)
                        ctx.check(adv, "%s|counter-store-advances" % g.nkey, "every store to the token counter is an advance of its previous value",
                                  "the token counter is stored from %s" % sorted(map(repr, rr2)), g.where(b))
            t = g.term(b)
            if t["k"] == "call":
                c = CallSite(g, b, t)
                tys = t.get("argtys") or []
                if c.matches(r"mem::(replace|swap|take)") and tys and tys[0].startswith("&mut " + TM):
                    ctx.bad("%s|tokenmap-overwritten" % g.nkey, "a TokenMap is replaced through std::mem: tokens already handed out would be issued again", c.where())
    ctx.ok("TokenMap|never-overwritten", "no TokenMap value is overwritten or replaced outside its constructor (%d assignments scanned)" % n_scanned)
    # TokenMap::insert callers
    cs = facts.call_sites_of("client::pool::key::TokenMap::insert")
    ctx.floor("TokenMap::insert|callers", len(cs), 1, "callers of TokenMap::insert")
    for c in cs:
        ctx.check(c.fn.nkey == "client::pool::Pool::checkout", "TokenMap::insert|caller|%s" % c.fn.nkey, "tokens are obtained in Pool::checkout",
                  "TokenMap::insert called from %s" % c.fn.nkey, c.where())
        rk = c.fn.roots(c.args[1])
        ctx.check(any(r.kind == "arg" and r.desc == "key" for r in rk), "Pool::checkout|token-from-key", "the token is looked up for the checkout's key argument",
                  "TokenMap::insert argument roots: %s" % sorted(map(repr, rk)), c.where())


def C06_4(ctx, facts):
    """One token root per function for every keyed access to the pool's maps; no unkeyed access."""
    nfun = 0
    nsites = 0
    for g in facts.fns.values():
        sites = []
        for c in g.calls():
            tys = c.t.get("argtys") or []
            if tys and _is_token_map_recv(tys[0]):
                sites.append(c)
        if not sites:
            continue
        nfun += 1
        ctx.touched(g)
        classes = set()
        for c in sites:
            nsites += 1
            ctx.stats["call_sites_examined"] += 1
            meth = norm(c.name).split("::")[-1]
            if meth not in KEYED_OK:
                ctx.bad("%s|unkeyed-%s" % (g.nkey, meth), "pool map accessed through %s (bypasses the token key)" % norm(c.name), c.where())
                continue
            if len(c.args) < 2:
                continue
            kroots = troots(g, c.args[1])
            cls = {token_root_class(r) for r in kroots} - {None}
            if any(x == "zero" for x in cls):
                ctx.bad("%s|zero-key" % g.nkey, "Token::zero() used as a map key", c.where())
            classes |= cls
        # normalise: own token (self.token / token / cap:token) or minted
        bad = [x for x in classes if not (x.startswith("own:token") or x == "minted" or x == "arg:key")]
        owns = {x for x in classes if x.startswith("own:") or x == "minted"}
        ctx.check(not bad and len(owns) == 1, "%s|one-token-root" % g.nkey,
                  "all %d keyed accesses use the function's single token (%s)" % (len(sites), sorted(owns)),
                  "keyed accesses use token roots %s" % sorted(classes), g.where())
    ctx.floor("pool-map-functions", nfun, 5, "functions accessing HashMap/HashSet<Token>")
    ctx.floor("pool-map-sites", nsites, 8, "keyed accesses to the pool maps")
    # callers of PoolInner token-taking methods pass their own token
    for name, idx in (("client::pool::PoolInner::pop", 1), ("client::pool::PoolInner::cancel_connection", 1),
                      ("client::pool::PoolInner::connected_in_handshake", 1), ("client::pool::PoolInner::push", 1),
                      ("client::pool::checkout::register_connected", 1), ("client::pool::checkout::Checkout::new", 0)):
        cs = facts.call_sites_of(name)
        for c in cs:
            rr = troots(c.fn, c.args[idx])
            cls = {token_root_class(r) for r in rr} - {None}
            ok = cls and all(x.startswith("own:token") or x == "minted" for x in cls) and len(cls) == 1
            ctx.check(ok, "%s|arg-token|%s" % (name.split("::")[-1], c.fn.nkey), "called with the caller's own single token (%s)" % sorted(cls),
                      "token argument roots: %s" % sorted(cls), c.where())


def C06_5(ctx, facts):
    """token fields are written only in struct literals, from the function's own token or Token::zero()."""
    holders = ("client::pool::Pooled", "client::pool::WhenReady", "client::pool::checkout::Checkout")
    n = 0
    for g in facts.fns.values():
        for b in g.live:
            for s in g.stmts(b):
                if s["k"] != "assign":
                    continue
                p = s["p"]
                if p["p"]:
                    last = p["p"][-1]
                    if isinstance(last, dict) and last.get("n") == "token" and last.get("t") == TOKEN_TY:
                        ctx.bad("%s|token-field-assigned" % g.nkey, "a token field is assigned after construction", g.where(b))
        for h in holders:
            for (b, i, s) in g.aggregates(h):
                r = s["r"]
                if "token" not in r["fields"]:
                    continue
                n += 1
                o = r["ops"][r["fields"].index("token")]
                rr = troots(g, o)
                cls = {token_root_class(x) for x in rr} - {None}
                # a literal fed from a choice made earlier (`let (token, pool) = match ..`) has one class per alternative
                ok = cls and all(x.startswith("own:token") or x in ("zero", "minted") for x in cls)
                ctx.check(ok, "%s|literal-%s" % (g.nkey, h.split("::")[-1]), "%s literal takes token from %s" % (h.split("::")[-1], sorted(cls)),
                          "%s literal token roots: %s" % (h.split("::")[-1], sorted(cls)), g.where(b))
                if h.endswith("Pooled") and "zero" in cls:
                    # a zero-token Pooled must carry a shared (reuse()d) connection or one whose original went to the pool
                    co = r["ops"][r["fields"].index("connection")]
                    cr = g.roots(co, through_calls=False)
                    shared = any(x.kind == "call" and x.site.is_("client::pool::PoolableConnection::reuse") for x in cr)
                    in_reg = g.nkey == "client::pool::checkout::register_connected"
                    if in_reg:
                        # decided where the zero token is produced: every path on which it reaches the literal passes there
                        zs = sorted({x.site.bb for x in rr if token_root_class(x) == "zero"})
                        okz = bool(zs)
                        for zb in zs:
                            o1, w = g.guarded(zb, L_variant(g, "Some", of_call="client::pool::PoolableConnection::reuse"))
                            okz = okz and o1
                    else:
                        okz = shared
                    ctx.check(okz, "%s|zero-token-only-shared" % g.nkey, "a zero (never hand back) token accompanies only a connection that reuse() declared shareable",
                              "a zero token accompanies a connection not known to be shareable", g.where(b))
    ctx.floor("token-literals", n, 8, "struct literals with a token field")


import witness


def W(ctx):
    witness.run(ctx, {"W4": "pool::Token is not nameable outside the crate (tokens cannot be minted by users)"})


THOROUGH_RULES = [("W", W)]

RULES = [
    ("C06.1", C06_1, ["default"]),
    ("C06.2", C06_2, ["default"]),
    ("C06.3", C06_3, ["default"]),
    ("C06.4", C06_4, ["default"]),
    ("C06.5", C06_5, ["default"]),
    ("C06.6", pool.P2_aspects("callers", "token-guard", "conn", "token"), ["default"]),
]
