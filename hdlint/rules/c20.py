"""C20: SNI validation forwards a request only if its host is the TLS server name (level: other; tls+sni configuration)."""
import re
from core import norm, L_call, L_variant, arms, assigns_to_return, closure_arg_of, sig, const_of, L_opt
from mir import op_place
import panics
import c17

META = {
    "thorough_extra": ["mocks"],
    "level": "other",
    "explanation": "Decision structure of sni::handle / ValidateSNIService::call, decided on all paths (configuration tls,tls-ring,sni): (C20.1) the rejection InvalidSNI is built only on the "
                   "false edge of a case-insensitive comparison (str::eq_ignore_ascii_case) of Authority::host() of the request host with Authority::host() of the parsed server "
                   "name - ports are ignored on both sides; (C20.2) host selection: for HTTP/2 the URI authority or else the Host header, otherwise the Host header; "
                   "(C20.3) TlsConnectionInfo::validated() is called exactly on the equal edge, MissingSNI is returned on the no-server-name edge; (C20.4) call(): the inner "
                   "service is invoked only when handle() returned None and receives the same request; (C20.5) no undischarged panic site in the two functions."
                   " As built now: C20.1 is the decision table of sni::handle (snitable.py: HTTP version x URI authority x Host header x TLS information, 54 scenarios -> forwarded / forwarded and marked / rejected with which error), C20.4 a two-row table of ValidateSNIService::call, C20.6 the TLS-information state machine (Empty only from empty(), one write guard held across the wait).",
    "trusted_base": ["rustc type/borrow checker", "http::uri::Authority::host() strips the port", "str::eq_ignore_ascii_case"],
    "assumptions": [],
    "undecided": "the full input space of host spellings (IDNA, trailing dots) - only ASCII case folding is claimed",
    "level_text": "static necessary conditions (guard dominance of the comparison over rejection / validation / forwarding; provenance of the compared values)",
}

CFG = ["tls"]


def closure_tree_calls(facts, f, depth=4):
    """All call sites in f and in closures / closure-calls reachable from it (bounded)."""
    out = []
    seen = {f.key}
    work = [(f, 0)]
    while work:
        g, d = work.pop()
        for c in g.calls():
            out.append((g, c))
            if d < depth and c.res in facts.fns and "{closure#" in c.res and c.res not in seen:
                seen.add(c.res)
                work.append((facts.fns[c.res], d + 1))
        if d < depth:
            for (_, _, _, k) in g.closures_created():
                if k in facts.fns and k not in seen:
                    seen.add(k)
                    work.append((facts.fns[k], d + 1))
    return out


def reads_host_header(facts, g):
    for (h, c) in closure_tree_calls(facts, g):
        if c.matches(r"http::(header::map::)?HeaderMap.*::get$") and any(str(const_of(a) or "").endswith("header::HOST") or
                                                                       any(r.kind == "const" and str(r.desc).endswith("header::HOST") for r in h.roots(a, through_calls=False)) for a in c.args[1:]):
            return True
    return False


def C20_1_3(ctx, facts):
    f = facts.unit(facts.fn("server::conn::tls::sni::handle"))
    ctx.touched(f)
    cmps = [c for c in f.calls() if c.matches(r"str.*::eq_ignore_ascii_case$")]
    inval = [b for (b, i, s) in f.aggregates("server::conn::tls::sni::ValidateSNIError", "InvalidSNI")]
    missing = [b for (b, i, s) in f.aggregates("server::conn::tls::sni::ValidateSNIError", "MissingSNI")]
    valid = f.calls("info::tls::TlsConnectionInfo::validated")
    ctx.floor("sni::handle|InvalidSNI", len(inval), 1, "InvalidSNI rejections")
    ctx.floor("sni::handle|MissingSNI", len(missing), 1, "MissingSNI rejections")
    ctx.floor("sni::handle|validated", len(valid), 1, "validated() calls")

    def host_of(operand):
        rr = f.roots(operand, through_calls=True)
        return any(r.kind == "call" and r.site.is_("http::uri::Authority::host") for r in rr), rr

    def cmp_edge(val):
        def pred(lab):
            if lab.kind != "bool" or lab.value is not val or lab.cond.kind != "call":
                return False
            s = lab.cond.site
            if not s.matches(r"str.*::eq_ignore_ascii_case$"):
                return False
            a_ok, ra = host_of(s.args[0])
            b_ok, rb = host_of(s.args[1])
            if not (a_ok and b_ok):
                return False
            # one side from the TLS server name, the other from the request
            sides = [any(r.kind == "call" and r.site.matches(r"Extensions.*::get_mut$|Extensions.*::get$") for r in x) for x in (ra, rb)]
            return sides.count(True) == 1
        return pred

    if not cmps:
        ctx.bad("sni::handle|case-insensitive", "no case-insensitive comparison (str::eq_ignore_ascii_case) of the two host names", f.where())
    for b in inval:
        ok, w = f.guarded(b, cmp_edge(False))
        ctx.check(ok, "sni::handle|reject-only-if-different", "InvalidSNI is returned only when host() of the request and host() of the server name differ case-insensitively (ports ignored)",
                  "a request can be rejected as InvalidSNI without the case-insensitive host() comparison having failed", f.where(b), f.path_desc(w))
    for c in valid:
        ok, w = f.guarded(c.bb, cmp_edge(True))
        ctx.check(ok, "sni::handle|validated-only-if-equal", "validated() is called only on the equal edge of the comparison",
                  "the connection can be marked validated without the names being equal", c.where(), f.path_desc(w))
    # equal edge always marks validated
    for (a, b) in f.edges_where(cmp_edge(True)):
        ok, w = f.must_pass(b, f.returns, {c.bb for c in valid})
        ctx.check(ok, "sni::handle|equal-marks-validated", "on the equal edge the request is marked validated before returning", "equal edge can return without validated()", f.where(a), f.path_desc(w))
        rets = [x for x in assigns_to_return(f, f.reach([b])) if x[0] == "stmt" and x[2]["r"].get("v") == "Some" and x[1] in f.reach([b], avoid_blocks=set())]
    # a matching host is never rejected: from the equal edge no rejection is reachable
    for (a, b) in f.edges_where(cmp_edge(True)):
        reach = f.reach([b])
        hit = [x for x in inval + missing if x in reach]
        ctx.check(not hit, "sni::handle|equal-never-rejected", "once the names compared equal no rejection is reachable", "a rejection is reachable after the names compared equal", f.where(a))
    ctx.floor("sni::handle|equal-edge", len(f.edges_where(cmp_edge(True))), 1, "equal edge of the comparison")
    # MissingSNI on the no-server-name edge
    def no_sni(lab):
        if lab.kind != "variant" or lab.variants != {"None"}:
            return False
        rr = f.roots(lab.place)
        return any(r.kind == "call" and r.site.matches(r"Extensions.*::get_mut$") for r in rr) and any(r.kind == "call" and r.site.matches(r"Option.*::and_then$|str.*::parse$") for r in rr)
    # and the converse: without a (parsable) server name nothing is let through - whatever the request's host looks like
    ne = f.edges_where(no_sni)
    ctx.floor("sni::handle|no-sni-edge", len(ne), 1, "edge on which the connection has no server name")
    for (a_, b_) in ne:
        ok, w = f.must_pass(b_, f.returns, set(missing))
        ctx.check(ok, "sni::handle|no-sni-always-rejected", "a request on a connection without server name is always rejected with MissingSNI",
                  "a request can pass although the client sent no server name", f.where(a_), f.path_desc(w))
    for b in missing:
        ok, w = f.guarded(b, no_sni)
        ctx.check(ok, "sni::handle|missing-only-without-sni", "MissingSNI is returned only when no (parsable) server name was sent", "MissingSNI reachable although a server name exists", f.where(b), f.path_desc(w))
    # the sni side of the comparison derives from tls.server_name
    for c in cmps:
        rr = f.roots(c.args[0]) | f.roots(c.args[1])
        ctx.check(any(r.kind == "call" and r.site.matches(r"Extensions.*::get_mut$") for r in rr), "sni::handle|sni-from-tls-info",
                  "one side of the comparison derives from the TlsConnectionInfo extension", "comparison does not involve the TLS connection info", c.where())


def h2_edges(f):
    """Edges on which the request version is / is not HTTP/2: `version == HTTP_2` (PartialEq) or a pattern match on the
    constant (lowered to a switch on the private `Http` enum: variant H2)."""
    t_edges, f_edges = [], []
    for (a, b, lab) in f.edges():
        if lab is None:
            continue
        if lab.kind == "bool" and lab.cond.kind == "call" and lab.cond.site.matches(r"PartialEq.*::(eq|ne)$") and "Version" in (lab.cond.site.t.get("argtys") or [""])[0]:
            consts = {str(r.desc) for x in lab.cond.site.args for r in f.roots(x, through_calls=False) if r.kind == "const"}
            if not any(c.endswith("Version::HTTP_2") for c in consts):
                continue
            is_ne = norm(lab.cond.site.name).endswith("::ne")
            if lab.value is (not is_ne):
                t_edges.append((a, b))
            elif lab.value is is_ne:
                f_edges.append((a, b))
        elif lab.kind == "variant" and (lab.adt or "").endswith("version::Http"):
            if lab.variants == {"H2"}:
                t_edges.append((a, b))
            elif "H2" not in lab.variants and lab.variants:
                f_edges.append((a, b))
    return t_edges, f_edges


def _selection_fn(facts):
    """The function of the sni module that contains the HTTP/2 version test (today: handle itself)."""
    h = facts.unit(facts.fn("server::conn::tls::sni::handle"))
    cands = [h] + [g for g in facts.fns.values() if g.nkey.startswith("server::conn::tls::sni::") and g.key != h.key and "tests" not in g.nkey and "{closure" not in g.nkey]
    for g in cands:
        t, fe = h2_edges(g)
        if t and fe:
            return h, g
    return h, h


def _host_get(f, c):
    return c.matches(r"http::(header::map::)?HeaderMap.*::get$") and any(
        str(const_of(a) or "").endswith("header::HOST") or any(r.kind == "const" and str(r.desc).endswith("header::HOST") for r in f.roots(a, through_calls=False)) for a in c.args[1:])


def C20_2(ctx, facts):
    """Which name of the request is compared: decided on the expanded unit of handle() (a selection helper, combinator chains,
    explicit matches and let-else all reduce to the same tests): on HTTP/2 the URI authority, with the Host header as fallback
    *only* when there is no authority; on every other version the Host header."""
    f = facts.unit(facts.fn("server::conn::tls::sni::handle"), expand=True)
    ctx.touched(f)
    t_edge, f_edge = h2_edges(f)
    ctx.floor("sni::handle|version-test", min(len(t_edge), len(f_edge)), 1, "test of the request version against HTTP/2 (both outcomes)")
    if not t_edge or not f_edge:
        return
    h2_region = f.reach([t_edge[0][1]]) - f.reach([f_edge[0][1]])
    h1_region = f.reach([f_edge[0][1]]) - f.reach([t_edge[0][1]])
    auth = [c for c in f.calls() if c.is_("http::Uri::authority", "http::uri::Uri::authority") and c.bb in h2_region]
    ctx.check(len(auth) >= 1, "sni::handle|h2-authority", "for HTTP/2 the host is taken from the URI authority", "the URI authority is never consulted on the HTTP/2 path")
    ab = {c.bb for c in auth}
    is_auth = lambda rr: any(r.kind == "call" and r.site.bb in ab for r in rr)
    a_none = f.edges_where(L_opt(f, False, is_auth))
    a_some = f.edges_where(L_opt(f, True, is_auth))
    hg2 = [c for c in f.calls() if _host_get(f, c) and c.bb in h2_region]
    ok_fb = any(any(c.bb in f.reach([y]) for c in hg2) for (x, y) in a_none)
    ctx.check(ok_fb, "sni::handle|h2-fallback-host-header", "for HTTP/2 without authority the Host header is used (reached on the None edge of uri.authority())",
              "an HTTP/2 request without authority is not validated against its Host header", f.where(t_edge[0][0]))
    # precedence: on the HTTP/2 path the Host header is read only once the authority turned out to be absent
    inverted = None
    for c in hg2:
        g, w = f.guarded(c.bb, L_opt(f, False, is_auth), frm=t_edge[0][1])
        if not g:
            inverted = c
    ctx.check(inverted is None, "sni::handle|h2-authority-takes-precedence", "for HTTP/2 the URI authority takes precedence over a Host header (the header is read only on the None edge of authority())",
              "for HTTP/2 the Host header takes precedence over the URI authority: a request whose :authority differs from its Host header is validated against the wrong name",
              inverted.where() if inverted else f.where(t_edge[0][0]))
    # other versions: the Host header
    hg1 = [c for c in f.calls() if _host_get(f, c) and c.bb in h1_region]
    ctx.check(bool(hg1), "sni::handle|h1-host-header", "for other versions the host is the Host header", "the Host header is never consulted on the non-HTTP/2 path", f.where(f_edge[0][0]))
    # the compared request host is what was selected
    cmps = [x for x in f.calls() if x.matches(r"str.*::eq_ignore_ascii_case$")]
    for x in cmps:
        rr = f.roots(x.args[0]) | f.roots(x.args[1])
        sel = any(r.kind == "call" and r.site.bb in ab for r in rr) and any(r.kind == "call" and r.site.bb in {c.bb for c in hg1} for r in rr)
        ctx.check(sel, "sni::handle|compares-selected-host", "the host that is compared is the one selected above (authority on HTTP/2, Host header otherwise)", "the compared host does not come from the selection", x.where())


def C20_4(ctx, facts):
    """ValidateSNIService::call: a rejected request never reaches the application and answers with the SNI error; an accepted one
    is passed - the same request, once - to the wrapped service.  Two-row decision table (handle() rejects / accepts)."""
    import inline
    from core import AbsPaths, VALUE_EQ, deref_value
    fn = facts.method("server::conn::tls::sni::ValidateSNIService", "Service", "call")
    u = inline.inline(facts, fn, 4, lambda ck, raw: "::_::" not in ck and not re.search(r"sni::handle$", norm(ck)), expand=True)
    ctx.touched(u)
    LOG = -81

    def has(v, tag, depth=10):
        if v is None or depth == 0:
            return False
        if v[0] == "const":
            return v[1] == tag
        if v[0] == "refval":
            return has(v[1], tag, depth - 1)
        if v[0] == "variant":
            return any(has(x, tag, depth - 1) for _, x in v[2])
        return False
    rows = 0
    for verdict in ("reject", "accept"):
        def o_handle(ev, st, t, site, verdict=verdict):
            d = t["dest"]
            st[d["l"]] = ("variant", "Some", ((0, ("const", "SNI_ERROR")),)) if verdict == "reject" else ("variant", "None", ())
            return True

        def o_inner(ev, st, t, site):
            recv = deref_value(st, ev._eval_operand(st, site.args[0])) if site.args else None
            req = deref_value(st, ev._eval_operand(st, site.args[1])) if len(site.args) > 1 else None
            l = st.get(LOG) or ("list", ())
            st[LOG] = ("list", l[1] + (("const", "inner-call:%s:%s" % (recv[1] if recv is not None and recv[0] == "const" else "?", req[1] if req is not None and req[0] == "const" else "?")),))
            st[t["dest"]["l"]] = ("const", "INNER_FUTURE")
            return True

        def o_wrap(ev, st, t, site):
            v = deref_value(st, ev._eval_operand(st, site.args[0])) if site.args else None
            if v is None:
                return False
            st[t["dest"]["l"]] = ("variant", "wrapped", ((0, v),))
            return True
        raw = [(r"sni::handle$", o_handle), (r"Service.*::call$", o_inner), (r"future::ready$|TryFutureExt.*::map_err$|Either.*::(Left|Right)$|Into.*::into$|From.*::from$", o_wrap)]
        adt = facts.adt("server::conn::tls::sni::ValidateSNIService")
        this = ("variant", "ValidateSNIService", tuple((i, ("const", "INNER_SERVICE")) for i, _ in enumerate(adt["variants"][0]["fields"])))
        key = "ValidateSNIService::call|table|handle-%ss" % verdict
        try:
            outs = AbsPaths(u, raw_oracles=raw, oracles=[VALUE_EQ]).outcomes(state={1: ("refmut", 9000), 9000: this, 2: ("const", "REQ"), LOG: ("list", ())}, extra_keys=(LOG,))
        except AbsPaths.Undecided as e:
            ctx.undecided(key, str(e))
            continue
        rows += 1
        got = set()
        for (rv, _, (lg,)) in outs:
            got.add((tuple(e[1] for e in lg[1]) if lg is not None else None, has(rv, "SNI_ERROR"), has(rv, "INNER_FUTURE")))
        want = {((), True, False)} if verdict == "reject" else {(("inner-call:INNER_SERVICE:REQ",), False, True)}
        ctx.check(got == want, key, "a request handle() %ss: %s" % (verdict, "is answered with the SNI error and never reaches the wrapped service" if verdict == "reject" else "goes - unchanged, once - to the wrapped service, whose future is returned"),
                  "a request handle() %ss: (calls of the wrapped service, answer carries the SNI error, answer carries the inner future) = %s, expected %s" % (verdict, sorted(map(str, got)), sorted(map(str, want))), u.where())
    ctx.floor("ValidateSNIService::call|table-rows", rows, 2, "scenarios evaluated")


def C20_5(ctx, facts):
    entries = [facts.unit(facts.fn("server::conn::tls::sni::handle")).key, facts.unit(facts.method("server::conn::tls::sni::ValidateSNIService", "Service", "call")).key]
    st = panics.run(ctx, facts, entries, c17.TABLE, "sni", min_sites=0, scope=lambda fn: "tls::sni" in fn.nkey or fn.nkey.startswith("info::tls"))
    ctx.assume("E-PANIC sni: %s" % st)


def C20_table(ctx, facts):
    """Which requests are forwarded, marked validated or rejected: the decision table of sni::handle (snitable.py)."""
    import snitable
    snitable.table(ctx, facts)


def C20_6(ctx, facts):
    """The middleware tells "arrived over TLS" from the per-connection TLS information; `None` there means "not TLS" and the
    request is forwarded unvalidated.  The shared state behind it must therefore never *look* empty on a TLS connection:
    `Empty` is what `empty()` constructs and nothing else; `recv` moves Pending -> Received under one write guard that it
    holds across the wait (a second request polling in between blocks on the lock instead of reading a transient state)."""
    ST = "info::tls::channel::State"
    makers = {}
    for g in facts.fns.values():
        if g.d.get("derived") or not g.nkey.startswith(("info::tls", "<info::tls")):
            continue
        for v in ("Empty", "Pending", "Received"):
            if g.aggregates(ST, v):
                makers.setdefault(v, set()).add(g.nkey)
    ctx.floor("tls-info-state|constructors", len(makers), 3, "State variants constructed somewhere")
    import panics
    for v, allowed in (("Empty", "TlsConnectionInfoReciever::empty"), ("Pending", "TlsConnectionInfoReciever::new"), ("Received", "TlsConnectionInfoReciever::recv")):
        bad = sorted(n for n in makers.get(v, ()) if not any(o.endswith(allowed) for o in panics.owner_chain(facts.by_norm[n][0]) + [n.split("::{closure")[0]]))
        ctx.check(not bad, "tls-info-state|%s-only-in-%s" % (v, allowed.split("::")[-1]), "State::%s is constructed only in %s" % (v, allowed),
                  "State::%s is also constructed in %s: a TLS connection can look like a plain one (the SNI check is skipped) while another request is waiting for the handshake" % (v, bad))
    recv = facts.fn("info::tls::channel::TlsConnectionInfoReciever::recv::{closure#0}")
    ctx.touched(recv)
    w = [c for c in recv.calls() if c.matches(r"RwLock.*::write$")]
    ctx.check(len(w) == 1, "tls-info-state|single-write-guard", "recv takes the write lock once and keeps it until the received information is stored",
              "recv takes the write lock %d times: the state is visible between the wait and the store" % len(w), recv.where())


RULES = [
    ("C20.6", C20_6, CFG),
    ("C20.1", C20_table, CFG),
    ("C20.4", C20_4, CFG),
    ("C20.5", C20_5, CFG),
]
