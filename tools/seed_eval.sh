#!/bin/bash
# usage: seed_eval.sh <ID> "<demo cargo test command (run inside the scratch worktree)>" [props to check, default all]
# Confirms a seeded change (patch compiles, suite passes, demo fails with / passes without), then runs the checks
# of /verif against a scratch worktree with the patch applied (tools/eval_patch.sh); /repo is never modified.
ID=$1; DEMO=$2; PROPS=${3:-all}
SD=${SEEDDIR:-/tmp/seed}; P=$SD/$ID-patch.diff; D=$SD/$ID-demo.diff
W=/var/tmp/seedcheck-$ID; T=/var/tmp/seedcheck-target
rm -rf $W; git -C /repo worktree prune; git -C /repo worktree add --detach $W HEAD >/dev/null 2>&1 || exit 3
cd $W
git apply $P || { echo "PATCH DOES NOT APPLY"; exit 3; }
echo "== suite with patch"
CARGO_TARGET_DIR=$T cargo test --workspace --no-fail-fast --offline 2>&1 | grep -E "^test result|FAILED|^error" | sort | uniq -c
git apply $D || { echo "DEMO DOES NOT APPLY"; }
echo "== demo with patch (expected to FAIL)"
( eval "CARGO_TARGET_DIR=$T $DEMO" 2>&1 | grep -E "^test .*(ok|FAILED)|^test result|^error" | head -12 )
git apply -R $P
echo "== demo without patch (expected to pass)"
( eval "CARGO_TARGET_DIR=$T $DEMO" 2>&1 | grep -E "^test .*(ok|FAILED)|^test result|^error" | head -12 )
cd /verif
git -C /repo worktree remove --force $W
[ -n "$NOCHECK" ] && exit 0
# never in /repo itself: a check run there rewrites /verif/evidence and /verif/replays from a broken tree, which is
# how a stale evidence/C02.json once got committed
echo "== checks against a scratch worktree of /repo HEAD + patch"
/verif/tools/eval_patch.sh "$(realpath $P)" "$PROPS"
git -C /repo status --short | head -3
