"""Fact-file model: functions, blocks, places, operands; pretty printing.

Facts come from the mirfacts driver (mir_built of every fn / closure of the crate).
Nothing here runs hyperdriver code.
"""
import json


def place_str(p):
    s = "_%d" % p["l"]
    for e in p["p"]:
        if e == "*":
            s = "(*%s)" % s
        elif isinstance(e, str):
            s = "%s@%s" % (s, e)
        elif "f" in e:
            s = "%s.%s" % (s, e["n"] if e.get("n") is not None else e["f"])
        elif "d" in e:
            s = "(%s as %s)" % (s, e["d"] if e["d"] is not None else e["i"])
        elif "ix" in e:
            s = "%s[_%d]" % (s, e["ix"])
        elif "ci" in e:
            s = "%s[%s%s]" % (s, "-" if e["fe"] else "", e["ci"])
        elif "sub" in e:
            s = "%s[%s..%s]" % (s, e["sub"], e["to"])
    return s


def op_place(o):
    """Place read by an operand, or None for constants."""
    if "c" in o:
        return o["c"]
    if "m" in o:
        return o["m"]
    return None


def op_str(o):
    if "c" in o:
        return place_str(o["c"])
    if "m" in o:
        return "move " + place_str(o["m"])
    if "k" in o:
        k = o["k"]
        return "const " + (k.get("fna") or k.get("v"))
    return "?" + json.dumps(o)


def rv_str(r):
    k = r["k"]
    if k == "use":
        return op_str(r["o"])
    if k == "ref":
        return "&%s%s" % ("mut " if r["bk"] == "mut" else ("fake " if r["bk"] == "fake" else ""), place_str(r["p"]))
    if k == "rawptr":
        return "&raw %s" % place_str(r["p"])
    if k == "cast":
        return "%s as %s (%s)" % (op_str(r["o"]), r["ty"], r["ck"])
    if k == "binop":
        return "%s(%s, %s)" % (r["op"], op_str(r["a"]), op_str(r["b"]))
    if k == "unop":
        return "%s(%s)" % (r["op"], op_str(r["o"]))
    if k == "discr":
        return "discriminant(%s)" % place_str(r["p"])
    if k == "agg":
        ops = ", ".join(op_str(o) for o in r["ops"])
        if "adt" in r:
            return "%s::%s{%s}" % (r["adt"], r["v"], ops)
        if "tuple" in r:
            return "(%s)" % ops
        if "closure" in r:
            return "closure %s{%s}" % (r["closure"], ops)
        if "coroutine" in r:
            return "coroutine %s{%s}" % (r["coroutine"], ops)
        if "coroutine_closure" in r:
            return "coroutine_closure %s{%s}" % (r["coroutine_closure"], ops)
        return "[%s]" % ops
    if k == "copyderef":
        return "deref_copy %s" % place_str(r["p"])
    if k == "repeat":
        return "[%s; %s]" % (op_str(r["o"]), r["n"])
    return r.get("dbg", k)


def callee_name(t):
    return t.get("res") or t.get("decl") or ("<indirect %s>" % t.get("fty"))


def term_str(t):
    k = t["k"]
    if k == "call":
        return "%s = %s(%s) -> %s%s" % (
            place_str(t["dest"]),
            t.get("resa") or t.get("decla") or ("<indirect %s>" % t.get("fty")),
            ", ".join(op_str(a) for a in t["args"]),
            t["t"],
            "" if t.get("res") else " [unresolved]",
        )
    if k == "switch":
        return "switch(%s) [%s, else: %s]" % (op_str(t["o"]), ", ".join("%s: %s" % (v, b) for v, b in t["ts"]), t["else"])
    if k == "drop":
        return "drop(%s : %s) -> %s" % (place_str(t["p"]), t["pty"], t["t"])
    if k == "assert":
        return "assert(%s == %s, %s) -> %s" % (op_str(t["o"]), t["exp"], t["msg"], t["t"])
    if k == "yield":
        return "yield(%s) -> %s" % (op_str(t["o"]), t["t"])
    if k in ("goto", "false_unwind"):
        return "%s -> %s" % (k, t["t"])
    if k == "false_edge":
        return "false_edge -> %s (imag %s)" % (t["t"], t["im"])
    return k


def expn_tag(x):
    if not x.get("x"):
        return ""
    return "  // " + ",".join(e.split("::")[-1] if e.startswith("macro") else e for e in x["x"])


def is_noise(x):
    """Statement / terminator produced by a tracing macro expansion."""
    return any(e.startswith("macro:") and ("tracing::" in e or e.endswith(":tracing")) for e in (x.get("x") or []))


def fn_str(key, f, quiet=False):
    out = ["fn %s  [%s] argc=%s" % (key, f["span"], f["argc"])]
    names = {}
    for n, p in f["names"]:
        names.setdefault(place_str(p), n)
    for i, t in enumerate(f["locals"]):
        nm = names.get("_%d" % i)
        if quiet and not nm and i > f["argc"]:
            continue
        if quiet and "tracing::" in t:
            continue
        out.append("  let _%d: %s%s" % (i, t, ("  // " + nm) if nm else ""))
    for n, p in f["names"]:
        if p["p"]:
            out.append("  debug %s => %s" % (n, place_str(p)))
    for i, b in enumerate(f["blocks"]):
        out.append(" bb%d%s:" % (i, " (cleanup)" if b["cleanup"] else ""))
        for s in b["s"]:
            if quiet and is_noise(s):
                continue
            if s["k"] == "assign":
                out.append("    %s = %s  @%s%s" % (place_str(s["p"]), rv_str(s["r"]), s["l"], expn_tag(s)))
            elif s["k"] == "setdiscr":
                out.append("    discriminant(%s) = %s" % (place_str(s["p"]), s["vi"]))
        t = b["t"]
        if quiet and is_noise(t):
            succ = [t.get("t")] + [x[1] for x in t.get("ts", [])] + ([t["else"]] if "else" in t else [])
            out.append("    [tracing %s] -> %s" % (t["k"], [x for x in succ if x is not None]))
        else:
            out.append("    %s  @%s%s" % (term_str(t), t.get("l"), expn_tag(t)))
    return "\n".join(out)


def load(path):
    with open(path) as fh:
        return json.load(fh)


if __name__ == "__main__":
    import sys
    d = load(sys.argv[1])
    pat = sys.argv[2]
    for k, f in d["fns"].items():
        if pat in k:
            if len(sys.argv) > 3 and sys.argv[3] == "-l":
                print(k)
            else:
                print(fn_str(k, f, quiet="-q" in sys.argv))
                print()
