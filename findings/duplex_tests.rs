    // ---- demonstration for F5 (C09): a client that gives up after enqueueing its connection request must not end
    // the accept loop.  Appended inside `mod test` of src/stream/duplex.rs; run with `cargo test --offline --lib verif_`.
    #[tokio::test]
    async fn verif_f5_cancelled_connect_does_not_fail_accept() {
        use super::*;
        use crate::server::conn::Accept;
        use std::future::poll_fn;
        use std::pin::Pin;

        let (client, mut incoming) = pair();

        // a client enqueues a request and then cancels its connect future
        {
            let mut fut = std::pin::pin!(client.connect(1024));
            assert!(futures_util::poll!(&mut fut).is_pending());
        } // dropped here: the oneshot receiver for the ack is gone

        // a well-behaved client connects afterwards
        let good = tokio::spawn({
            let client = client.clone();
            async move { client.connect(1024).await }
        });

        let accepted = poll_fn(|cx| Pin::new(&mut incoming).poll_accept(cx)).await;
        assert!(
            accepted.is_ok(),
            "F5: accept failed because one client cancelled its connect: {:?}",
            accepted.err()
        );
        assert!(good.await.unwrap().is_ok());
    }
