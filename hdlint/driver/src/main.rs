//! mirfacts: rustc_private driver that dumps `mir_built` facts of one crate as JSON.
//!
//! Used as RUSTC_WORKSPACE_WRAPPER (`mirfacts <rustc> <args..>`): argv[1] is dropped.
//! Environment:
//!   HDLINT_OUT   path of the JSON fact file to write (one write per process)
//!   HDLINT_CRATE crate name to dump (default `hyperdriver`)
#![feature(rustc_private)]

extern crate rustc_abi;
extern crate rustc_driver;
extern crate rustc_hir;
extern crate rustc_interface;
extern crate rustc_middle;
extern crate rustc_span;

use rustc_driver::{Callbacks, Compilation};
use rustc_hir::def::DefKind;
use rustc_hir::def_id::{DefId, LocalDefId, LOCAL_CRATE};
use rustc_hir::intravisit::{self, Visitor};
use rustc_interface::interface::Compiler;
use rustc_middle::mir::{
    self, AggregateKind, BasicBlock, Body, Operand, Place, PlaceElem, Rvalue, StatementKind,
    TerminatorKind, UnwindAction,
};
use rustc_middle::ty::print::with_no_trimmed_paths;
use rustc_middle::ty::{self, Instance, InstanceKind, Ty, TyCtxt, TypingEnv};
use rustc_span::{ExpnKind, Span};
use std::fmt::Write as _;

// ---------------------------------------------------------------- JSON helpers

fn esc(s: &str, out: &mut String) {
    out.push('"');
    for c in s.chars() {
        match c {
            '"' => out.push_str("\\\""),
            '\\' => out.push_str("\\\\"),
            '\n' => out.push_str("\\n"),
            '\r' => out.push_str("\\r"),
            '\t' => out.push_str("\\t"),
            c if (c as u32) < 0x20 => {
                let _ = write!(out, "\\u{:04x}", c as u32);
            }
            c => out.push(c),
        }
    }
    out.push('"');
}

fn js(s: &str) -> String {
    let mut o = String::with_capacity(s.len() + 2);
    esc(s, &mut o);
    o
}

fn jarr(items: &[String]) -> String {
    let mut o = String::from("[");
    for (i, it) in items.iter().enumerate() {
        if i > 0 {
            o.push(',');
        }
        o.push_str(it);
    }
    o.push(']');
    o
}

fn jobj(items: &[(&str, String)]) -> String {
    let mut o = String::from("{");
    for (i, (k, v)) in items.iter().enumerate() {
        if i > 0 {
            o.push(',');
        }
        esc(k, &mut o);
        o.push(':');
        o.push_str(v);
    }
    o.push('}');
    o
}

fn jopt(v: Option<String>) -> String {
    v.unwrap_or_else(|| "null".to_string())
}

// ---------------------------------------------------------------- dumping

struct Cx<'tcx> {
    tcx: TyCtxt<'tcx>,
}

impl<'tcx> Cx<'tcx> {
    fn path(&self, did: DefId) -> String {
        with_no_trimmed_paths!(self.tcx.def_path_str(did))
    }
    fn path_args(&self, did: DefId, args: ty::GenericArgsRef<'tcx>) -> String {
        with_no_trimmed_paths!(self.tcx.def_path_str_with_args(did, args))
    }
    fn ty(&self, t: Ty<'tcx>) -> String {
        with_no_trimmed_paths!(t.to_string())
    }

    fn loc(&self, span: Span) -> (String, usize, usize) {
        let sm = self.tcx.sess.source_map();
        let sp = span.source_callsite();
        let lo = sm.lookup_char_pos(sp.lo());
        let hi = sm.lookup_char_pos(sp.hi());
        let name = match &lo.file.name {
            rustc_span::FileName::Real(r) => match r.local_path() {
                Some(p) => p.to_string_lossy().to_string(),
                None => format!("{:?}", lo.file.name),
            },
            other => format!("{:?}", other),
        };
        (name, lo.line, hi.line)
    }

    fn expn(&self, span: Span) -> Option<String> {
        if !span.from_expansion() {
            return None;
        }
        let mut v = Vec::new();
        for e in span.macro_backtrace() {
            let s = match e.kind {
                ExpnKind::Macro(k, name) => {
                    let p = match e.macro_def_id {
                        Some(d) => self.path(d),
                        None => name.to_string(),
                    };
                    format!("macro:{:?}:{}", k, p)
                }
                ExpnKind::Desugaring(k) => format!("desugar:{:?}", k),
                ExpnKind::AstPass(k) => format!("astpass:{:?}", k),
                ExpnKind::Root => "root".to_string(),
            };
            v.push(js(&s));
        }
        Some(jarr(&v))
    }

    fn adt_of(&self, t: Ty<'tcx>) -> Option<ty::AdtDef<'tcx>> {
        match t.kind() {
            ty::Adt(d, _) => Some(*d),
            _ => None,
        }
    }

    fn place(&self, body: &Body<'tcx>, p: &Place<'tcx>) -> String {
        let tcx = self.tcx;
        let mut pty = mir::PlaceTy::from_ty(body.local_decls[p.local].ty);
        let mut projs = Vec::new();
        for elem in p.projection.iter() {
            let s = match elem {
                PlaceElem::Deref => js("*"),
                PlaceElem::Field(f, fty) => {
                    let mut name: Option<String> = None;
                    match pty.ty.kind() {
                        ty::Adt(adt, _) => {
                            let vi = pty.variant_index.unwrap_or(rustc_abi::FIRST_VARIANT);
                            if adt.is_enum() || adt.is_struct() || adt.is_union() {
                                if let Some(v) = adt.variants().get(vi) {
                                    if let Some(fd) = v.fields.get(f) {
                                        name = Some(fd.name.to_string());
                                    }
                                }
                            }
                        }
                        ty::Closure(did, _) | ty::Coroutine(did, _) | ty::CoroutineClosure(did, _) => {
                            if let Some(ld) = did.as_local() {
                                let caps = tcx.closure_captures(ld);
                                if let Some(c) = caps.get(f.as_usize()) {
                                    name = Some(format!("cap:{}", c.to_symbol()));
                                }
                            }
                        }
                        _ => {}
                    }
                    jobj(&[
                        ("f", f.as_usize().to_string()),
                        ("n", jopt(name.map(|n| js(&n)))),
                        ("t", js(&self.ty(fty))),
                    ])
                }
                PlaceElem::Downcast(name, vi) => jobj(&[
                    ("d", jopt(name.map(|n| js(n.as_str())))),
                    ("i", vi.as_usize().to_string()),
                ]),
                PlaceElem::Index(l) => jobj(&[("ix", l.as_usize().to_string())]),
                PlaceElem::ConstantIndex { offset, min_length, from_end } => jobj(&[
                    ("ci", offset.to_string()),
                    ("min", min_length.to_string()),
                    ("fe", from_end.to_string()),
                ]),
                PlaceElem::Subslice { from, to, from_end } => jobj(&[
                    ("sub", from.to_string()),
                    ("to", to.to_string()),
                    ("fe", from_end.to_string()),
                ]),
                PlaceElem::OpaqueCast(_) => js("opaque"),
                PlaceElem::UnwrapUnsafeBinder(_) => js("unbind"),
            };
            projs.push(s);
            pty = pty.projection_ty(tcx, elem);
        }
        jobj(&[("l", p.local.as_usize().to_string()), ("p", jarr(&projs))])
    }

    fn constant(&self, c: &mir::ConstOperand<'tcx>) -> String {
        let ty = c.const_.ty();
        let mut items: Vec<(&str, String)> = vec![("ty", js(&self.ty(ty)))];
        let disp = with_no_trimmed_paths!(format!("{}", c.const_));
        items.push(("v", js(&disp)));
        if let ty::FnDef(did, args) = ty.kind() {
            items.push(("fn", js(&self.path(*did))));
            items.push(("fna", js(&self.path_args(*did, args))));
        }
        if let ty::Closure(did, _) = ty.kind() {
            items.push(("closure", js(&self.path(*did))));
        }
        if let mir::Const::Unevaluated(u, _) = c.const_ {
            if u.promoted.is_some() {
                items.push(("promoted", "true".into()));
            } else {
                items.push(("item", js(&self.path(u.def))));
            }
        }
        jobj(&items)
    }

    fn operand(&self, body: &Body<'tcx>, o: &Operand<'tcx>) -> String {
        match o {
            Operand::Copy(p) => jobj(&[("c", self.place(body, p))]),
            Operand::Move(p) => jobj(&[("m", self.place(body, p))]),
            Operand::Constant(c) => jobj(&[("k", self.constant(c))]),
            other => jobj(&[("other", js(&format!("{:?}", other)))]),
        }
    }

    fn rvalue(&self, body: &Body<'tcx>, r: &Rvalue<'tcx>) -> String {
        let tcx = self.tcx;
        match r {
            Rvalue::Use(o, _) => jobj(&[("k", js("use")), ("o", self.operand(body, o))]),
            Rvalue::Repeat(o, n) => jobj(&[
                ("k", js("repeat")),
                ("o", self.operand(body, o)),
                ("n", js(&with_no_trimmed_paths!(format!("{}", n)))),
            ]),
            Rvalue::Ref(_, bk, p) => {
                let m = match bk {
                    mir::BorrowKind::Shared => "shared",
                    mir::BorrowKind::Fake(_) => "fake",
                    mir::BorrowKind::Mut { .. } => "mut",
                };
                jobj(&[("k", js("ref")), ("bk", js(m)), ("p", self.place(body, p))])
            }
            Rvalue::ThreadLocalRef(d) => jobj(&[("k", js("tls")), ("d", js(&self.path(*d)))]),
            Rvalue::RawPtr(kind, p) => jobj(&[
                ("k", js("rawptr")),
                ("bk", js(&format!("{:?}", kind))),
                ("p", self.place(body, p)),
            ]),
            Rvalue::Cast(kind, o, t) => jobj(&[
                ("k", js("cast")),
                ("ck", js(&format!("{:?}", kind))),
                ("o", self.operand(body, o)),
                ("ty", js(&self.ty(*t))),
            ]),
            Rvalue::BinaryOp(op, ab) => jobj(&[
                ("k", js("binop")),
                ("op", js(&format!("{:?}", op))),
                ("a", self.operand(body, &ab.0)),
                ("b", self.operand(body, &ab.1)),
            ]),
            Rvalue::UnaryOp(op, o) => jobj(&[
                ("k", js("unop")),
                ("op", js(&format!("{:?}", op))),
                ("o", self.operand(body, o)),
            ]),
            Rvalue::Discriminant(p) => {
                let pty = p.ty(&body.local_decls, tcx).ty;
                let mut items = vec![("k", js("discr")), ("p", self.place(body, p))];
                if let Some(adt) = self.adt_of(pty) {
                    items.push(("adt", js(&self.path(adt.did()))));
                    if adt.is_enum() {
                        let mut vars = Vec::new();
                        for (vi, d) in adt.discriminants(tcx) {
                            vars.push(jarr(&[
                                js(&d.val.to_string()),
                                js(adt.variant(vi).name.as_str()),
                            ]));
                        }
                        items.push(("vars", jarr(&vars)));
                    }
                } else {
                    items.push(("adt", js(&self.ty(pty))));
                }
                jobj(&items)
            }
            Rvalue::Aggregate(kind, ops) => {
                let mut items = vec![("k", js("agg"))];
                match &**kind {
                    AggregateKind::Array(t) => {
                        items.push(("array", js(&self.ty(*t))));
                    }
                    AggregateKind::Tuple => {
                        items.push(("tuple", "true".into()));
                    }
                    AggregateKind::Adt(did, vi, args, _, active) => {
                        let adt = tcx.adt_def(*did);
                        let v = adt.variant(*vi);
                        items.push(("adt", js(&self.path(*did))));
                        items.push(("adta", js(&self.path_args(*did, args))));
                        items.push(("v", js(v.name.as_str())));
                        items.push(("vi", vi.as_usize().to_string()));
                        let names: Vec<String> = match active {
                            Some(f) => vec![js(v.fields[*f].name.as_str())],
                            None => v.fields.iter().map(|f| js(f.name.as_str())).collect(),
                        };
                        items.push(("fields", jarr(&names)));
                    }
                    AggregateKind::Closure(did, _) => {
                        items.push(("closure", js(&self.path(*did))));
                    }
                    AggregateKind::Coroutine(did, _) => {
                        items.push(("coroutine", js(&self.path(*did))));
                    }
                    AggregateKind::CoroutineClosure(did, _) => {
                        items.push(("coroutine_closure", js(&self.path(*did))));
                    }
                    AggregateKind::RawPtr(t, _) => {
                        items.push(("rawptr", js(&self.ty(*t))));
                    }
                }
                let o: Vec<String> = ops.iter().map(|o| self.operand(body, o)).collect();
                items.push(("ops", jarr(&o)));
                jobj(&items)
            }
            Rvalue::CopyForDeref(p) => jobj(&[("k", js("copyderef")), ("p", self.place(body, p))]),
            other => jobj(&[("k", js("other")), ("dbg", js(&format!("{:?}", other)))]),
        }
    }

    fn bb(&self, b: BasicBlock) -> String {
        b.as_usize().to_string()
    }

    fn unwind(&self, u: &UnwindAction) -> String {
        match u {
            UnwindAction::Cleanup(b) => self.bb(*b),
            _ => "null".into(),
        }
    }

    fn src(&self, span: Span, items: &mut Vec<(&'static str, String)>) {
        let (_, line, _) = self.loc(span);
        items.push(("l", line.to_string()));
        if let Some(x) = self.expn(span) {
            items.push(("x", x));
        }
    }

    fn callee(
        &self,
        owner: LocalDefId,
        body: &Body<'tcx>,
        func: &Operand<'tcx>,
        items: &mut Vec<(&'static str, String)>,
    ) {
        let tcx = self.tcx;
        if let Operand::Constant(c) = func {
            if let ty::FnDef(did, args) = c.const_.ty().kind() {
                items.push(("decl", js(&self.path(*did))));
                items.push(("decla", js(&self.path_args(*did, args))));
                let targs: Vec<String> = args
                    .iter()
                    .map(|a| js(&with_no_trimmed_paths!(a.to_string())))
                    .collect();
                items.push(("targs", jarr(&targs)));
                let env = TypingEnv::post_analysis(tcx, owner.to_def_id());
                let res = std::panic::catch_unwind(std::panic::AssertUnwindSafe(|| {
                    Instance::try_resolve(tcx, env, *did, args)
                }));
                if let Ok(Ok(Some(inst))) = res {
                    let rd = inst.def_id();
                    let kind = match inst.def {
                        InstanceKind::Item(_) => "item",
                        InstanceKind::Intrinsic(_) => "intrinsic",
                        InstanceKind::Virtual(..) => "virtual",
                        InstanceKind::ClosureOnceShim { .. } => "closure_once_shim",
                        InstanceKind::FnPtrShim(..) => "fnptr_shim",
                        InstanceKind::DropGlue(..) => "drop_glue",
                        InstanceKind::CloneShim(..) => "clone_shim",
                        InstanceKind::ReifyShim(..) => "reify_shim",
                        InstanceKind::VTableShim(..) => "vtable_shim",
                        _ => "other_shim",
                    };
                    items.push(("res", js(&self.path(rd))));
                    items.push(("resa", js(&self.path_args(rd, inst.args))));
                    items.push(("resk", js(kind)));
                    items.push(("resl", rd.is_local().to_string()));
                }
                return;
            }
        }
        items.push(("fop", self.operand(body, func)));
        let fty = func.ty(&body.local_decls, tcx);
        items.push(("fty", js(&self.ty(fty))));
    }

    fn terminator(&self, owner: LocalDefId, body: &Body<'tcx>, t: &mir::Terminator<'tcx>) -> String {
        let tcx = self.tcx;
        let mut items: Vec<(&'static str, String)> = Vec::new();
        match &t.kind {
            TerminatorKind::Goto { target } => {
                items.push(("k", js("goto")));
                items.push(("t", self.bb(*target)));
            }
            TerminatorKind::SwitchInt { discr, targets } => {
                items.push(("k", js("switch")));
                items.push(("o", self.operand(body, discr)));
                items.push(("oty", js(&self.ty(discr.ty(&body.local_decls, tcx)))));
                let mut ts = Vec::new();
                for (v, b) in targets.iter() {
                    ts.push(jarr(&[js(&v.to_string()), self.bb(b)]));
                }
                items.push(("ts", jarr(&ts)));
                items.push(("else", self.bb(targets.otherwise())));
            }
            TerminatorKind::UnwindResume => items.push(("k", js("resume"))),
            TerminatorKind::UnwindTerminate(_) => items.push(("k", js("terminate"))),
            TerminatorKind::Return => items.push(("k", js("return"))),
            TerminatorKind::Unreachable => items.push(("k", js("unreachable"))),
            TerminatorKind::Drop { place, target, unwind, .. } => {
                items.push(("k", js("drop")));
                items.push(("p", self.place(body, place)));
                items.push(("pty", js(&self.ty(place.ty(&body.local_decls, tcx).ty))));
                items.push(("t", self.bb(*target)));
                items.push(("u", self.unwind(unwind)));
            }
            TerminatorKind::Call { func, args, destination, target, unwind, fn_span, .. } => {
                items.push(("k", js("call")));
                self.callee(owner, body, func, &mut items);
                let a: Vec<String> = args.iter().map(|a| self.operand(body, &a.node)).collect();
                items.push(("args", jarr(&a)));
                let at: Vec<String> = args
                    .iter()
                    .map(|a| js(&self.ty(a.node.ty(&body.local_decls, tcx))))
                    .collect();
                items.push(("argtys", jarr(&at)));
                items.push(("dest", self.place(body, destination)));
                items.push(("t", jopt(target.map(|b| self.bb(b)))));
                items.push(("u", self.unwind(unwind)));
                let (_, fl, _) = self.loc(*fn_span);
                items.push(("fl", fl.to_string()));
            }
            TerminatorKind::TailCall { func, args, .. } => {
                items.push(("k", js("tailcall")));
                self.callee(owner, body, func, &mut items);
                let a: Vec<String> = args.iter().map(|a| self.operand(body, &a.node)).collect();
                items.push(("args", jarr(&a)));
            }
            TerminatorKind::Assert { cond, expected, msg, target, unwind } => {
                items.push(("k", js("assert")));
                items.push(("o", self.operand(body, cond)));
                items.push(("exp", expected.to_string()));
                let m = format!("{:?}", msg);
                let kind = m.split(|c: char| !c.is_alphanumeric()).next().unwrap_or("").to_string();
                items.push(("msg", js(&kind)));
                items.push(("t", self.bb(*target)));
                items.push(("u", self.unwind(unwind)));
            }
            TerminatorKind::Yield { value, resume, resume_arg, drop } => {
                items.push(("k", js("yield")));
                items.push(("o", self.operand(body, value)));
                items.push(("t", self.bb(*resume)));
                items.push(("ra", self.place(body, resume_arg)));
                items.push(("drop", jopt(drop.map(|b| self.bb(b)))));
            }
            TerminatorKind::CoroutineDrop => items.push(("k", js("coroutine_drop"))),
            TerminatorKind::FalseEdge { real_target, imaginary_target } => {
                items.push(("k", js("false_edge")));
                items.push(("t", self.bb(*real_target)));
                items.push(("im", self.bb(*imaginary_target)));
            }
            TerminatorKind::FalseUnwind { real_target, unwind } => {
                items.push(("k", js("false_unwind")));
                items.push(("t", self.bb(*real_target)));
                items.push(("u", self.unwind(unwind)));
            }
            TerminatorKind::InlineAsm { .. } => items.push(("k", js("asm"))),
        }
        self.src(t.source_info.span, &mut items);
        jobj(&items)
    }

    fn body(&self, def: LocalDefId, body: &Body<'tcx>) -> String {
        let tcx = self.tcx;
        let did = def.to_def_id();
        let kind = tcx.def_kind(did);
        let (file, lo, hi) = self.loc(body.span);
        let mut items: Vec<(&'static str, String)> = Vec::new();
        items.push(("span", js(&format!("{}:{}-{}", file, lo, hi))));
        items.push(("file", js(&file)));
        items.push(("kind", js(&format!("{:?}", kind))));
        items.push(("argc", body.arg_count.to_string()));
        let parent = tcx.opt_local_parent(def);
        if let Some(p) = parent {
            items.push(("parent", js(&self.path(p.to_def_id()))));
        }
        if matches!(kind, DefKind::Fn | DefKind::AssocFn) {
            let vis = tcx.visibility(did);
            items.push(("vis", js(&format!("{:?}", vis))));
            let reach = tcx.effective_visibilities(()).is_reachable(def);
            items.push(("reachable", reach.to_string()));
            items.push(("name", js(tcx.item_name(did).as_str())));
            if let Some(impl_did) = tcx.impl_of_assoc(did) {
                items.push(("impl_self", js(&self.ty(tcx.type_of(impl_did).instantiate_identity().skip_norm_wip()))));
                if let Some(tr) = tcx.impl_opt_trait_ref(impl_did) {
                    let tr = tr.instantiate_identity().skip_norm_wip();
                    items.push(("impl_trait", js(&self.path(tr.def_id))));
                }
                items.push(("derived", tcx.is_automatically_derived(impl_did).to_string()));
            }
            if let Some(tr) = tcx.trait_of_assoc(did) {
                items.push(("in_trait", js(&self.path(tr))));
            }
        }
        if matches!(kind, DefKind::Closure) {
            let caps: Vec<String> = tcx
                .closure_captures(def)
                .iter()
                .map(|c| js(&c.to_symbol().to_string()))
                .collect();
            items.push(("captures", jarr(&caps)));
            if let Some(ck) = tcx.coroutine_kind(did) {
                items.push(("coroutine", js(&format!("{:?}", ck))));
            }
        }
        let locals: Vec<String> = body.local_decls.iter().map(|d| js(&self.ty(d.ty))).collect();
        items.push(("locals", jarr(&locals)));
        let user: Vec<String> = body
            .local_decls
            .iter()
            .map(|d| d.is_user_variable().to_string())
            .collect();
        items.push(("user", jarr(&user)));
        let mut names = Vec::new();
        for v in &body.var_debug_info {
            if let mir::VarDebugInfoContents::Place(p) = &v.value {
                names.push(jarr(&[js(v.name.as_str()), self.place(body, p)]));
            }
        }
        items.push(("names", jarr(&names)));
        let mut blocks = Vec::new();
        for (_bb, data) in body.basic_blocks.iter_enumerated() {
            let mut stmts = Vec::new();
            for s in &data.statements {
                match &s.kind {
                    StatementKind::Assign(b) => {
                        let (p, r) = &**b;
                        let mut it: Vec<(&'static str, String)> = vec![
                            ("k", js("assign")),
                            ("p", self.place(body, p)),
                            ("r", self.rvalue(body, r)),
                        ];
                        self.src(s.source_info.span, &mut it);
                        stmts.push(jobj(&it));
                    }
                    StatementKind::SetDiscriminant { place, variant_index } => {
                        let mut it: Vec<(&'static str, String)> = vec![
                            ("k", js("setdiscr")),
                            ("p", self.place(body, place)),
                            ("vi", variant_index.as_usize().to_string()),
                        ];
                        self.src(s.source_info.span, &mut it);
                        stmts.push(jobj(&it));
                    }
                    StatementKind::StorageDead(l) => {
                        stmts.push(jobj(&[("k", js("dead")), ("l", l.as_usize().to_string())]));
                    }
                    _ => {}
                }
            }
            let term = self.terminator(def, body, data.terminator());
            blocks.push(jobj(&[
                ("s", jarr(&stmts)),
                ("t", term),
                ("cleanup", data.is_cleanup.to_string()),
            ]));
        }
        items.push(("blocks", jarr(&blocks)));
        jobj(&items)
    }
}

struct UnsafeCounter<'tcx> {
    count: usize,
    lines: Vec<usize>,
    tcx: TyCtxt<'tcx>,
}

impl<'v, 'tcx> Visitor<'v> for UnsafeCounter<'tcx> {
    fn visit_block(&mut self, b: &'v rustc_hir::Block<'v>) {
        if let rustc_hir::BlockCheckMode::UnsafeBlock(rustc_hir::UnsafeSource::UserProvided) = b.rules {
            if !b.span.from_expansion() {
                self.count += 1;
            }
            self.lines.push(
                self.tcx.sess.source_map().lookup_char_pos(b.span.source_callsite().lo()).line,
            );
        }
        intravisit::walk_block(self, b);
    }
}

fn dump<'tcx>(tcx: TyCtxt<'tcx>, out_path: &str) {
    let cx = Cx { tcx };
    // Phase 1: clone every built body before anything can steal it.
    let mut keys: Vec<LocalDefId> = tcx.mir_keys(()).iter().copied().collect();
    // Bodies whose typeck root defines opaque types (`-> impl Trait`, async fn) can be stolen by
    // borrowck when another body needs the hidden type: read those first.
    keys.sort_by_key(|d| {
        let root = tcx.typeck_root_def_id(d.to_def_id());
        let has_opaque = match root.as_local() {
            Some(r) if matches!(tcx.def_kind(root), DefKind::Fn | DefKind::AssocFn) => {
                !tcx.opaque_types_defined_by(r).is_empty()
            }
            _ => false,
        };
        // const / static items first: evaluating them (for patterns, array lengths) steals their MIR
        let is_const = matches!(
            tcx.def_kind(d.to_def_id()),
            DefKind::Const { .. } | DefKind::AssocConst { .. } | DefKind::Static { .. }
        );
        if is_const {
            0
        } else if has_opaque {
            1
        } else {
            2
        }
    });
    let mut bodies: Vec<(LocalDefId, Body<'tcx>)> = Vec::new();
    let mut stolen: Vec<String> = Vec::new();
    for def in &keys {
        if !matches!(
            tcx.def_kind(def.to_def_id()),
            DefKind::Fn
                | DefKind::AssocFn
                | DefKind::Closure
                | DefKind::InlineConst
                | DefKind::Const { .. }
                | DefKind::AssocConst { .. }
                | DefKind::Static { .. }
        ) {
            continue;
        }
        let st = tcx.mir_built(*def);
        if st.is_stolen() {
            stolen.push(js(&format!("{:?}:{}", tcx.def_kind(def.to_def_id()), cx.path(def.to_def_id()))));
            continue;
        }
        let b = st.borrow().clone();
        bodies.push((*def, b));
    }
    // Phase 2: serialise.
    let mut out = String::with_capacity(32 << 20);
    out.push_str("{\"crate\":");
    out.push_str(&js(tcx.crate_name(LOCAL_CRATE).as_str()));
    out.push_str(",\"stolen\":");
    out.push_str(&jarr(&stolen));
    out.push_str(",\"fns\":{");
    let mut first = true;
    let mut seen = std::collections::HashSet::new();
    for (def, body) in &bodies {
        let mut key = cx.path(def.to_def_id());
        if !seen.insert(key.clone()) {
            // disambiguate duplicates deterministically
            let mut n = 2;
            loop {
                let k2 = format!("{}#{}", key, n);
                if seen.insert(k2.clone()) {
                    key = k2;
                    break;
                }
                n += 1;
            }
        }
        if !first {
            out.push(',');
        }
        first = false;
        esc(&key, &mut out);
        out.push(':');
        out.push_str(&cx.body(*def, body));
    }
    out.push_str("},");

    // unsafe blocks (HIR)
    let mut unsafe_items = Vec::new();
    for def in &keys {
        if let Some(hbody) = tcx.hir_maybe_body_owned_by(*def) {
            let mut v = UnsafeCounter { count: 0, lines: Vec::new(), tcx };
            v.visit_expr(hbody.value);
            if v.count > 0 {
                unsafe_items.push(jobj(&[
                    ("fn", js(&cx.path(def.to_def_id()))),
                    ("count", v.count.to_string()),
                    ("lines", jarr(&v.lines.iter().map(|l| l.to_string()).collect::<Vec<_>>())),
                ]));
            }
        }
    }
    out.push_str("\"unsafe_blocks\":");
    out.push_str(&jarr(&unsafe_items));
    out.push(',');

    // ADTs, impls, traits
    let mut adts = Vec::new();
    let mut impls = Vec::new();
    let mut traits = Vec::new();
    let mut fn_sigs = Vec::new();
    for ld in tcx.hir_crate_items(()).definitions() {
        let did = ld.to_def_id();
        match tcx.def_kind(did) {
            DefKind::Struct | DefKind::Enum | DefKind::Union => {
                let adt = tcx.adt_def(did);
                let mut vars = Vec::new();
                for v in adt.variants().iter() {
                    let mut fields = Vec::new();
                    for f in v.fields.iter() {
                        let fty = tcx.type_of(f.did).instantiate_identity().skip_norm_wip();
                        fields.push(jobj(&[
                            ("name", js(f.name.as_str())),
                            ("ty", js(&cx.ty(fty))),
                            ("vis", js(&format!("{:?}", f.vis))),
                        ]));
                    }
                    vars.push(jobj(&[("name", js(v.name.as_str())), ("fields", jarr(&fields))]));
                }
                let (file, lo, _) = cx.loc(tcx.def_span(did));
                adts.push(jobj(&[
                    ("path", js(&cx.path(did))),
                    ("kind", js(&format!("{:?}", tcx.def_kind(did)))),
                    ("vis", js(&format!("{:?}", tcx.visibility(did)))),
                    ("reachable", tcx.effective_visibilities(()).is_reachable(ld).to_string()),
                    ("variants", jarr(&vars)),
                    ("span", js(&format!("{}:{}", file, lo))),
                ]));
            }
            DefKind::Impl { .. } => {
                let self_ty = tcx.type_of(did).instantiate_identity().skip_norm_wip();
                let mut items: Vec<(&str, String)> = Vec::new();
                items.push(("self", js(&cx.ty(self_ty))));
                if let Some(adt) = cx.adt_of(self_ty) {
                    items.push(("self_adt", js(&cx.path(adt.did()))));
                }
                if let Some(tr) = tcx.impl_opt_trait_ref(did) {
                    let tr = tr.instantiate_identity().skip_norm_wip();
                    items.push(("trait", js(&cx.path(tr.def_id))));
                    items.push(("trait_ref", js(&with_no_trimmed_paths!(tr.to_string()))));
                }
                items.push(("derived", tcx.is_automatically_derived(did).to_string()));
                let mut assoc = Vec::new();
                for it in tcx.associated_items(did).in_definition_order() {
                    let mut e: Vec<(&str, String)> = vec![
                        ("name", js(it.name().as_str())),
                        ("key", js(&cx.path(it.def_id))),
                        ("kind", js(&format!("{:?}", it.kind).split(|c: char| !c.is_alphanumeric()).next().unwrap_or("").to_string())),
                    ];
                    if matches!(it.kind, ty::AssocKind::Type { .. }) {
                        let t = tcx.type_of(it.def_id).instantiate_identity().skip_norm_wip();
                        e.push(("ty", js(&cx.ty(t))));
                    }
                    assoc.push(jobj(&e));
                }
                items.push(("items", jarr(&assoc)));
                let (file, lo, _) = cx.loc(tcx.def_span(did));
                items.push(("span", js(&format!("{}:{}", file, lo))));
                impls.push(jobj(&items));
            }
            DefKind::Trait => {
                let supers: Vec<String> = tcx
                    .explicit_super_predicates_of(did)
                    .iter_identity_copied()
                    .map(|c| c.skip_norm_wip())
                    .filter_map(|(c, _)| c.as_trait_clause().map(|t| js(&cx.path(t.def_id()))))
                    .collect();
                let assoc: Vec<String> = tcx
                    .associated_items(did)
                    .in_definition_order()
                    .map(|it| js(it.name().as_str()))
                    .collect();
                traits.push(jobj(&[
                    ("path", js(&cx.path(did))),
                    ("supers", jarr(&supers)),
                    ("items", jarr(&assoc)),
                ]));
            }
            DefKind::Fn | DefKind::AssocFn => {
                let sig = tcx.fn_sig(did).instantiate_identity().skip_norm_wip();
                fn_sigs.push(jobj(&[
                    ("key", js(&cx.path(did))),
                    ("sig", js(&with_no_trimmed_paths!(sig.to_string()))),
                ]));
            }
            _ => {}
        }
    }
    out.push_str("\"adts\":");
    out.push_str(&jarr(&adts));
    out.push_str(",\"impls\":");
    out.push_str(&jarr(&impls));
    out.push_str(",\"traits\":");
    out.push_str(&jarr(&traits));
    out.push_str(",\"sigs\":");
    out.push_str(&jarr(&fn_sigs));
    out.push('}');
    let tmp = format!("{}.tmp.{}", out_path, std::process::id());
    std::fs::write(&tmp, out).expect("write facts");
    std::fs::rename(&tmp, out_path).expect("rename facts");
}

struct Cb {
    out: Option<String>,
    krate: String,
}

impl Callbacks for Cb {
    fn after_expansion<'tcx>(&mut self, _c: &Compiler, tcx: TyCtxt<'tcx>) -> Compilation {
        if let Some(out) = &self.out {
            if tcx.crate_name(LOCAL_CRATE).as_str() == self.krate {
                // refuse to dump a tree that does not type-check
                if tcx.dcx().has_errors().is_some() {
                    return Compilation::Continue;
                }
                dump(tcx, out);
            }
        }
        Compilation::Continue
    }
}

fn main() {
    let mut args: Vec<String> = std::env::args().collect();
    // RUSTC_WORKSPACE_WRAPPER: argv[1] is the real rustc path.
    if args.len() > 1 {
        args.remove(1);
    }
    let mut cb = Cb {
        out: std::env::var("HDLINT_OUT").ok(),
        krate: std::env::var("HDLINT_CRATE").unwrap_or_else(|_| "hyperdriver".to_string()),
    };
    rustc_driver::run_compiler(&args, &mut cb);
}
