"""An abstract `HashMap` for decision tables: a small association list in the per-path abstract state (handle `("map", id)`,
contents under the negative key `-id` as `("list", ((key, value), ...))`), with the std operations a function can use on it
given their meaning: `get` / `get_mut` / `contains_key` / `insert` / `remove` / `entry` (+ `OccupiedEntry::{get, get_mut,
into_mut, insert, remove}`, `VacantEntry::{insert, insert_entry}`), `len`, `is_empty`.  Keys are compared as abstract values."""
from seqmodel import NONE, some, tup, _arg, _deref, _set_dest


def _map_of(st, v):
    v = _deref(st, v)
    if v is not None and v[0] == "map":
        l = st.get(-v[1])
        if l is not None and l[0] == "list":
            return v[1], list(l[1])
    return None, None


def _find(items, k):
    for i, (kk, vv) in enumerate(items):
        if kk == k:
            return i
    return None


def _put(st, mid, items):
    st[-mid] = ("list", tuple(items))


def o_get(ev, st, t, site):
    mid, items = _map_of(st, _arg(ev, st, t, 0))
    k = _deref(st, _arg(ev, st, t, 1))
    if mid is None or k is None:
        return False
    i = _find(items, k)
    return _set_dest(st, t, NONE if i is None else some(("refval", items[i][1])))


def o_contains(ev, st, t, site):
    mid, items = _map_of(st, _arg(ev, st, t, 0))
    k = _deref(st, _arg(ev, st, t, 1))
    if mid is None or k is None:
        return False
    return _set_dest(st, t, ("const", "true" if _find(items, k) is not None else "false"))


def o_insert(ev, st, t, site):
    mid, items = _map_of(st, _arg(ev, st, t, 0))
    k, v = _deref(st, _arg(ev, st, t, 1)), _deref(st, _arg(ev, st, t, 2))
    if mid is None or k is None or v is None:
        return False
    i = _find(items, k)
    old = NONE
    if i is None:
        items.append((k, v))
    else:
        old = some(items[i][1])
        items[i] = (k, v)
    _put(st, mid, items)
    return _set_dest(st, t, old)


def o_remove(ev, st, t, site):
    mid, items = _map_of(st, _arg(ev, st, t, 0))
    k = _deref(st, _arg(ev, st, t, 1))
    if mid is None or k is None:
        return False
    i = _find(items, k)
    if i is None:
        return _set_dest(st, t, NONE)
    v = items.pop(i)[1]
    _put(st, mid, items)
    return _set_dest(st, t, some(v))


def o_entry(ev, st, t, site):
    mid, items = _map_of(st, _arg(ev, st, t, 0))
    k = _deref(st, _arg(ev, st, t, 1))
    if mid is None or k is None:
        return False
    name = "Occupied" if _find(items, k) is not None else "Vacant"
    return _set_dest(st, t, ("variant", name, ((0, ("variant", name + "Entry", ((0, ("map", mid)), (1, k)))),)))


def _entry(st, v):
    v = _deref(st, v)
    if v is None or v[0] != "variant" or v[1] not in ("OccupiedEntry", "VacantEntry"):
        return None, None, None
    f = dict(v[2])
    mid, items = _map_of(st, f.get(0))
    return mid, items, f.get(1)


def o_occ_get(ev, st, t, site):
    mid, items, k = _entry(st, _arg(ev, st, t, 0))
    if mid is None:
        return False
    i = _find(items, k)
    if i is None:
        return False
    return _set_dest(st, t, ("refval", items[i][1]))


def o_entry_insert(ev, st, t, site):
    mid, items, k = _entry(st, _arg(ev, st, t, 0))
    v = _deref(st, _arg(ev, st, t, 1))
    if mid is None or v is None:
        return False
    i = _find(items, k)
    old = None
    if i is None:
        items.append((k, v))
    else:
        old = items[i][1]
        items[i] = (k, v)
    _put(st, mid, items)
    e = _deref(st, _arg(ev, st, t, 0))
    if e[1] == "OccupiedEntry":
        return _set_dest(st, t, old)           # OccupiedEntry::insert returns the old value
    return _set_dest(st, t, ("refval", v))     # VacantEntry::insert returns &mut V


def o_occ_remove(ev, st, t, site):
    mid, items, k = _entry(st, _arg(ev, st, t, 0))
    if mid is None:
        return False
    i = _find(items, k)
    if i is None:
        return False
    v = items.pop(i)[1]
    _put(st, mid, items)
    return _set_dest(st, t, v)


def o_len(ev, st, t, site):
    mid, items = _map_of(st, _arg(ev, st, t, 0))
    if mid is None:
        return False
    return _set_dest(st, t, ("const", str(len(items))))


def o_is_empty(ev, st, t, site):
    mid, items = _map_of(st, _arg(ev, st, t, 0))
    if mid is None:
        return False
    return _set_dest(st, t, ("const", "true" if not items else "false"))


RAW = [
    (r"HashMap.*::(get|get_mut)$", o_get),
    (r"HashMap.*::contains_key$", o_contains),
    (r"HashMap.*::insert$", o_insert),
    (r"HashMap.*::remove$", o_remove),
    (r"HashMap.*::entry$", o_entry),
    (r"OccupiedEntry.*::(get|get_mut|into_mut)$", o_occ_get),
    (r"(OccupiedEntry|VacantEntry).*::(insert|insert_entry)$", o_entry_insert),
    (r"OccupiedEntry.*::(remove|remove_entry)$", o_occ_remove),
    (r"HashMap.*::len$", o_len),
    (r"HashMap.*::is_empty$", o_is_empty),
]


# ---- HashSet as a list of keys under ("set", id)

def _set_of(st, v):
    v = _deref(st, v)
    if v is not None and v[0] == "set":
        l = st.get(-v[1])
        if l is not None and l[0] == "list":
            return v[1], list(l[1])
    return None, None


def o_set_insert(ev, st, t, site):
    sid, items = _set_of(st, _arg(ev, st, t, 0))
    k = _deref(st, _arg(ev, st, t, 1))
    if sid is None or k is None:
        return False
    new = k not in items
    if new:
        items.append(k)
        st[-sid] = ("list", tuple(items))
    return _set_dest(st, t, ("const", "true" if new else "false"))


def o_set_remove(ev, st, t, site):
    sid, items = _set_of(st, _arg(ev, st, t, 0))
    k = _deref(st, _arg(ev, st, t, 1))
    if sid is None or k is None:
        return False
    had = k in items
    if had:
        items.remove(k)
        st[-sid] = ("list", tuple(items))
    return _set_dest(st, t, ("const", "true" if had else "false"))


def o_set_contains(ev, st, t, site):
    sid, items = _set_of(st, _arg(ev, st, t, 0))
    k = _deref(st, _arg(ev, st, t, 1))
    if sid is None or k is None:
        return False
    return _set_dest(st, t, ("const", "true" if k in items else "false"))


def o_or_default(ev, st, t, site):
    """`entry.or_default()`: an occupied entry answers its value; for a vacant one the value type's `Default` impl (a
    crate-local one, evaluated abstractly) provides the value that is stored."""
    e = _deref(st, _arg(ev, st, t, 0))
    if e is None or e[0] != "variant" or e[1] not in ("Occupied", "Vacant"):
        return False
    inner = dict(e[2]).get(0)
    mid, items, k = _entry(st, inner)
    if mid is None:
        return False
    i = _find(items, k)
    if i is not None:
        return _set_dest(st, t, ("refval", items[i][1]))   # containers inside the value are heap handles: mutations through it are seen
    vty = (t.get("targs") or [None, None, None])[-1] or ""
    facts = ev.fn.facts
    from core import norm, AbsPaths
    cands = [g for g in facts.fns.values() if g.d.get("name") == "default" and (g.d.get("impl_trait") or "").endswith("Default") and norm(g.d.get("impl_self", "")) == norm(vty)]
    if len(cands) != 1:
        return False
    outs = AbsPaths(facts.unit(cands[0], expand=True), limit=2000, oracles=ev.oracle_specs, raw_oracles=ev.raw_specs).outcomes(state={k_: v_ for k_, v_ in st.items() if isinstance(k_, int) and k_ < 0}, extra_keys=(lambda s_: tuple(sorted((k_, v_) for k_, v_ in s_.items() if isinstance(k_, int) and k_ < 0)),))
    if len(outs) != 1:
        return False
    (v, _, (heap,)) = next(iter(outs))
    if v is None:
        return False
    for k_, v_ in heap:
        st[k_] = v_
    items.append((k, v))
    _put(st, mid, items)
    return _set_dest(st, t, ("refval", v))


RAW += [
    (r"HashSet.*::insert$", o_set_insert),
    (r"HashSet.*::remove$", o_set_remove),
    (r"HashSet.*::contains$", o_set_contains),
    (r"Entry.*::or_default$", o_or_default),
]
