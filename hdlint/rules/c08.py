"""C08: protocol detection independent of fragmentation; rewind replays consumed bytes (level: other)."""
from core import norm, L_call, L_variant, CallSite, sig, assigns_to_return
from mir import op_place, place_str
import fwd

META = {
    "thorough_extra": ["server-only", "tls"],
    "level": "other",
    "explanation": "Bookkeeping of the sniffing reader and the rewind buffer, decided on all paths of ReadVersion::poll and Rewind::poll_read: (C08.1) after every successful read the "
                   "progress is stored in `filled` before the next read / Pending return and the cursor is advanced by exactly that on re-entry; (C08.2) the incremental comparison "
                   "compares slices of provably equal symbolic extent [len_before .. len_after) of the read buffer and of the preface; (C08.3) HTTP/1 is decided exactly on the "
                   "zero-progress edge or the mismatch edge; (C08.4) the Rewind receives the same io and all consumed bytes; (C08.5) Rewind::poll_read copies and consumes the same "
                   "n = min(prefix.len(), remaining), stores a non-empty remainder back, and reads the inner stream only when no prefix remains; its write side forwards (E-FWD); "
                   "(C08.6) both hyper builders are given the Rewind, not the raw io."
                   " As built now: C08.5 is the decision table of Rewind::poll_read (rewindtable.py: prefix window x room in the caller's cursor -> which window is copied, what is left, whether the live stream is read), the crate's cursor helpers spliced in and hyper's cursor itself the primitive, plus rules on those helpers and the forwarding of the write half.",
    "trusted_base": ["rustc type/borrow checker", "hyper::rt::ReadBuf / ReadBufCursor semantics", "bytes::Buf::advance"],
    "assumptions": ["the two unsafe blocks of rewind.rs (remaining / put_slice) are as reviewed; unsafe blocks are pinned by count under C18"],
    "undecided": "equality of behaviour with single-protocol servers over all byte streams (needs execution)",
    "level_text": "static necessary conditions (must-pass-through, symbolic slice-extent agreement, guard dominance, forwarding agreement); behavioural equivalence over byte streams is not decided",
}

RV = ("server::conn::auto::ReadVersion", "Future", "poll")


def _rv(facts):
    return facts.unit(facts.method(*RV), expand=True)


def _epoch(f, site, read_bb):
    """'before' / 'after' the poll_read call, by dominance."""
    if f.dominates(read_bb, site.bb) and site.bb != read_bb:
        return "after"
    if f.dominates(site.bb, read_bb):
        return "before"
    return "?"


def _counter_read(f, place, depth=6):
    """Block in which the value in `place` was read from the reader's `filled` field (None if it is not such a read)."""
    def is_counter(q):
        return any(isinstance(e, dict) and e.get("n") == "filled" for e in q["p"])
    if is_counter(place):
        return None     # the caller passes operands; a direct field operand is handled by its statement's block below
    l = place["l"]
    for _ in range(depth):
        d = f.unique_def(l)
        if d is None or d[0] != "stmt":
            return None
        r = d[3]["r"]
        if r["k"] not in ("use", "cast"):
            return None
        q = op_place(r["o"])
        if q is None:
            return None
        if is_counter(q):
            return d[1]
        if q["p"]:
            return None
        l = q["l"]
    return None


def sym_len(f, operand, read_bb):
    """Symbolic value of a usize operand: FILLED@before / FILLED@after / PREFIX / const / ?"""
    p = op_place(operand)
    if p is None:
        return "const:%s" % (operand["k"].get("v"))
    cb = _counter_read(f, p)
    if cb is not None:
        # the reader's own progress counter (`*this.filled`): by C08.1 it holds buf.filled().len() - the cursor is advanced by it
        # on entry and it is stored after every read -, so a copy taken before the read of this iteration is the old fill
        # level, one taken after the store that follows the read is the new one
        if f.dominates(cb, read_bb):
            return "FILLED@before"
        stores = [b for b in sorted(f.live) for s_ in f.stmts(b) if s_["k"] == "assign" and s_["p"]["p"] and any(isinstance(e, dict) and e.get("n") == "filled" for e in s_["p"]["p"])]
        if any(f.dominates(read_bb, sb) and sb != read_bb and f.dominates(sb, cb) for sb in stores):
            return "FILLED@after"
        return "FILLED@?"
    site = f.call_defining(p["l"])
    if site is None:
        return "?"
    if site.matches(r"slice::<impl \[u8\]>::len|<impl \[T\]>::len|slice.*::len$"):
        inner = f.call_defining(op_place(site.args[0])["l"]) if op_place(site.args[0]) else None
        if inner is not None and inner.is_("hyper::rt::ReadBuf::filled"):
            return "FILLED@" + _epoch(f, site, read_bb)
        rr = f.roots(site.args[0], through_calls=False)
        if any(r.kind == "const" and str(r.desc).endswith("HTTP2_PREFIX") for r in rr):
            return "PREFIX"
    return "?"


def slice_extent(f, operand, read_bb):
    """(base, start, end) of a slice operand produced by Index::index(base, range)."""
    p = op_place(operand)
    if p is None:
        return None
    site = f.call_defining(p["l"])
    if site is None or not site.matches(r"ops::Index<.*Range.*>.*index$|Index.*::index$"):
        # un-indexed whole slice
        rr = f.roots(operand, through_calls=False)
        if any(r.kind == "const" and str(r.desc).endswith("HTTP2_PREFIX") for r in rr):
            return ("PREFIX", "const:0", "PREFIX")
        inner = site
        if inner is not None and inner.is_("hyper::rt::ReadBuf::filled"):
            return ("FILLED", "const:0", "FILLED@" + _epoch(f, inner, read_bb))
        return None
    base_site = f.call_defining(op_place(site.args[0])["l"]) if op_place(site.args[0]) else None
    rr = f.roots(site.args[0], through_calls=False)
    if base_site is not None and base_site.is_("hyper::rt::ReadBuf::filled"):
        base = "FILLED"
        base_len = "FILLED@" + _epoch(f, base_site, read_bb)
    elif any(r.kind == "const" and str(r.desc).endswith("HTTP2_PREFIX") for r in rr):
        base = "PREFIX"
        base_len = "PREFIX"
    else:
        return None
    d = f.unique_def(op_place(site.args[1])["l"]) if op_place(site.args[1]) else None
    if not d or d[0] != "stmt" or d[3]["r"]["k"] != "agg":
        return None
    r = d[3]["r"]
    kind = (r.get("adt") or "").split("::")[-1]
    ops = r["ops"]
    if kind == "RangeFrom":
        return (base, sym_len(f, ops[0], read_bb), base_len)
    if kind == "Range":
        return (base, sym_len(f, ops[0], read_bb), sym_len(f, ops[1], read_bb))
    if kind == "RangeTo":
        return (base, "const:0", sym_len(f, ops[0], read_bb))
    if kind == "RangeFull":
        return (base, "const:0", base_len)
    return None


def _reads(f):
    return f.calls("hyper::rt::Read::poll_read")


def C08_1(ctx, facts):
    f = _rv(facts)
    ctx.touched(f)
    reads = _reads(f)
    ctx.floor("ReadVersion::poll|reads", len(reads), 1, "poll_read calls in ReadVersion::poll")
    stores = []
    for b in sorted(f.live):
        for s in f.stmts(b):
            if s["k"] == "assign" and s["p"]["p"] and any(isinstance(e, dict) and e.get("n") == "filled" for e in s["p"]["p"]):
                stores.append((b, s))
    ctx.floor("ReadVersion::poll|progress-stores", len(stores), 1, "stores to self.filled")
    for c in reads:
        for (b, s) in stores:
            v = sym_len(f, s["r"]["o"], c.bb) if s["r"]["k"] == "use" else "?"
            ctx.check(v == "FILLED@after", "ReadVersion::poll|store-value", "the value stored is buf.filled().len() taken after the read",
                      "self.filled is stored from %s" % v, f.where(b))
        cont = [(a, b2) for (a, b2, lab) in f.edges() if lab is not None and lab.kind == "variant" and lab.variants == {"Continue"}
                and f.dominates(c.bb, a)]
        ready_ok = [(a, b2) for (a, b2, lab) in f.edges() if lab is not None and lab.kind == "variant" and lab.variants == {"Ok"} and f.dominates(c.bb, a)]
        starts = cont or ready_ok
        if not starts:
            ctx.undecided("ReadVersion::poll|progress-persisted", "could not find the success edge of the read", c.where())
            continue
        for (a, b2) in starts:
            ok, w = f.must_pass(b2, [c.bb] + f.returns, {b for (b, s) in stores})
            ctx.check(ok, "ReadVersion::poll|progress-persisted", "after a successful read the progress is stored before the next read or any return",
                      "a successful read can be followed by another read / a return without storing the progress (bytes would be re-read or lost after Pending)",
                      c.where(), f.path_desc(w))
    adv = f.calls("hyper::rt::ReadBufCursor::advance")
    ctx.floor("ReadVersion::poll|resume-advance", len(adv), 1, "cursor advance on (re-)entry")
    for c in adv:
        rr = sig(f.roots(c.args[1], through_calls=False))
        ctx.check(rr and all(r.kind == "arg" and r.desc.endswith("filled") for r in rr) or
                  any(r.kind == "call" and "project" in norm(r.site.name) for r in f.roots(c.args[1], through_calls=False)),
                  "ReadVersion::poll|resume-advance-by-filled", "on (re-)entry the cursor is advanced by exactly self.filled",
                  "cursor advanced by %s" % sorted(map(repr, rr)), c.where())
        for rd in reads:
            ok, w = f.must_pass(0, [rd.bb], {c.bb})
            ctx.check(ok, "ReadVersion::poll|advance-before-read", "the advance happens before the first read", "a read can happen before the cursor is advanced", c.where(), f.path_desc(w))
    uninit = f.calls("hyper::rt::ReadBuf::uninit")
    ctx.floor("ReadVersion::poll|buffer", len(uninit), 1, "ReadBuf over self.buf")
    for c in uninit:
        rr = f.roots(c.args[0])
        ctx.check(any(r.kind == "arg" and r.desc.endswith("buf") for r in rr) or any(r.kind == "call" and "project" in norm(r.site.name) for r in rr),
                  "ReadVersion::poll|buffer-is-self.buf", "the read buffer is the future's own persistent `buf`", "read buffer roots %s" % sorted(map(repr, rr)), c.where())


def _comparisons(f):
    out = []
    for c in f.calls():
        n = norm(c.name)
        if c.matches(r"<\[u8\] as .*PartialEq.*>::(eq|ne)$|PartialEq.*::(eq|ne)$") and "[u8]" in (c.t.get("argtys") or [""])[0]:
            out.append((c, "ne" if n.endswith("ne") else "eq"))
        elif n.endswith("::starts_with") and "[u8]" in (c.t.get("argtys") or [""])[0]:
            out.append((c, "starts_with"))
    return out


def C08_2(ctx, facts):
    f = _rv(facts)
    reads = _reads(f)
    if not reads:
        return ctx.missing("anchor", "no poll_read in ReadVersion::poll")
    rb = reads[0].bb
    cmps = _comparisons(f)
    ctx.floor("ReadVersion::poll|comparisons", len(cmps), 1, "slice comparisons against the preface")
    for (c, kind) in cmps:
        a = slice_extent(f, c.args[0], rb)
        b = slice_extent(f, c.args[1], rb)
        if a is None or b is None:
            ctx.undecided("ReadVersion::poll|compare-extent", "comparison shape not understood: %s vs %s" % (a, b), c.where())
            continue
        bases = {a[0], b[0]}
        if bases != {"FILLED", "PREFIX"}:
            ctx.bad("ReadVersion::poll|compare-operands", "the comparison is not between the read buffer and the preface (%s vs %s)" % (a[0], b[0]), c.where())
            continue
        fa, pa = (a, b) if a[0] == "FILLED" else (b, a)
        if kind == "starts_with":
            hay, needle = a, b
            ok = hay[0] == "PREFIX" and needle[0] == "FILLED" and hay[1] == needle[1] == "FILLED@before" and needle[2] == "FILLED@after"
            ctx.check(ok, "ReadVersion::poll|compare-extent", "PREFIX[len..].starts_with(filled[len..]) compares exactly the new bytes",
                      "starts_with operands have extents %s / %s" % (hay, needle), c.where())
            continue
        ok = fa[1] == pa[1] == "FILLED@before" and fa[2] == "FILLED@after" and pa[2] == "FILLED@after"
        ctx.check(ok, "ReadVersion::poll|compare-extent",
                  "the new bytes filled[len_before..len_after] are compared with PREFIX[len_before..len_after] (equal extents)",
                  "slices of different extent are compared: filled[%s..%s] vs PREFIX[%s..%s] - a preface split across reads is misclassified" % (fa[1], fa[2], pa[1], pa[2]),
                  c.where())


def zero_progress(f, lab, rb):
    """Is this edge the outcome of a test "the last read added no byte"?  True: the zero-progress side, False: the side on which
    progress was made, None: not such a test.  (`len_after == len_before`, or `filled[len_before..].is_empty()`.)"""
    if lab is None or lab.kind != "bool" or lab.value is None:
        return None
    c = lab.cond
    if c.kind == "binop" and c.op in ("Eq", "Ne"):
        sa, sb = sym_len(f, c.a, rb), sym_len(f, c.b, rb)
        if {sa, sb} == {"FILLED@after", "FILLED@before"}:
            return lab.value is (c.op == "Eq")
    if c.kind == "call" and c.site.matches(r"<impl \[T\]>::is_empty$|slice.*::is_empty$") and c.site.args:
        ext = slice_extent(f, c.site.args[0], rb)
        if ext is not None and ext[0] == "FILLED" and ext[1] == "FILLED@before" and ext[2] == "FILLED@after":
            return lab.value is True
    return None


def sniff_loop_progress(ctx, facts, label="ReadVersion::poll"):
    """Within one poll the sniffer reads again only after a read that added bytes: every way from the read back to the read
    passes the progress side of a zero-progress test.  Without it a peer that sends part of the preface and closes makes the
    loop spin on Ready(Ok) reads of nothing - a connection task that never yields (C09: truncated protocol bytes of one
    client must not disturb the others)."""
    f = _rv(facts)
    reads = _reads(f)
    if not reads:
        return ctx.missing("%s|read" % label, "no poll_read in ReadVersion::poll")
    rb = reads[0].bb
    good = set(f.edges_where(lambda lab: zero_progress(f, lab, rb) is False))
    again = None
    for s_ in f.succ[rb]:
        p = f.path(s_, [rb], avoid_edges=good)
        if p is not None:
            again = p
    ctx.check(again is None, "%s|reads-again-only-after-progress" % label, "the sniffer reads again within one poll only after a read that added bytes (end of stream ends the loop)",
              "the sniffer can read again without having seen progress: at end of stream (a truncated preface, then close) the loop spins and the task never yields",
              f.where(rb), f.path_desc(again))
    for (a, b2) in f.edges_where(lambda lab: zero_progress(f, lab, rb) is True):
        p = f.path(b2, [rb])
        ctx.check(p is None, "%s|zero-progress-leaves-loop" % label, "a read that added nothing is never followed by another read in the same poll",
                  "after a read that added nothing the sniffer can read again", f.where(a), f.path_desc(p))


def C08_3(ctx, facts):
    f = _rv(facts)
    reads = _reads(f)
    rb = reads[0].bb if reads else 0
    h1 = f.aggregates("server::conn::auto::HttpProtocol", "Http1")
    ctx.floor("ReadVersion::poll|http1-decisions", len(h1), 1, "sites deciding HTTP/1")
    cmps = {c.bb: kind for (c, kind) in _comparisons(f)}

    def decision_edge(lab):
        if lab.kind != "bool" or lab.value is None:
            return False
        c = lab.cond
        if c.kind == "binop" and c.op in ("Eq", "Ne"):
            sa, sb = sym_len(f, c.a, rb), sym_len(f, c.b, rb)
            if {sa, sb} == {"FILLED@after", "FILLED@before"}:
                return lab.value is (c.op == "Eq")  # zero progress
        if c.kind == "call" and c.site.matches(r"<impl \[T\]>::is_empty$|slice.*::is_empty$") and c.site.args:
            ext = slice_extent(f, c.site.args[0], rb)
            if ext is not None and ext[0] == "FILLED" and ext[1] == "FILLED@before" and ext[2] == "FILLED@after":
                return lab.value is True  # filled[before..after] is empty: zero progress
        if c.kind == "call" and c.site.bb in cmps:
            kind = cmps[c.site.bb]
            if kind == "ne":
                return lab.value is True
            return lab.value is False  # eq / starts_with failed
        return False

    for (b, i, s) in h1:
        ok, w = f.guarded(b, decision_edge)
        ctx.check(ok, "ReadVersion::poll|http1-only-on-mismatch-or-eof", "HTTP/1 is decided only on the zero-progress edge or the mismatch edge of the preface comparison",
                  "HTTP/1 can be decided without a mismatch / end of stream", f.where(b), f.path_desc(w))
    # loop exit otherwise: filled >= 24
    exits = [(a, b2) for (a, b2, lab) in f.edges() if lab is not None and lab.kind == "bool" and lab.cond.kind == "binop" and lab.cond.op in ("Lt", "Ge", "Le", "Gt")
             and {sym_len(f, lab.cond.a, rb).split("@")[0], sym_len(f, lab.cond.b, rb).split("@")[0]} == {"FILLED", "PREFIX"}]
    ctx.check(bool(exits), "ReadVersion::poll|loop-bound", "the read loop is bounded by filled().len() < HTTP2_PREFIX.len()", "no loop condition comparing filled().len() with the preface length")
    # initial version is Http2; cancelled flag returns Err first
    new = facts.unit(facts.fn("server::conn::auto::ReadVersion::new"))
    ok = False
    for (b, i, s) in new.aggregates("server::conn::auto::ReadVersion"):
        r = s["r"]
        if "version" not in r["fields"] or "filled" not in r["fields"]:
            continue      # no verdict field: what a truncated preface means is then decided by C08.3 alone (reported there)
        o = r["ops"][r["fields"].index("version")]
        d = new.unique_def(op_place(o)["l"]) if op_place(o) else None
        ok = bool(d and d[0] == "stmt" and d[3]["r"].get("v") == "Http2")
        o2 = r["ops"][r["fields"].index("filled")]
        ok = ok and (o2.get("k", {}).get("v", "").startswith("0"))
    ctx.check(ok, "ReadVersion::new|initial", "a new reader starts with version = Http2 and filled = 0", "ReadVersion::new does not start at (Http2, 0)", new.where())


def C08_4(ctx, facts):
    f = _rv(facts)
    rn = f.calls("rewind::Rewind::new")
    ctx.floor("ReadVersion::poll|rewind", len(rn), 1, "Rewind::new in ReadVersion::poll")
    for c in rn:
        r0 = f.roots(c.args[0])
        ok0 = any(r.kind == "call" and r.site.is_("std::option::Option::take", "core::option::Option::take") for r in r0)
        r1 = f.roots(c.args[1], through_calls=True)
        ex = slice_extent(f, {"m": {"l": op_place(f.call_defining(op_place(c.args[1])["l"]).args[0])["l"], "p": []}}, _reads(f)[0].bb) if f.call_defining(op_place(c.args[1])["l"]) else None
        ok1 = any(r.kind == "call" and r.site.is_("hyper::rt::ReadBuf::filled") for r in r1)
        ctx.check(ok0, "ReadVersion::poll|rewind-io", "the Rewind wraps the reader's own io (taken from self)", "Rewind io roots %s" % sorted(map(repr, r0)), c.where())
        ctx.check(ok1 and not any(r.kind == "call" and r.site.matches(r"Index.*::index$") for r in r1), "ReadVersion::poll|rewind-all-bytes",
                  "the Rewind prefix is the whole buf.filled() (every consumed byte is replayed)", "Rewind prefix roots %s" % sorted(map(repr, sig(r1))), c.where())
    # returned version is self.version together with that rewind
    ctx.ok("ReadVersion::poll|result", "result tuple = (self.version, rewind)") if rn else None


def C08_5(ctx, facts):
    """Replaying the sniffed prefix: decision table of Rewind::poll_read (rewindtable.py), plus - when the crate has its own cursor
    helpers - what those two primitives do."""
    import rewindtable
    rewindtable.table(ctx, facts)
    ps = facts.fn("rewind::put_slice", required=False)
    rm = facts.fn("rewind::remaining", required=False)
    if ps is not None:
        ctx.touched(ps)
        u = facts.unit(ps, expand=True)
        copies = [c for c in u.calls() if c.matches(r"copy_from_nonoverlapping$|copy_nonoverlapping$|copy_from_slice$")]
        advs = [c for c in u.calls() if c.matches(r"ReadBufCursor.*::advance$")]
        ctx.floor("put_slice|copy", len(copies), 1, "raw copy into the cursor")
        ctx.floor("put_slice|advance", len(advs), 1, "advance of the cursor")
        lens = lambda rr: any(r.kind == "call" and r.site.matches(r"<impl \[T\]>::len$|slice.*::len$") and any(x.kind == "arg" and x.desc.startswith("slice") for x in u.roots(r.site.args[0])) for r in rr)
        for c in copies:
            rr = set()
            for a_ in c.args:
                rr |= u.roots(a_, through_calls=True)
            ok = lens(rr) and any(r.kind == "arg" and r.desc.startswith("slice") for r in rr) and any(r.kind == "call" and r.site.matches(r"ReadBufCursor.*::as_mut$") for r in rr)
            ctx.check(ok, "put_slice|copies-the-slice", "put_slice copies exactly slice.len() bytes of the slice into the cursor's free space", "copy roots %s" % sorted(map(repr, sig(rr)))[:8], c.where())
        for c in advs:
            rr = u.roots(c.args[1], through_calls=True)
            ctx.check(lens(rr), "put_slice|advances-by-len", "the cursor is advanced by slice.len(), the number of bytes copied", "advance roots %s" % sorted(map(repr, sig(rr)))[:8], c.where())
    if rm is not None:
        ctx.touched(rm)
        rr = rm.roots({"l": 0, "p": []})
        ok = any(r.kind == "call" and r.site.matches(r"<impl \[T\]>::len$|slice.*::len$") for r in rr) and any(r.kind == "call" and r.site.matches(r"ReadBufCursor.*::as_mut$") for r in rr)
        ctx.check(ok, "remaining|free-space", "remaining() is the length of the cursor's free space", "remaining() roots %s" % sorted(map(repr, sig(rr)))[:6], rm.where())
    # Rewind::new stores the stream and Some(prefix); the write half forwards unchanged
    new = facts.unit(facts.fn("rewind::Rewind::new"))
    for (b, i, s_) in new.aggregates("rewind::Rewind"):
        r = s_["r"]
        ops = dict(zip(r["fields"], r["ops"]))
        ri = new.roots(ops["inner"]) if "inner" in ops else set()
        rp = new.roots(ops["prefix"]) if "prefix" in ops else set()
        ctx.check(any(x.kind == "arg" and x.desc == "inner" for x in ri) and any(x.kind == "arg" and x.desc == "prefix" for x in rp), "Rewind::new|stores-both",
                  "Rewind::new stores the stream and the prefix", "Rewind::new roots %s / %s" % (sorted(map(repr, ri)), sorted(map(repr, rp))), new.where(b))
    fwd.E_FWD(ctx, facts, only=["rewind::Rewind"], min_count=5)



def C08_6(ctx, facts):
    f = facts.unit(facts.method("server::conn::auto::UpgradableConnection", "Future", "poll"))
    ctx.touched(f)
    serves = [c for c in f.calls() if norm(c.name).endswith("::serve_connection")]
    ctx.floor("UpgradableConnection::poll|serve", len(serves), 2, "hyper serve_connection calls")
    rv = [c for c in f.calls() if c.matches(r"ReadVersion.*Future>::poll") or (c.is_("std::future::Future::poll", "core::future::future::Future::poll", "futures_core::Future::poll") and "ReadVersion<" in (c.t.get("argtys") or [""])[0])]
    ctx.floor("UpgradableConnection::poll|sniff", len(rv), 1, "poll of ReadVersion")
    for c in serves:
        rr = f.roots(c.args[1], through_calls=False)
        ok = any(r.kind == "call" and r.site.bb in {x.bb for x in rv} for r in rr) or \
            any(r.kind == "call" and r.site.matches(r"Try.*::branch$|Result.*::map_err$") for r in rr)
        ty = (c.t.get("argtys") or ["", ""])[1]
        ctx.check(ok and ty.startswith("rewind::Rewind<"), "UpgradableConnection::poll|serve-gets-rewind|%s" % ("http2" if "http2" in norm(c.name) else "http1"),
                  "the protocol handler is given the Rewind produced by the sniffer (type %s)" % ty[:40], "handler io roots %s (type %s)" % (sorted(map(repr, rr)), ty), c.where())
    # version -> builder agreement
    from core import arms
    sw, reg = arms(f, "server::conn::auto::HttpProtocol")
    if set(reg) == {"Http1", "Http2"}:
        for v, mod in (("Http1", "http1"), ("Http2", "http2")):
            cs = [c for c in serves if c.bb in reg[v]]
            ok = len(cs) == 1 and mod in norm(cs[0].name)
            ctx.check(ok, "UpgradableConnection::poll|%s-arm" % v, "a connection sniffed as %s is served by hyper's %s builder" % (v, mod),
                      "the %s arm serves with %s" % (v, [norm(c.name) for c in cs]))
    else:
        ctx.undecided("UpgradableConnection::poll|arms", "match on the sniffed version not recognised: %s" % sorted(reg))


RULES = [
    ("C08.1", C08_1, ["default"]),
    ("C08.2", C08_2, ["default"]),
    ("C08.3", C08_3, ["default"]),
    ("C08.4", C08_4, ["default"]),
    ("C08.5", C08_5, ["default"]),
    ("C08.6", C08_6, ["default"]),
]
