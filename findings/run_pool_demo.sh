#!/bin/sh
# usage: run_pool_demo.sh <git rev of /repo>   -- documentation aid, not a registered check
set -e
REV=${1:-HEAD}
D=$(mktemp -d /var/tmp/hd-demo-XXXX)
git -C /repo worktree add --detach "$D" "$REV" >/dev/null 2>&1
python3 - "$D" <<'PY'
import sys
d=sys.argv[1]
p=d+'/src/client/pool/mod.rs'
s=open(p).read()
t=open('/verif/findings/pool_defects_tests.rs').read()
i=s.rstrip().rfind('}')
s=s[:i]+"\n    use std::task::Poll;\n"+t+"}\n"
open(p,'w').write(s)
PY
(cd "$D" && CARGO_TARGET_DIR=/var/tmp/hd-demo-target cargo test --offline --lib --features mocks verif_ 2>&1 | grep -E "^test |test result|error" ) || true
git -C /repo worktree remove --force "$D"
