#!/bin/bash
# usage: eval_patch.sh <patch.diff> [props, default all]
# Runs the quick checks against a scratch worktree of /repo HEAD + patch (never touches /repo's working tree;
# evidence/replays of such a run go to a scratch directory, see engine.out_dir).  Prints "quiet" or "FIRED ..." + reports.
# VERIF_ROOT selects the copy of the machinery to run (default /verif; refactor_matrix.sh uses a frozen snapshot).
P=$1; PROPS=${2:-all}; V=${VERIF_ROOT:-/verif}
n=$(basename $P .diff)
case "$P" in */round2/*) n="round2-$n";; */round3/*) n="round3-$n";; */round4/*) n="round4-$n";; esac
W=/var/tmp/evaltree-$n-$$
git -C /repo worktree add --detach $W HEAD >/dev/null 2>&1 || { echo "$n: cannot create worktree"; exit 3; }
trap 'git -C /repo worktree remove --force $W >/dev/null 2>&1' EXIT
git -C $W apply $P 2>/dev/null || { echo "$n: patch does not apply"; exit 3; }
cd $V
export HDLINT_CACHE=/verif/.cache
if [ "$PROPS" = "all" ]; then out=$(HDLINT_REPO=$W ./check all 2>&1); else out=""; for q in $PROPS; do out="$out
$(HDLINT_REPO=$W ./check $q 2>&1)"; done; fi
fired=$(echo "$out" | grep -E "new=[1-9]|BUILD|Traceback" | awk '{print $1}' | tr '\n' ' ')
if [ -z "$fired" ]; then echo "$n: quiet"; else
  echo "$n: FIRED $fired"
  echo "$out" | grep -E "^\s+\[(violation|anchor-missing|undecided)\]|Error" | cut -c1-420
fi
