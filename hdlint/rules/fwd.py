"""E-FWD: forwarding agreement of I/O wrappers (DESIGN.md 4.3).

A forwarding method must, on every path, call the *same trait item* on a value rooted in `self`, pass cx / buf / bufs
as received, and return that call's result untransformed."""
from core import norm, CallSite, assigns_to_return, sig, is_transparent
from mir import op_place

IO_TRAITS = ("AsyncRead", "AsyncWrite", "Read", "Write")

# (self type suffix, trait last segment, method) handled by their own rule instead of plain forwarding
COUNTING = {
    ("bridge::io::TokioIo", "Read", "poll_read"),
    ("bridge::io::TokioIo", "AsyncRead", "poll_read"),
    ("rewind::Rewind", "Read", "poll_read"),
}
# TLS streams go through handshake(cx, closure): checked by fwd_tls_stream
TLS_STREAMS = ("client::conn::stream::tls::TlsStream", "server::conn::tls::TlsStream")

# cross-trait bridge: TokioIo implements hyper's traits on top of tokio's and vice versa
BRIDGE = {"bridge::io::TokioIo"}


def io_methods(facts):
    out = []
    for f in facts.fns.values():
        d = f.d
        tr = (d.get("impl_trait") or "").split("::")[-1]
        if tr in IO_TRAITS and d.get("kind") == "AssocFn" and "impl_self" in d:
            full = d["impl_trait"]
            if not (full.startswith("tokio::io::") or full.startswith("hyper::rt::")):
                continue
            out.append(f)
    return out


def self_suffix(f):
    return norm(f.d["impl_self"])


def check_forward(ctx, f, label=None):
    d = f.d
    name = d["name"]
    label = label or "%s as %s::%s" % (self_suffix(f), d["impl_trait"].split("::")[-1], name)
    # candidate forward calls: same method name, on an I/O trait item
    fw = []
    for c in f.calls():
        last = norm(c.decl or c.name).split("::")[-1]
        if last != name:
            continue
        decl = norm(c.decl or "")
        if not any(decl.startswith(p) for p in ("tokio::io::", "hyper::rt::", "tokio::net::", "<")) and ".poll_" not in decl:
            pass
        fw.append(c)
    if not fw:
        return ctx.bad(label + "|forwards", "no call to an inner %s: the operation is not forwarded" % name, f.where())
    same_trait = d["impl_trait"].split("::")[-1]
    ok_all = True
    for c in fw:
        decl_tr = norm(c.decl or "").rsplit("::", 1)[0].split("::")[-1] if c.decl else ""
        # receiver rooted in self
        rr = f.roots(c.args[0]) if c.args else set()
        if not any(r.kind == "arg" and getattr(r, "index", None) == 1 for r in rr):
            ok_all = ctx.bad(label + "|receiver", "inner %s is not called on a part of self" % name, c.where()) and ok_all
        # trait agreement (bridges translate between the tokio and hyper flavours of the same item)
        st = self_suffix(f)
        if decl_tr and decl_tr != same_trait and not any(st.endswith(b) for b in BRIDGE):
            if not (decl_tr in IO_TRAITS or decl_tr in ("TcpStream", "UnixStream", "DuplexStream")):
                ok_all = ctx.bad(label + "|same-item", "forwards to %s instead of %s::%s" % (norm(c.decl), same_trait, name), c.where()) and ok_all
        # remaining arguments passed as received
        for i in range(1, len(c.args)):
            ar = sig(f.roots(c.args[i], through_calls=True))
            want = i + 1
            good = any(r.kind == "arg" and getattr(r, "index", None) == want for r in ar)
            foreign = [r for r in ar if r.kind == "arg" and getattr(r, "index", None) not in (want,)]
            if not good or foreign:
                ok_all = ctx.bad(label + "|arg%d" % i, "argument %d of the inner call is not the method's own argument %d (roots %s)" % (i, i, sorted(map(repr, ar))), c.where()) and ok_all
    # every path passes through a forward call
    ok, w = f.must_pass(0, f.returns, {c.bb for c in fw})
    if not ok:
        ok_all = ctx.bad(label + "|all-paths", "a path returns without forwarding %s" % name, f.where(), f.path_desc(w)) and ok_all
    # the result is returned untransformed
    for (k, b, x) in assigns_to_return(f, f.live):
        if k == "call":
            if b not in {c.bb for c in fw}:
                ok_all = ctx.bad(label + "|result", "return value produced by %s, not by the forwarded call" % norm(CallSite(f, b, x).name), f.where(b)) and ok_all
        else:
            r = x["r"]
            src = op_place(r["o"]) if r["k"] == "use" else None
            site = f.call_defining(src["l"]) if src is not None and not src["p"] else None
            if site is None or site.bb not in {c.bb for c in fw}:
                ok_all = ctx.bad(label + "|result", "return value is not the forwarded call's result", f.where(b)) and ok_all
    if ok_all:
        ctx.ok(label, "forwards %s to the inner stream on every path with unchanged arguments and result (%d call site(s))" % (name, len(fw)), f.where())
    return ok_all


def E_FWD(ctx, facts, only=None, min_count=None):
    n = 0
    for f in sorted(io_methods(facts), key=lambda x: x.nkey):
        st = self_suffix(f)
        tr = f.d["impl_trait"].split("::")[-1]
        nm = f.d["name"]
        if only is not None and not any(st.endswith(o) for o in only):
            continue
        if any(st.endswith(s) and tr == t and nm == m for (s, t, m) in COUNTING):
            continue
        if any(st.endswith(t) for t in TLS_STREAMS):
            continue
        ctx.touched(f)
        n += 1
        check_forward(ctx, f)
    if min_count is not None:
        ctx.floor("forwarding-methods", n, min_count, "plain forwarding I/O methods")
    return n


def lazy_handshake_fn(facts, self_ty):
    """The `handshake(cx, action)` helper of a lazy-handshake TLS stream, found by what it is - the one inherent method of the
    stream type that invokes a caller-supplied action (FnOnce::call_once) - not by its name."""
    out = []
    for g in facts.fns.values():
        d = g.d
        if d.get("impl_trait") or "impl_self" not in d:
            continue
        st = norm(d["impl_self"])
        if not (st == self_ty or st.endswith("::" + self_ty)):
            continue
        if any(norm(c.decl or c.name).endswith("FnOnce::call_once") for c in g.calls()):
            out.append(g)
    if len(out) != 1:
        raise KeyError("lazy-handshake helper of %s: %d candidates %s" % (self_ty, len(out), [g.nkey for g in out]))
    return out[0]


def tls_dispatch_table(ctx, facts, f, self_ty, key, nm):
    """poll_flush / poll_shutdown of a lazy-handshake TLS stream as a two-row decision table: while handshaking the answer is
    Ready(Ok(())) and nothing is touched; once streaming the call *is* the TLS stream's own method with the same context."""
    import seqmodel
    from core import AbsPaths, INT_CMP, VALUE_EQ, deref_value
    from seqmodel import _arg, _set_dest, tup
    u = facts.unit(f, expand=True)
    adts = [a for pth, a in facts.adts.items() if pth.endswith(self_ty)]
    if len(adts) != 1:
        return ctx.missing(key + "|self-type", "type %s not found" % self_ty)
    fl = adts[0]["variants"][0]["fields"]
    si = [i for i, x in enumerate(fl) if x["name"] == "state" or x["ty"].split("<")[0].endswith("State")]
    if len(si) != 1:
        return ctx.missing(key + "|state-field", "no state field in %s" % self_ty)
    LOG, LOC = -81, 9600

    def o_pin_same(ev, st, t, site):
        a = _arg(ev, st, t, 0)
        if a is None:
            return False
        inner = deref_value(st, a, hops=1) if a[0] in ("ref", "refmut", "pref", "refval") else None
        if inner is not None and inner[0] in ("refmut", "ref", "pref"):
            return _set_dest(st, t, inner)
        return _set_dest(st, t, a)

    def o_inner(ev, st, t, site):
        who = deref_value(st, _arg(ev, st, t, 0))
        cx = deref_value(st, _arg(ev, st, t, 1))
        if who != ("const", "TLS_STREAM"):
            return False
        l = st.get(LOG) or ("list", ())
        st[LOG] = ("list", l[1] + (("const", "inner:%s:%s" % (norm(site.decl or site.name).split("::")[-1], cx[1] if cx is not None and cx[0] == "const" else "?")),))
        return _set_dest(st, t, ("const", "INNER_RESULT"))
    raw = [(r"Pin.* as std::ops::Deref(Mut)?.*::deref(_mut)?$|Pin.*::(new|as_mut|get_mut|new_unchecked|as_ref|get_ref|into_ref)$|Box.* as std::ops::Deref(Mut)?.*::deref(_mut)?$|Box.*::as_mut$|AsMut.*::as_mut$", o_pin_same),
           (r"AsyncWrite.*::poll_(flush|shutdown)$", o_inner)] + seqmodel.OPTION_ORACLES
    rows = 0
    for state, payload, want in (("Handshake", ("const", "HANDSHAKE_FUTURE"), ((), "Ready(Ok(()))")), ("Streaming", ("const", "TLS_STREAM"), (("inner:%s:CX" % nm,), "INNER_RESULT"))):
        fields = tuple((i, ("variant", state, ((0, payload),)) if i == si[0] else ("const", "F_" + x["name"])) for i, x in enumerate(fl))
        st = {1: ("refmut", LOC), LOC: ("variant", self_ty.split("::")[-1], fields), 2: ("const", "CX"), LOG: ("list", ())}
        try:
            outs = AbsPaths(u, limit=4000, raw_oracles=raw, oracles=[INT_CMP, VALUE_EQ]).outcomes(state=st, extra_keys=(LOG,))
        except AbsPaths.Undecided as e:
            ctx.undecided("%s|state-dispatch|%s" % (key, state), str(e), f.where())
            continue
        rows += 1
        got = set()
        for (rv, _, (lg,)) in outs:
            r = "?"
            if rv == ("const", "INNER_RESULT"):
                r = "INNER_RESULT"
            elif rv is not None and rv[0] == "variant" and rv[1] == "Ready":
                x = dict(rv[2]).get(0)
                if x is not None and x[0] == "variant" and x[1] == "Ok":
                    r = "Ready(Ok(()))"
                elif x is not None and x[0] == "variant":
                    r = "Ready(%s)" % x[1]
            elif rv is not None and rv[0] == "variant":
                r = rv[1]
            got.add((tuple(e[1] for e in lg[1]) if lg is not None else None, r))
        ctx.check(got == {want}, "%s|state-dispatch|%s" % (key, state),
                  "%s in state %s: %s" % (nm, state, "answers Ready(Ok(())) and touches nothing" if state == "Handshake" else "is the TLS stream's own %s with the same context" % nm),
                  "%s in state %s can do %s, expected %s" % (nm, state, sorted(map(str, got)), want), f.where())
    return rows


def tls_handshake_table(ctx, facts, hs_fn, self_ty, label):
    """`handshake(cx, action)` of a lazy-handshake TLS stream as a decision table: the action runs exactly once, on the TLS
    stream, when the stream is established or the moment the handshake future resolves Ok (the stream then becomes the
    state); while the handshake is pending or failed the action does not run, the outcome is Pending / the error, and the
    state stays `Handshake` (no fallback)."""
    import seqmodel
    from core import AbsPaths, INT_CMP, VALUE_EQ, deref_value
    from seqmodel import _arg, _set_dest
    u = facts.unit(hs_fn, expand=True)
    adts = [a for pth, a in facts.adts.items() if pth.endswith(self_ty)]
    if len(adts) != 1:
        return ctx.missing(label + "::handshake|self-type", "type %s not found" % self_ty)
    fl = adts[0]["variants"][0]["fields"]
    si = [i for i, x in enumerate(fl) if x["name"] == "state" or x["ty"].split("<")[0].endswith("State")]
    if len(si) != 1:
        return ctx.missing(label + "::handshake|state-field", "no state field in %s" % self_ty)
    LOG, LOC = -81, 9600

    def name(v):
        return v[1] if v is not None and v[0] == "const" else "?"

    def log(st, e):
        l = st.get(LOG) or ("list", ())
        st[LOG] = ("list", l[1] + (("const", e),))

    def o_same(ev, st, t, site):
        a = _arg(ev, st, t, 0)
        if a is None:
            return False
        inner = deref_value(st, a, hops=1) if a[0] in ("ref", "refmut", "pref", "refval") else None
        if inner is not None and inner[0] in ("refmut", "ref", "pref"):
            return _set_dest(st, t, inner)
        return _set_dest(st, t, a)

    def o_box(ev, st, t, site):
        a = _arg(ev, st, t, 0)
        return a is not None and _set_dest(st, t, a)

    def o_poll(ev, st, t, site):
        who = deref_value(st, _arg(ev, st, t, 0))
        cx = name(deref_value(st, _arg(ev, st, t, 1)))
        if who != ("const", "HANDSHAKE_FUTURE"):
            return False
        alts = []
        for nm, val in (("Pending", ("variant", "Pending", ())), ("Err", ("variant", "Ready", ((0, ("variant", "Err", ((0, ("const", "HS_ERROR")),))),))),
                        ("Ok", ("variant", "Ready", ((0, ("variant", "Ok", ((0, ("const", "NEW_STREAM")),))),)))):
            s2 = dict(st)
            log(s2, "hs:%s:%s" % (cx, nm))
            s2[t["dest"]["l"]] = val
            alts.append(s2)
        return alts

    def o_action(ev, st, t, site):
        f_ = deref_value(st, _arg(ev, st, t, 0))
        tup_ = deref_value(st, _arg(ev, st, t, 1))
        if f_ != ("const", "ACTION") or tup_ is None or tup_[0] != "variant":
            return False
        xs = [name(deref_value(st, x)) for _, x in tup_[2]]
        log(st, "action:%s" % ":".join(xs))
        return _set_dest(st, t, ("const", "ACTION_RESULT"))
    raw = [(r"Pin.* as std::ops::Deref(Mut)?.*::deref(_mut)?$|Pin.*::(new|as_mut|get_mut|new_unchecked|as_ref|get_ref|into_ref)$|Box.* as std::ops::Deref(Mut)?.*::deref(_mut)?$|Box.*::as_mut$|AsMut.*::as_mut$", o_same),
           (r"Box.*::new$", o_box), (r"Future.*::poll$", o_poll), (r"FnOnce.*::call_once$|FnMut.*::call_mut$|Fn.*::call$", o_action)] + seqmodel.OPTION_ORACLES

    def state_after(st_):
        v = st_.get(LOC)
        x = dict(v[2]).get(si[0]) if v is not None and v[0] == "variant" else None
        if x is None or x[0] != "variant":
            return "?"
        return "%s(%s)" % (x[1], name(deref_value(st_, dict(x[2]).get(0))))
    rows = 0
    for state, payload, want in (
            ("Streaming", "TLS_STREAM", {(("action:TLS_STREAM:CX",), "ACTION_RESULT", "Streaming(TLS_STREAM)")}),
            ("Handshake", "HANDSHAKE_FUTURE", {(("hs:CX:Pending",), "Pending", "Handshake(HANDSHAKE_FUTURE)"), (("hs:CX:Err",), "Ready(Err(HS_ERROR))", "Handshake(HANDSHAKE_FUTURE)"),
                                               (("hs:CX:Ok", "action:NEW_STREAM:CX"), "ACTION_RESULT", "Streaming(NEW_STREAM)")})):
        key = "%s::handshake|table|%s" % (label, state)
        fields = tuple((i, ("variant", state, ((0, ("const", payload)),)) if i == si[0] else ("const", "F_" + x["name"])) for i, x in enumerate(fl))
        st = {1: ("refmut", LOC), LOC: ("variant", self_ty.split("::")[-1], fields), 2: ("const", "CX"), 3: ("const", "ACTION"), LOG: ("list", ())}
        try:
            outs = AbsPaths(u, limit=8000, raw_oracles=raw, oracles=[INT_CMP, VALUE_EQ]).outcomes(state=st, extra_keys=(LOG, state_after))
        except AbsPaths.Undecided as e:
            ctx.undecided(key, str(e), u.where())
            continue
        rows += 1
        got = set()
        for (rv, _, (lg, sa)) in outs:
            r = "?"
            if rv == ("const", "ACTION_RESULT"):
                r = "ACTION_RESULT"
            elif rv is not None and rv[0] == "variant" and rv[1] == "Pending":
                r = "Pending"
            elif rv is not None and rv[0] == "variant" and rv[1] == "Ready":
                x = dict(rv[2]).get(0)
                if x is not None and x[0] == "variant":
                    r = "Ready(%s(%s))" % (x[1], name(dict(x[2]).get(0)))
            got.add((tuple(e[1] for e in lg[1]) if lg is not None else None, r, sa))
        ctx.check(got == want, key, "state %s: %s" % (state, "the action runs on the established stream" if state == "Streaming" else
                                                       "pending / failed handshake: no action, the outcome is returned, the state stays Handshake; completed handshake: the action runs once on the new stream, which becomes the state"),
                  "state %s: handshake() can do %s, expected %s (events, answer, state afterwards)" % (state, sorted(map(str, got)), sorted(map(str, want))), u.where())
    ctx.floor(label + "::handshake|table-rows", rows, 2, "states evaluated")


def fwd_tls_stream(ctx, facts, self_ty, state_adt, label):
    """Exception rule for the lazy-handshake TLS streams: read/write go through handshake(cx, closure) whose closure
    forwards the same operation; flush/shutdown answer Ready(Ok) only while still in the Handshake state."""
    from core import arms, closure_arg_of
    hs = lazy_handshake_fn(facts, self_ty)
    ctx.touched(hs)
    n = 0
    for f in io_methods(facts):
        if not self_suffix(f).endswith(self_ty):
            continue
        nm = f.d["name"]
        ctx.touched(f)
        key = "%s::%s" % (label, nm)
        if nm in ("poll_read", "poll_write", "poll_write_vectored"):
            n += 1
            hc = [c for c in f.calls() if c.res == hs.key]
            if len(hc) != 1:
                ctx.bad(key + "|via-handshake", "%s does not go through handshake() exactly once (%d calls)" % (nm, len(hc)), f.where())
                continue
            c = hc[0]
            rets = assigns_to_return(f, f.live)
            ok_ret = len(rets) == 1 and rets[0][0] == "call" and rets[0][1] == c.bb
            cx_ok = any(r.kind == "arg" and getattr(r, "index", None) == 2 for r in f.roots(c.args[1], through_calls=False))
            ck = closure_arg_of(f, c, 2)
            body = facts.fns.get(ck) if ck else None
            inner = [x for x in body.calls() if norm(x.decl or x.name).split("::")[-1] == nm] if body else []
            ok_inner = len(inner) == 1 and len(assigns_to_return(body, body.live)) == 1 and assigns_to_return(body, body.live)[0][1] == inner[0].bb
            if ok_inner:
                rr = body.roots(inner[0].args[0])
                ok_inner = any(r.kind == "arg" and getattr(r, "index", None) == 2 for r in rr)
                cxr = body.roots(inner[0].args[1], through_calls=False)
                ok_inner = ok_inner and any(r.kind == "arg" and getattr(r, "index", None) == 3 for r in cxr)
                br = body.roots(inner[0].args[2], through_calls=False)
                ok_inner = ok_inner and any(r.kind == "arg" and getattr(r, "index", None) == 1 for r in br)  # captured buf
            ctx.check(ok_ret and cx_ok and ok_inner, key + "|via-handshake",
                      "%s = handshake(cx, |stream, cx| stream.%s(cx, buf)): the operation reaches the TLS stream only after the handshake" % (nm, nm),
                      "%s does not forward through handshake() unchanged (ret=%s cx=%s closure=%s)" % (nm, ok_ret, cx_ok, ok_inner), f.where())
        elif nm in ("poll_flush", "poll_shutdown"):
            n += 1
            tls_dispatch_table(ctx, facts, f, self_ty, key, nm)
    ctx.floor(label + "|io-methods", n, 4, "I/O methods of the lazy TLS stream")
    # handshake(): action runs only after the handshake future resolved Ok, or when already streaming
    hs = facts.unit(hs, expand=True)
    acts = [c for c in hs.calls() if norm(c.decl or c.name).endswith("FnOnce::call_once")]
    ctx.floor(label + "::handshake|action-calls", len(acts), 1, "invocations of the I/O action in handshake()")
    tls_handshake_table(ctx, facts, lazy_handshake_fn(facts, self_ty), self_ty, label)
    from core import L_result
    hpolls = {c.bb for c in hs.calls() if norm(c.decl or c.name).endswith("::poll")}
    hs_ok = L_result(hs, True, hpolls)
    for c in acts:
        ok, w = hs.guarded(c.bb, lambda lab: (lab.kind == "variant" and lab.variants == {"Streaming"}) or hs_ok(lab))
        ctx.check(ok, label + "::handshake|action-after-handshake", "the I/O action runs only in the Streaming state or on the Ok edge of the handshake future",
                  "the I/O action can run before the handshake completed", c.where(), hs.path_desc(w))
    polls = [c for c in hs.calls() if norm(c.decl or c.name).endswith("::poll")]
    ctx.floor(label + "::handshake|drives", len(polls), 1, "poll of the handshake future")
    # on handshake error: Err is returned, state stays Handshake (no plaintext fallback)
    for (b, i, s) in hs.aggregates("Result", "Err"):
        pass
