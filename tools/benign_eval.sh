#!/bin/bash
# usage: benign_eval.sh <dir> <ID> [props, default all]
# Applies every behaviour-preserving refactoring <dir>/<ID>-r*.diff to /repo in turn, runs the quick checks, restores /repo.
# Every line "ALARM" is a false alarm of the machinery (the refactorings keep the property).  Modifies /repo while running.
DIR=$1; ID=$2; PROPS=${3:-all}
cd /verif
for p in $DIR/$ID-r*.diff; do
  n=$(basename $p .diff)
  git -C /repo apply $p 2>/dev/null || { echo "$n: patch does not apply"; continue; }
  if [ "$PROPS" = "all" ]; then out=$(./check all 2>&1); else out=""; for q in $PROPS; do out="$out
$(./check $q 2>&1)"; done; fi
  git -C /repo checkout -- .
  fired=$(echo "$out" | grep -E "new=[1-9]|BUILD" | awk '{print $1}' | tr '\n' ' ')
  if [ -z "$fired" ]; then echo "$n: quiet"; else
    echo "$n: ALARM $fired"
    echo "$out" | grep -E "^\s+\[(violation|anchor-missing|undecided)\]" | cut -c1-400
  fi
done
git -C /repo status --short | head -3
