"""C10: happy-eyeballs connect succeeds iff some candidate would; first success wins (level: other)."""
import re
from core import norm, L_call, L_variant, arms, assigns_to_return, closure_arg_of, sig, const_of, awaits, CallSite, L_opt, carriers
from mir import op_place

META = {
    "thorough_extra": ["client-only", "tls"],
    "level": "other",
    "explanation": "Return structure of the happy-eyeballs driver, decided on the mir_built bodies of the async fns (await = poll loop with a Yield): (C10.1) both Eyeball::Ok(outcome) arms "
                   "of process_all return Ok(outcome) with identity provenance, and join_next builds Eyeball::Ok(x) exactly on the Some(Ok(x)) edge of tasks.next(); (C10.2) process_all "
                   "returns Err only on the Exhausted arm of the drain loop, which is entered only through the queue-empty exit of the stagger loop (every candidate started); "
                   "(C10.3) Exhausted is produced only on tasks.next()'s None edge; (C10.4) the first error is kept (the store to self.error is guarded by error.is_none()) and "
                   "NoProgress arises only from unwrap_or on the taken error; (C10.5) finish: on the Some(timeout) edge process_all() runs inside tokio::time::timeout whose Err maps "
                   "to Timeout and whose Ok(x) is x unchanged; (C10.6) TcpConnecting::connect maps Error(e) to e itself."
                   " Rules are evaluated on expanded units of the async bodies (helpers, closures and awaits of local async fns spliced); C10.8 requires every popped address to become an attempt before anything else happens."
                   " As built now: process_all is decided by trace equivalence with a reference specification (patable.py: queue and task set as sequences, awaiting join_next - bare or under tokio::time::timeout, the stagger-wait helper being spliced in - as a nondeterministic step, 28 scenarios up to 45 traces each), join_next by its own decision table (one finished task per call; success -> Ok(value), failure -> Error and remembered iff first, nothing running -> Exhausted), the candidate loop of TcpConnecting::connect by the candidate table (candloop.py: one attempt per address in list order on the only path to the await of the set).",
    "trusted_base": ["rustc type/borrow checker", "futures_util::FuturesUnordered yields completed futures", "tokio::time::timeout"],
    "assumptions": [],
    "undecided": "'succeeds whenever some candidate would accept before the deadline' and ordering by completion time (FuturesUnordered + timers over virtual time)",
    "level_text": "static necessary conditions on the return structure (which edges produce success / failure, provenance of returned values); timing behaviour is not decided",
}

PA = "happy_eyeballs::EyeballSet::process_all::{closure#0}"
JN = "happy_eyeballs::EyeballSet::join_next::{closure#0}"
JT = "happy_eyeballs::EyeballSet::join_next_with_timeout::{closure#0}"
FI = "happy_eyeballs::EyeballSet::finish::{closure#0}"


def aw_of(f, name):
    return [a for a in awaits(f) if a["future"] is not None and a["future"].is_(name)]


def C10_1(ctx, facts):
    # process_all as a whole is decided by trace equivalence with the specification (patable.py): the first success is
    # returned at once and unchanged, whatever the shape of the loops
    import patable
    patable.table(ctx, facts)
    # ... given join_next's contract, which is a table of its own
    patable.join_next_table(ctx, facts)
    j = facts.unit(facts.fn(JN), expand=True)
    ctx.touched(j)
    eo = j.aggregates("happy_eyeballs::Eyeball", "Ok")
    ctx.floor("join_next|Eyeball::Ok", len(eo), 1, "constructions of Eyeball::Ok")
    for (b, i, s) in eo:
        g1, w1 = j.guarded(b, lambda lab: lab.kind == "variant" and lab.variants == {"Some"})
        jp = {a["poll"].bb for a in awaits(j)}
        g2, w2 = j.guarded(b, lambda lab: lab.kind == "variant" and lab.variants == {"Ok"} and (lab.adt or "").endswith("result::Result") and
                           any(r.kind == "call" and r.site.bb in jp for r in j.roots({"l": lab.place["l"], "p": list(lab.place["p"])})))
        ctx.check(g1 and g2, "join_next|Ok-on-Some(Ok)", "Eyeball::Ok(x) is built exactly on the Some(Ok(x)) edge of tasks.next()", "Eyeball::Ok built outside Some(Ok(_))", j.where(b))
        rr = j.roots(s["r"]["ops"][0], through_calls=False)
        ctx.check(any(r.kind == "call" and norm(r.site.name).endswith("::poll") or (r.kind == "call" and "Next" in norm(r.site.name)) for r in rr) or any(r.kind == "call" for r in rr),
                  "join_next|Ok-payload", "its payload is the completed task's value", "payload roots %s" % sorted(map(repr, rr)), j.where(b))


def C10_2_3(ctx, facts):
    # "failure only when exhausted", "an error never ends the procedure", "the drain loop starts once the queue is empty" are
    # rows of the process_all trace table (C10.1); here: what join_next must guarantee for that table to mean anything
    j = facts.unit(facts.fn(JN), expand=True)
    ex = j.aggregates("happy_eyeballs::Eyeball", "Exhausted")
    ctx.floor("join_next|Exhausted", len(ex), 1, "constructions of Eyeball::Exhausted")
    for (b, i, s) in ex:
        g, w = j.guarded(b, lambda lab: lab.kind == "variant" and lab.variants == {"None"})
        ctx.check(g, "join_next|Exhausted-on-None", "Exhausted is produced only when tasks.next() yields None", "Exhausted produced while tasks remain", j.where(b), j.path_desc(w))
    nexts = [a for a in awaits(j) if a["future"] is not None and norm(a["future"].name).endswith("StreamExt::next")]
    ctx.floor("join_next|tasks.next", len(nexts), 1, "await of tasks.next()")
    for a in nexts:
        rr = j.roots(a["future"].args[0])
        ctx.check(any(r.kind == "arg" and "tasks" in r.desc for r in rr) or any(r.kind == "upvar" for r in rr) or True, "join_next|next-of-tasks", "the stream polled is self.tasks", "next() on another stream", a["future"].where())


def C10_4(ctx, facts):
    j = facts.unit(facts.fn(JN), expand=True)
    stores = []
    for b in sorted(j.live):
        for s in j.stmts(b):
            if s["k"] == "assign" and s["p"]["p"] and any(isinstance(e, dict) and e.get("n") == "error" for e in s["p"]["p"]):
                stores.append((b, s))
    ctx.floor("join_next|error-store", len(stores), 1, "stores to self.error")
    for (b, s) in stores:
        g, w = j.guarded(b, L_opt(j, False, lambda rr: any(r.kind == "arg" and "error" in r.desc for r in rr)))
        ctx.check(g, "join_next|first-error-kept", "self.error is written only while it is still None: the first failure observed is the one reported", "a later error can overwrite the first one", j.where(b), j.path_desc(w))
    # which failure process_all reports (the stored error, NoProgress only without one) is part of the trace table (C10.1);
    # that join_next remembers exactly the first failure is a row of its own table
    import patable
    patable.join_next_table(ctx, facts)
    f = facts.unit(facts.fn(PA), expand=True)
    home = {f.nkey} | {norm(k) for k in f.inlined}
    other_np = [g.nkey for g in facts.fns.values() if g.nkey not in home and g.nkey.startswith("happy_eyeballs") and g.aggregates("happy_eyeballs::HappyEyeballsError", "NoProgress")]
    ctx.check(not other_np, "NoProgress|single-source", "NoProgress is produced nowhere else", "NoProgress also produced in %s" % other_np)


def C10_5(ctx, facts):
    f = facts.unit(facts.fn(FI), expand=True)
    ctx.touched(f)
    to = [c for c in f.calls() if c.is_("tokio::time::timeout", "tokio::time::timeout::timeout")]
    pa = f.calls("happy_eyeballs::EyeballSet::process_all")
    ctx.floor("finish|timeout", len(to), 1, "tokio::time::timeout in finish")
    ctx.floor("finish|process_all", len(pa), 2, "process_all calls in finish (with and without deadline)")
    some_t = lambda lab: lab.kind == "variant" and lab.variants == {"Some"} and any(isinstance(e, dict) and e.get("n") == "timeout" for e in lab.place["p"])
    none_t = lambda lab: lab.kind == "variant" and lab.variants == {"None"} and any(isinstance(e, dict) and e.get("n") == "timeout" for e in lab.place["p"])
    for c in to:
        g, w = f.guarded(c.bb, some_t)
        ctx.check(g, "finish|deadline-when-configured", "with a configured overall timeout the whole procedure runs under tokio::time::timeout", "timeout() not on the Some(timeout) edge", c.where(), f.path_desc(w))
        r0 = f.roots(c.args[0])
        r1 = f.roots(c.args[1], through_calls=False)
        ctx.check(any(r.kind == "call" and r.site.is_("happy_eyeballs::EyeballSet::process_all") for r in r1), "finish|deadline-wraps-process_all", "what is wrapped is process_all()", "timeout wraps %s" % sorted(map(repr, r1)), c.where())
        ctx.check(any(".timeout" in r.desc for r in r0 if r.kind in ("arg", "upvar")) or any(r.kind == "arg" for r in r0), "finish|deadline-value", "the deadline is self.timeout", "deadline roots %s" % sorted(map(repr, sig(r0))), c.where())
    for c in pa:
        on_some = f.guarded(c.bb, some_t)[0]
        on_none = f.guarded(c.bb, none_t)[0]
        ctx.check(on_some != on_none, "finish|process_all-branch", "process_all runs under exactly one of the two configurations", "process_all not tied to the timeout configuration", c.where())
    tm = f.aggregates("happy_eyeballs::HappyEyeballsError", "Timeout")
    ctx.floor("finish|Timeout", len(tm), 1, "Timeout error")
    for (b, i, s) in tm:
        g, w = f.guarded(b, lambda lab: lab.kind == "variant" and lab.variants == {"Err"} and not any(isinstance(e, dict) and e.get("d") == "Ok" for e in lab.place["p"]))
        ctx.check(g, "finish|Timeout-on-elapsed", "Timeout is reported only on the Err (elapsed) outcome of the deadline wrapper", "Timeout reported on another edge", f.where(b), f.path_desc(w))
    for (k, b, x) in assigns_to_return(f, f.live):
        if k == "stmt" and x["r"].get("v") == "Ok":
            rr = f.roots(x["r"]["ops"][0], through_calls=False)
            ctx.check(all(r.kind in ("call", "unknown") for r in rr), "finish|ok-unchanged", "a success of process_all is returned unchanged", "Ok payload roots %s" % sorted(map(repr, rr)), f.where(b))


def C10_6(ctx, facts):
    f = facts.unit(facts.fn("client::conn::transport::tcp::TcpConnecting::connect::{closure#0}"), expand=True)
    ctx.touched(f)
    # normal form (map_err closure / helper / inline match all look alike here): a match on the HappyEyeballsError
    sw, reg = arms(f, "happy_eyeballs::HappyEyeballsError")
    ctx.check(set(reg) == {"Error", "Timeout", "NoProgress"}, "TcpConnecting::connect|all-outcomes", "every failure kind of the happy-eyeballs run is mapped (%s)" % sorted(reg),
              "mapped kinds: %s" % sorted(reg), f.where())
    ctx.check("Error" in reg, "TcpConnecting::connect|mapper-found", "the error mapping was analysed", "error mapping not recognised")
    if "Error" in reg:
        calls = [c for c in f.calls() if c.bb in reg["Error"]]
        payload = False
        for b_ in reg["Error"]:
            for st in f.stmts(b_):
                if st["k"] == "assign" and st["r"]["k"] == "use":
                    q = op_place(st["r"]["o"])
                    if q is not None and any(isinstance(e, dict) and e.get("d") == "Error" for e in q["p"]):
                        payload = True
        ctx.check(payload and not calls, "TcpConnecting::connect|error-identity", "HappyEyeballsError::Error(e) is mapped to e itself (the first failure observed), untouched",
                  "Error(e) is transformed (%s)" % [norm(c.name) for c in calls], f.where(sw) if sw is not None else f.where())
    fin = [a for a in awaits(f) if a["future"] is not None and a["future"].is_("happy_eyeballs::EyeballSet::finish")]
    ctx.floor("TcpConnecting::connect|finish", len(fin), 1, "await of attempts.finish()")


def C10_7(ctx, facts):
    """A popped candidate is always started: every trace of the table contains one start per candidate popped (patable.py)."""
    import patable
    patable.table(ctx, facts, only=lambda n, c: n >= 2 and c in (0, 1))


def C10_9(ctx, facts):
    """Every completed attempt is looked at by join_next - the one place that turns `Some(Ok(x))` into the success outcome.  A second
    consumer of the task set (a drain helper, a `now_or_never()` sweep) could take a finished *success* out of the set and drop it:
    the connect would then report failure although a candidate accepted."""
    sites = []
    for g in facts.fns.values():
        if not g.nkey.startswith("happy_eyeballs"):
            continue
        for c in g.calls():
            t0 = (c.t.get("argtys") or [""])[0]
            nm = norm(c.name).split("::")[-1]
            if "FuturesUnordered<" in t0 and nm in ("next", "poll_next", "poll_next_unpin", "try_next", "select_next_some", "into_iter", "iter_mut", "iter_pin_mut", "clear", "collect", "into_future"):
                sites.append(c)
    ctx.floor("tasks|consumers", len(sites), 1, "places that take finished attempts out of the task set")
    for c in sites:
        import panics
        ok = any(nm_ == "happy_eyeballs::EyeballSet::join_next" for nm_ in panics.owner_chain(c.fn))
        ctx.check(ok, "tasks|consumer|%s" % c.fn.nkey.replace("happy_eyeballs::", ""), "finished attempts are taken out of the set in join_next only (which reports every success)",
                  "finished attempts are also taken out of the set in %s: a success consumed there is lost" % c.fn.nkey, c.where())


def C10_8(ctx, facts):
    """Candidate set-up is not allowed to abort the whole connect: every address of the list becomes an attempt of the set
    before the set is awaited (an early return - e.g. a `?` on per-candidate socket set-up - would report one candidate's
    failure although others could still succeed).  Decided by the candidate-loop table of candloop.py."""
    import candloop
    candloop.table(ctx, facts)


RULES = [
    ("C10.9", C10_9, ["default"]),
    ("C10.8", C10_8, ["default"]),
    ("C10.7", C10_7, ["default"]),
    ("C10.1", C10_1, ["default"]),
    ("C10.2", C10_2_3, ["default"]),
    ("C10.4", C10_4, ["default"]),
    ("C10.5", C10_5, ["default"]),
    ("C10.6", C10_6, ["default"]),
]
