"""Decision table for the SNI check (`server::conn::tls::sni::handle`, C20): which requests are forwarded, marked, rejected.

The request is an opaque handle whose accessors answer from the scenario: HTTP version, URI authority (none / the server
name in another letter case and with a port / another name), Host header (none / the server name in upper case / another
name), TLS information (none / without server name / with server name).  The TLS information lives in the abstract state,
so `validated()` is observed as a store.  Rule: the host is the URI authority for HTTP/2 (falling back to the Host
header) and the Host header otherwise; without TLS information the request is forwarded untouched; with it, no server
name -> rejected; host equal to the server name (ignoring case and port) -> forwarded and marked; different -> rejected; no
host -> forwarded unmarked."""
import re

import inline
import seqmodel
from core import AbsPaths, VALUE_EQ, STR_EQ, INT_CMP, norm, deref_value, http_version, version_name
from seqmodel import NONE, some, tup, _arg, _deref, _set_dest

FN = "server::conn::tls::sni::handle"
TLS = 9100
SNI_NAME = "example.com"
AUTHS = {"none": None, "same": "Example.COM:8443", "other": "other.example:8443"}
HOSTS = {"none": None, "same": "EXAMPLE.com", "other": "other.example"}


def _hostpart(a):
    a = a.rsplit(":", 1)[0] if re.search(r":\d+$", a) else a
    return a


def evaluate(facts, version, auth, host, tls, preset=False):
    fn = facts.fn(FN)
    if not hasattr(facts, "_sni_unit"):
        pats = [re.compile(p) for p, _ in seqmodel.RAW_ORACLES]
        facts._sni_unit = inline.inline(facts, fn, 4, lambda ck, raw: "::_::" not in ck and not any(rx.search(norm(ck)) for rx in pats), expand=True)
    u = facts._sni_unit
    info = facts.adt("info::tls::TlsConnectionInfo")
    fl = info["variants"][0]["fields"]
    si = [i for i, x in enumerate(fl) if x["ty"].endswith("Option<std::string::String>") or x["ty"].endswith("Option<String>")]
    vi = [i for i, x in enumerate(fl) if x["ty"] == "bool"]
    if len(si) != 1 or len(vi) != 1:
        raise KeyError("TlsConnectionInfo { server_name: Option<String>, validated: bool } not identified by type")

    def const(name):
        return lambda ev, st, t, site: _set_dest(st, t, ("const", name))

    def tag(v, prefix):
        v = deref_value({}, v) if v is not None and v[0] == "refval" else v
        return v[1][len(prefix):] if v is not None and v[0] == "const" and isinstance(v[1], str) and v[1].startswith(prefix) else None

    def o_authority(ev, st, t, site):
        return _set_dest(st, t, NONE if AUTHS[auth] is None else some(("refval", ("const", "auth:" + AUTHS[auth]))))

    def o_get(ev, st, t, site):
        k = deref_value(st, _arg(ev, st, t, 1))
        if k is None or k[0] != "const" or not str(k[1]).endswith("header::HOST"):
            return False
        return _set_dest(st, t, NONE if HOSTS[host] is None else some(("refval", ("const", "hv:" + HOSTS[host]))))

    def o_to_str(ev, st, t, site):
        x = tag(deref_value(st, _arg(ev, st, t, 0)), "hv:")
        if x is None:
            return False
        return _set_dest(st, t, ("variant", "Ok", ((0, ("const", "str:" + x)),)))

    def o_parse(ev, st, t, site):
        x = tag(deref_value(st, _arg(ev, st, t, 0)), "str:")
        if x is None:
            return False
        return _set_dest(st, t, ("variant", "Ok", ((0, ("const", "auth:" + x)),)))

    def o_try_from(ev, st, t, site):
        v = deref_value(st, _arg(ev, st, t, 0))
        x = tag(v, "str:") or tag(v, "hv:")
        if x is None:
            return False
        return _set_dest(st, t, ("variant", "Ok", ((0, ("const", "auth:" + x)),)))

    def o_host(ev, st, t, site):
        x = tag(deref_value(st, _arg(ev, st, t, 0)), "auth:")
        if x is None:
            return False
        return _set_dest(st, t, ("const", "str:" + _hostpart(x)))

    def o_eq_ic(ev, st, t, site):
        a, b = tag(deref_value(st, _arg(ev, st, t, 0)), "str:"), tag(deref_value(st, _arg(ev, st, t, 1)), "str:")
        if a is None or b is None:
            return False
        return _set_dest(st, t, ("const", "true" if a.lower() == b.lower() else "false"))

    def o_same(ev, st, t, site):
        v = deref_value(st, _arg(ev, st, t, 0))
        if v is None or v[0] != "const" or not str(v[1]).startswith(("auth:", "str:", "hv:")):
            return False
        return _set_dest(st, t, v)

    def o_lower(ev, st, t, site):
        v = deref_value(st, _arg(ev, st, t, 0))
        x = tag(v, "str:")
        if x is None:
            return False
        return _set_dest(st, t, ("const", "str:" + x.lower()))

    def o_str_eq(ev, st, t, site):
        va, vb = version_name(deref_value(st, _arg(ev, st, t, 0))), version_name(deref_value(st, _arg(ev, st, t, 1)))
        if va is not None and vb is not None:
            eq = va == vb
            if norm(site.name).endswith("::ne"):
                eq = not eq
            return _set_dest(st, t, ("const", "true" if eq else "false"))
        a, b = tag(deref_value(st, _arg(ev, st, t, 0)), "str:"), tag(deref_value(st, _arg(ev, st, t, 1)), "str:")
        if a is None or b is None:
            return False
        eq = a == b
        if norm(site.name).endswith("::ne"):
            eq = not eq
        return _set_dest(st, t, ("const", "true" if eq else "false"))

    def o_ext_get(ev, st, t, site):
        if "TlsConnectionInfo" not in " ".join(t.get("targs") or []) + (t.get("resa") or "") + (t.get("decla") or ""):
            return False
        if tls == "none":
            return _set_dest(st, t, NONE)
        return _set_dest(st, t, some(("refmut", TLS)))
    def o_version(ev, st, t, site):
        return _set_dest(st, t, http_version(version))
    raw = [(r"Request.*::version$", o_version), (r"Request.*::uri$", const("URI")), (r"Uri::authority$", o_authority),
           (r"Request.*::(headers|headers_mut)$", const("HEADERS")), (r"HeaderMap.*::get$", o_get), (r"HeaderValue::to_str$", o_to_str),
           (r"str.*::parse$|FromStr.*::from_str$", o_parse), (r"TryFrom.*::try_from$", o_try_from),
           (r"Option.*::(cloned|copied)$", seqmodel.o_opt_cloned),
           (r"Request.*::(extensions|extensions_mut)$", const("EXT")), (r"Extensions::(get|get_mut)$", o_ext_get),
           (r"Authority::host$", o_host), (r"str.*::eq_ignore_ascii_case$", o_eq_ic), (r"str.*::to_ascii_lowercase$|str.*::to_lowercase$", o_lower),
           (r"Clone.*::clone$|Deref.*::deref$|String.*::as_str$|ToString.*::to_string$|ToOwned.*::to_owned$|Authority::as_str$|AsRef.*::as_ref$", o_same),
           (r"PartialEq.*::(eq|ne)$", o_str_eq), (r"Span::current$", const("SPAN"))] + seqmodel.OPTION_ORACLES + seqmodel.RAW_ORACLES
    f_ = {i: ("const", "TLS_" + x["name"]) for i, x in enumerate(fl)}
    f_[si[0]] = some(("const", "str:" + SNI_NAME)) if tls == "sni" else NONE
    f_[vi[0]] = ("const", "true" if preset else "false")
    st = {1: ("const", "REQ"), TLS: ("variant", "TlsConnectionInfo", tuple(sorted(f_.items())))}

    def marked(st_):
        v = st_.get(TLS)
        return dict(v[2]).get(vi[0]) if v is not None and v[0] == "variant" else None
    outs = AbsPaths(u, limit=30000, raw_oracles=raw, oracles=[VALUE_EQ, STR_EQ, INT_CMP]).outcomes(state=st, extra_keys=(marked,))
    res = set()
    for (rv, _, (m,)) in outs:
        if rv is not None and rv[0] == "variant" and rv[1] == "None":
            k = "forward"
        elif rv is not None and rv[0] == "variant" and rv[1] == "Some" and dict(rv[2]).get(0) is not None and dict(rv[2])[0][0] == "variant":
            k = "reject:" + dict(rv[2])[0][1]
        else:
            k = "?"
        res.add((k, m[1] if m is not None and m[0] == "const" else "?"))
    return u, res


def spec(version, auth, host, tls):
    if tls == "none":
        return ("forward", "false")
    if tls == "no-sni":
        return ("reject:MissingSNI", "false")
    if version == "HTTP_2":
        h = AUTHS[auth] if AUTHS[auth] is not None else HOSTS[host]
    else:
        h = HOSTS[host]
    if h is None:
        return ("forward", "false")
    if _hostpart(h).lower() == SNI_NAME.lower():
        return ("forward", "true")
    return ("reject:InvalidSNI", "false")


def table(ctx, facts, label="sni::handle"):
    rows = 0
    for version in ("HTTP_11", "HTTP_2"):
        for auth in AUTHS:
            for host in HOSTS:
                for tls in ("none", "no-sni", "sni"):
                    key = "%s|table|%s|authority=%s|host-header=%s|tls=%s" % (label, version, auth, host, tls)
                    try:
                        u, got = evaluate(facts, version, auth, host, tls)
                    except AbsPaths.Undecided as e:
                        ctx.undecided(key, str(e))
                        continue
                    except KeyError as e:
                        return ctx.missing("%s|tls-info-fields" % label, str(e))
                    if rows == 0:
                        ctx.touched(u)
                    rows += 1
                    want = spec(version, auth, host, tls)
                    if tls == "sni":
                        # the verdict does not depend on what the mark said before: a connection whose information arrives
                        # already marked is checked all the same
                        try:
                            _, got2 = evaluate(facts, version, auth, host, tls, preset=True)
                        except AbsPaths.Undecided as e:
                            got2 = {("?", str(e))}
                        ctx.check({v for (v, _) in got2} == {want[0]}, key + "|already-marked", "the same verdict (%s) when the TLS information arrives already marked as validated" % want[0],
                                  "with TLS information that is already marked validated the check answers %s, expected %s: the mark bypasses the comparison" % (sorted(got2), want[0]), u.where())
                    ctx.check(got == {want}, key, "%s, URI authority %s, Host header %s, TLS info %s: %s%s" % (version, auth, host, tls, want[0], " and marked validated" if want[1] == "true" else ""),
                              "%s, URI authority %s, Host header %s, TLS info %s: the check can answer %s (verdict, marked validated); expected %s" % (version, auth, host, tls, sorted(got), want), u.where())
    ctx.floor("%s|table-rows" % label, rows, 54, "scenarios evaluated")
