#!/bin/bash
# usage: seed_matrix.sh [-j N]
# Every stored seeded change (a property-breaking patch written by an independent sub-agent, confirmed by a failing
# demonstration) is evaluated on a scratch worktree of /repo (see eval_patch.sh): its target property must FIRE.
J=4; if [ "$1" = "-j" ]; then J=$2; shift 2; fi
S=/var/tmp/verif-snap-seed-$$
mkdir -p $S/p && cp -rp /verif/check /verif/hdlint /verif/known_findings.txt /verif/mutants /verif/properties.jsonl /verif/tools $S/ 2>/dev/null
trap 'rm -rf $S' EXIT
export VERIF_ROOT=$S
for d in /verif/seeded/*/; do id=$(basename $d); cp $d/patch.diff $S/p/seed-$id.diff; done
ls $S/p/*.diff | xargs -P $J -n 1 $S/tools/eval_patch.sh | grep -E "^seed-" | sort | while read line; do
  id=$(echo "$line" | sed 's/^seed-\([^:]*\):.*/\1/'); prop=${id%%-*}
  if echo "$line" | grep -q "FIRED.* $prop\b\|FIRED $prop\b"; then echo "$line  [target $prop: detected]"; else echo "$line  [target $prop: MISSED]"; fi
done
