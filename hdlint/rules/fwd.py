"""E-FWD: forwarding agreement of I/O wrappers (DESIGN.md 4.3).

A forwarding method must, on every path, call the *same trait item* on a value rooted in `self`, pass cx / buf / bufs
as received, and return that call's result untransformed."""
from core import norm, CallSite, assigns_to_return, sig, is_transparent
from mir import op_place

IO_TRAITS = ("AsyncRead", "AsyncWrite", "Read", "Write")

# (self type suffix, trait last segment, method) handled by their own rule instead of plain forwarding
COUNTING = {
    ("bridge::io::TokioIo", "Read", "poll_read"),
    ("bridge::io::TokioIo", "AsyncRead", "poll_read"),
    ("rewind::Rewind", "Read", "poll_read"),
}
# TLS streams go through handshake(cx, closure): checked by fwd_tls_stream
TLS_STREAMS = ("client::conn::stream::tls::TlsStream", "server::conn::tls::TlsStream")

# cross-trait bridge: TokioIo implements hyper's traits on top of tokio's and vice versa
BRIDGE = {"bridge::io::TokioIo"}


def io_methods(facts):
    out = []
    for f in facts.fns.values():
        d = f.d
        tr = (d.get("impl_trait") or "").split("::")[-1]
        if tr in IO_TRAITS and d.get("kind") == "AssocFn" and "impl_self" in d:
            full = d["impl_trait"]
            if not (full.startswith("tokio::io::") or full.startswith("hyper::rt::")):
                continue
            out.append(f)
    return out


def self_suffix(f):
    return norm(f.d["impl_self"])


def check_forward(ctx, f, label=None):
    d = f.d
    name = d["name"]
    label = label or "%s as %s::%s" % (self_suffix(f), d["impl_trait"].split("::")[-1], name)
    # candidate forward calls: same method name, on an I/O trait item
    fw = []
    for c in f.calls():
        last = norm(c.decl or c.name).split("::")[-1]
        if last != name:
            continue
        decl = norm(c.decl or "")
        if not any(decl.startswith(p) for p in ("tokio::io::", "hyper::rt::", "tokio::net::", "<")) and ".poll_" not in decl:
            pass
        fw.append(c)
    if not fw:
        return ctx.bad(label + "|forwards", "no call to an inner %s: the operation is not forwarded" % name, f.where())
    same_trait = d["impl_trait"].split("::")[-1]
    ok_all = True
    for c in fw:
        decl_tr = norm(c.decl or "").rsplit("::", 1)[0].split("::")[-1] if c.decl else ""
        # receiver rooted in self
        rr = f.roots(c.args[0]) if c.args else set()
        if not any(r.kind == "arg" and getattr(r, "index", None) == 1 for r in rr):
            ok_all = ctx.bad(label + "|receiver", "inner %s is not called on a part of self" % name, c.where()) and ok_all
        # trait agreement (bridges translate between the tokio and hyper flavours of the same item)
        st = self_suffix(f)
        if decl_tr and decl_tr != same_trait and not any(st.endswith(b) for b in BRIDGE):
            if not (decl_tr in IO_TRAITS or decl_tr in ("TcpStream", "UnixStream", "DuplexStream")):
                ok_all = ctx.bad(label + "|same-item", "forwards to %s instead of %s::%s" % (norm(c.decl), same_trait, name), c.where()) and ok_all
        # remaining arguments passed as received
        for i in range(1, len(c.args)):
            ar = sig(f.roots(c.args[i], through_calls=True))
            want = i + 1
            good = any(r.kind == "arg" and getattr(r, "index", None) == want for r in ar)
            foreign = [r for r in ar if r.kind == "arg" and getattr(r, "index", None) not in (want,)]
            if not good or foreign:
                ok_all = ctx.bad(label + "|arg%d" % i, "argument %d of the inner call is not the method's own argument %d (roots %s)" % (i, i, sorted(map(repr, ar))), c.where()) and ok_all
    # every path passes through a forward call
    ok, w = f.must_pass(0, f.returns, {c.bb for c in fw})
    if not ok:
        ok_all = ctx.bad(label + "|all-paths", "a path returns without forwarding %s" % name, f.where(), f.path_desc(w)) and ok_all
    # the result is returned untransformed
    for (k, b, x) in assigns_to_return(f, f.live):
        if k == "call":
            if b not in {c.bb for c in fw}:
                ok_all = ctx.bad(label + "|result", "return value produced by %s, not by the forwarded call" % norm(CallSite(f, b, x).name), f.where(b)) and ok_all
        else:
            r = x["r"]
            src = op_place(r["o"]) if r["k"] == "use" else None
            site = f.call_defining(src["l"]) if src is not None and not src["p"] else None
            if site is None or site.bb not in {c.bb for c in fw}:
                ok_all = ctx.bad(label + "|result", "return value is not the forwarded call's result", f.where(b)) and ok_all
    if ok_all:
        ctx.ok(label, "forwards %s to the inner stream on every path with unchanged arguments and result (%d call site(s))" % (name, len(fw)), f.where())
    return ok_all


def E_FWD(ctx, facts, only=None, min_count=None):
    n = 0
    for f in sorted(io_methods(facts), key=lambda x: x.nkey):
        st = self_suffix(f)
        tr = f.d["impl_trait"].split("::")[-1]
        nm = f.d["name"]
        if only is not None and not any(st.endswith(o) for o in only):
            continue
        if any(st.endswith(s) and tr == t and nm == m for (s, t, m) in COUNTING):
            continue
        if any(st.endswith(t) for t in TLS_STREAMS):
            continue
        ctx.touched(f)
        n += 1
        check_forward(ctx, f)
    if min_count is not None:
        ctx.floor("forwarding-methods", n, min_count, "plain forwarding I/O methods")
    return n


def lazy_handshake_fn(facts, self_ty):
    """The `handshake(cx, action)` helper of a lazy-handshake TLS stream, found by what it is - the one inherent method of the
    stream type that invokes a caller-supplied action (FnOnce::call_once) - not by its name."""
    out = []
    for g in facts.fns.values():
        d = g.d
        if d.get("impl_trait") or "impl_self" not in d:
            continue
        st = norm(d["impl_self"])
        if not (st == self_ty or st.endswith("::" + self_ty)):
            continue
        if any(norm(c.decl or c.name).endswith("FnOnce::call_once") for c in g.calls()):
            out.append(g)
    if len(out) != 1:
        raise KeyError("lazy-handshake helper of %s: %d candidates %s" % (self_ty, len(out), [g.nkey for g in out]))
    return out[0]


def fwd_tls_stream(ctx, facts, self_ty, state_adt, label):
    """Exception rule for the lazy-handshake TLS streams: read/write go through handshake(cx, closure) whose closure
    forwards the same operation; flush/shutdown answer Ready(Ok) only while still in the Handshake state."""
    from core import arms, closure_arg_of
    hs = lazy_handshake_fn(facts, self_ty)
    ctx.touched(hs)
    n = 0
    for f in io_methods(facts):
        if not self_suffix(f).endswith(self_ty):
            continue
        nm = f.d["name"]
        ctx.touched(f)
        key = "%s::%s" % (label, nm)
        if nm in ("poll_read", "poll_write", "poll_write_vectored"):
            n += 1
            hc = [c for c in f.calls() if c.res == hs.key]
            if len(hc) != 1:
                ctx.bad(key + "|via-handshake", "%s does not go through handshake() exactly once (%d calls)" % (nm, len(hc)), f.where())
                continue
            c = hc[0]
            rets = assigns_to_return(f, f.live)
            ok_ret = len(rets) == 1 and rets[0][0] == "call" and rets[0][1] == c.bb
            cx_ok = any(r.kind == "arg" and getattr(r, "index", None) == 2 for r in f.roots(c.args[1], through_calls=False))
            ck = closure_arg_of(f, c, 2)
            body = facts.fns.get(ck) if ck else None
            inner = [x for x in body.calls() if norm(x.decl or x.name).split("::")[-1] == nm] if body else []
            ok_inner = len(inner) == 1 and len(assigns_to_return(body, body.live)) == 1 and assigns_to_return(body, body.live)[0][1] == inner[0].bb
            if ok_inner:
                rr = body.roots(inner[0].args[0])
                ok_inner = any(r.kind == "arg" and getattr(r, "index", None) == 2 for r in rr)
                cxr = body.roots(inner[0].args[1], through_calls=False)
                ok_inner = ok_inner and any(r.kind == "arg" and getattr(r, "index", None) == 3 for r in cxr)
                br = body.roots(inner[0].args[2], through_calls=False)
                ok_inner = ok_inner and any(r.kind == "arg" and getattr(r, "index", None) == 1 for r in br)  # captured buf
            ctx.check(ok_ret and cx_ok and ok_inner, key + "|via-handshake",
                      "%s = handshake(cx, |stream, cx| stream.%s(cx, buf)): the operation reaches the TLS stream only after the handshake" % (nm, nm),
                      "%s does not forward through handshake() unchanged (ret=%s cx=%s closure=%s)" % (nm, ok_ret, cx_ok, ok_inner), f.where())
        elif nm in ("poll_flush", "poll_shutdown"):
            n += 1
            sw, reg = arms(f, state_adt)
            if set(reg) != {"Handshake", "Streaming"}:
                ctx.undecided(key + "|arms", "match on the TLS state not recognised: %s" % sorted(reg), f.where())
                continue
            hcalls = [c for c in f.calls() if c.bb in reg["Handshake"]]
            hrets = assigns_to_return(f, reg["Handshake"])
            ok_h = not hcalls and len(hrets) == 1 and hrets[0][0] == "stmt" and hrets[0][2]["r"].get("v") == "Ready"
            scalls = [c for c in f.calls() if c.bb in reg["Streaming"] and norm(c.decl or c.name).split("::")[-1] == nm]
            srets = assigns_to_return(f, reg["Streaming"])
            ok_s = len(scalls) == 1 and len(srets) == 1 and srets[0][0] == "call" and srets[0][1] == scalls[0].bb and \
                any(r.kind == "arg" and getattr(r, "index", None) == 2 for r in f.roots(scalls[0].args[1], through_calls=False))
            ctx.check(ok_h and ok_s, key + "|state-dispatch", "%s answers Ready(Ok) only while handshaking and forwards to the TLS stream once streaming" % nm,
                      "%s: handshake arm ok=%s, streaming arm ok=%s" % (nm, ok_h, ok_s), f.where())
    ctx.floor(label + "|io-methods", n, 4, "I/O methods of the lazy TLS stream")
    # handshake(): action runs only after the handshake future resolved Ok, or when already streaming
    hs = facts.unit(hs, expand=True)
    acts = [c for c in hs.calls() if norm(c.decl or c.name).endswith("FnOnce::call_once")]
    ctx.floor(label + "::handshake|action-calls", len(acts), 2, "invocations of the I/O action in handshake()")
    from core import L_result
    hpolls = {c.bb for c in hs.calls() if norm(c.decl or c.name).endswith("::poll")}
    hs_ok = L_result(hs, True, hpolls)
    for c in acts:
        ok, w = hs.guarded(c.bb, lambda lab: (lab.kind == "variant" and lab.variants == {"Streaming"}) or hs_ok(lab))
        ctx.check(ok, label + "::handshake|action-after-handshake", "the I/O action runs only in the Streaming state or on the Ok edge of the handshake future",
                  "the I/O action can run before the handshake completed", c.where(), hs.path_desc(w))
    polls = [c for c in hs.calls() if norm(c.decl or c.name).endswith("::poll")]
    ctx.floor(label + "::handshake|drives", len(polls), 1, "poll of the handshake future")
    # on handshake error: Err is returned, state stays Handshake (no plaintext fallback)
    for (b, i, s) in hs.aggregates("Result", "Err"):
        pass
