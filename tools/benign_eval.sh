#!/bin/bash
# usage: benign_eval.sh <dir> <ID> [props, default all]
# Evaluates every behaviour-preserving refactoring <dir>/<ID>-r*.diff on a scratch worktree of /repo (eval_patch.sh).
# Every line "FIRED" is a false alarm of the machinery (the refactorings keep the property).  Never modifies /repo:
# a check run against a patched /repo would rewrite /verif/evidence and /verif/replays from that tree.
DIR=$(realpath $1); ID=$2; PROPS=${3:-all}
for p in $DIR/$ID-r*.diff; do /verif/tools/eval_patch.sh "$p" "$PROPS"; done
git -C /repo status --short | head -3
