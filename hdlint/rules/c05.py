"""C05: the pool never hands out a closed or expired connection (level: other)."""
import pool

META = {
    "thorough_extra": ["mocks", "client-only"],
    "level": "other",
    "explanation": "Necessary structural conditions, decided on every path of the MIR: (P5) IdleConnections::pop yields a popped entry only on the "
                   "edge is_open()==true of that same entry and on the not-expired edge of `entry.at < Instant::now() - idle_timeout` "
                   "(comparator orientation normalised, threshold provenance checked, zero/None timeout disables expiry only); PoolInner::pop "
                   "returns only what that filter yielded; (P2) the only hand-back sites are guarded by is_open()==true of the pushed connection; "
                   "(C02.1) HttpConnection::is_open returns the matching hyper sender's is_ready(); (P1) the idle list has one entrance, which timestamps with Instant::now()."
                   " As built now: P5 is a decision table (idletable.py): IdleConnections::pop is evaluated abstractly on idle lists of up to three entries (open / closed x older / newer than the cut-off) x timeout (none / zero / positive) over a symbolic order of instants and durations - 159 scenarios: whatever is handed out is open, unexpired and leaves the list; for push-ordered lists the answer equals the specification's. P4's can_share / reuse are tables over the connection variant.",
    "trusted_base": ["rustc type/borrow checker", "std::time::Instant monotonic", "hyper SendRequest::is_ready reflects closure of the connection"],
    "assumptions": ["a connection closing between the check and its use is excluded by the property itself"],
    "undecided": "monotonic-clock behaviour, actual elapsed time; a connection closing after the check",
    "level_text": "static necessary conditions: guard dominance (open and not expired) over every site that yields or hands back a connection; "
                  "not a decision of the behaviour over all histories",
}

RULES = [
    ("P5", pool.P5, ["default"]),
    ("P2", pool.P2_aspects("callers", "open-guard"), ["default"]),
    ("C02.1", pool.C02_1, ["default"]),
    ("P1", pool.P1, ["default"]),
]
