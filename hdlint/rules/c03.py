"""C03: every request's connection acquisition terminates; nobody is stranded (level: other)."""
import pool
import pool2

META = {
    "thorough_extra": ["mocks", "client-only"],
    "level": "other",
    "explanation": "Necessary conditions for liveness of connection acquisition, decided on all (feasible) paths: (E-WAKER) no poll function of the pool returns a fresh "
                   "Pending except on the Pending edge of a callee that received the task context; (P9) every push clears the in-flight marker and serves waiters; "
                   "(P10) the marker is set in two known places and every feasible path through the checkout's pinned drop continues the attempt in the background, cancels "
                   "the marker, or belongs to a pure waiter / a dropped pool; a pure waiter never cancels someone else's marker; (P11) cancelling an attempt whose marker existed "
                   "removes the queued senders that depended on it (so they resolve with an error instead of staying pending) and keeps the dialling ones; (P12/P13) a pure waiter "
                   "whose channel closes gets Ready(Err(Unavailable)), never Pending; every connector result marks the checkout Connected before returning (C03.1); "
                   "(P14) an abandoned attempt is continued and its drop releases the marker later; (P16) no re-entrant pool lock, lock-taking drop or await inside a lock region."
                   " P12 (Waiting::poll) and P13 (Checkout::poll) are decision tables: the expanded unit is evaluated abstractly for every (state, waiter outcome, connector outcome) and the answer plus the effects (connector polled, waiter closed, state set to Connected, connection registered, receiver given up) are compared with the typestate the pool relies on."
                   " As built now: the pool's state machine pieces are decision tables evaluated abstractly on modelled pool states (pooltable.py): P8 Pool::checkout (idle hit / in-flight attempt / dial x multiplexing x continue-after-preemption, with Checkout::new spliced in), P9 PoolInner::push (waiter queues with live / closed / racing receivers, shareable / exclusive connection, idle bound), P11 cancel_connection (exactly the dependants are released), P10 / P14 / P15 the pinned drop of Checkout (attempt state x waiter state x undelivered connection x pool alive: continue XOR cancel, a pure waiter does nothing, the delayed checkout keeps connector, token and pool). The representation of a queued waiter is read off Pool::checkout itself.",
    "trusted_base": ["rustc type/borrow checker", "tokio oneshot wakes the receiver on send/drop of the sender", "parking_lot::Mutex is not re-entrant (hence P16)"],
    "assumptions": ["each dial terminates (the property assumes it)", "runtime fairness"],
    "undecided": "termination of dials; fairness of the runtime; wake-ups inside tokio's oneshot",
    "level_text": "static necessary conditions for liveness (lost-wake-up lint, marker pairing by must-pass-through under path feasibility, lock-region discipline); "
                  "liveness itself over all schedules is not decided",
}

RULES = [
    ("E-WAKER", pool2.E_WAKER_pool, ["default"]),
    ("P9", pool2.P9_aspects("marker", "waiters-first", "delivered-or-drained"), ["default"]),
    ("P10", pool2.P10, ["default"]),
    ("P11", pool2.P11, ["default"]),
    ("P12", pool2.P12, ["default"]),
    ("P13", pool2.P13, ["default"]),
    ("P14", pool2.P14, ["default"]),
    ("P16", pool2.P16, ["default"]),
    # a waiter is released by cancel_connection exactly when it is tagged dependent: the tag must be "an attempt was in flight"
    ("P8d", pool2.only(pool2.P8, "marker-set", "registrations-distinguishable", "appends-at-back", label="dependent"), ["default"]),
]
