import re
"""Pool discipline rules P8..P16 and the E-WAKER lint (DESIGN.md 4.2, 4.4)."""
from core import (norm, L_call, L_variant, arms, assigns_to_return, const_of, CallSite, AbsPaths, sig,
                  closure_arg_of, is_transparent, L_opt, L_poll, carriers)
from mir import op_place, place_str, op_str

OPT_TAKE = ("std::option::Option::take", "core::option::Option::take")
SPAWN = ("tokio::spawn", "tokio::task::spawn", "tokio::task::spawn::spawn")
HSET = "std::collections::HashSet"
HMAP = "std::collections::HashMap"
VDQ = "std::collections::VecDeque"


def checkout_drop(facts):
    for f in facts.fns.values():
        if f.nkey.endswith("PinnedDrop>::drop::__drop_inner") and "client::pool::checkout::Checkout" in f.nkey:
            return facts.unit(f, expand=True)
    raise KeyError("pinned drop of Checkout")


def _recv_field(fn, site, field):
    """receiver (arg 0) of the call is rooted in self.<field> (through a guard deref or directly)."""
    rr = fn.roots(site.args[0])
    return any(r.kind == "arg" and (r.desc.endswith("." + field) or ("." + field + ".") in r.desc) for r in rr) or \
        any(field in _fields_of_ref(fn, site.args[0]) for _ in [0])


def _fields_of_ref(fn, operand):
    """Field names on the borrow chain of an operand (one level): `&mut (*_x).waiting` -> ['waiting']."""
    p = op_place(operand)
    if p is None:
        return []
    d = fn.unique_def(p["l"])
    out = []
    depth = 0
    while d is not None and d[0] == "stmt" and depth < 4:
        r = d[3]["r"]
        if r["k"] in ("ref", "rawptr", "copyderef"):
            q = r["p"]
        elif r["k"] in ("use", "cast") and op_place(r["o"]) is not None:
            q = op_place(r["o"])
        else:
            break
        out.extend(e.get("n") for e in q["p"] if isinstance(e, dict) and "f" in e)
        d = fn.unique_def(q["l"])
        depth += 1
    return out


def calls_on_field(fn, field, *names):
    """Call sites whose receiver is a borrow of a place ending in `.field`."""
    out = []
    for c in fn.calls(*names):
        if c.args and field in _fields_of_ref(fn, c.args[0]):
            out.append(c)
    return out


# ------------------------------------------------------------------ E-WAKER

def cx_local(fn):
    for i in range(1, fn.argc + 1):
        if "std::task::Context<" in fn.locals[i] or "core::task::wake::Context<" in fn.locals[i]:
            return i
    return None


def waker_rule(ctx, fn, label=None):
    """Every fresh Poll::Pending built in fn is dominated by the Pending edge of a poll call that was given cx."""
    label = label or fn.nkey
    cx = cx_local(fn)
    pend = [b for (b, i, s) in fn.aggregates("Poll", "Pending")]
    if cx is None:
        if pend:
            ctx.bad("%s|pending-without-context" % label, "Poll::Pending built in a function that has no Context", fn.where(pend[0]))
        return 0

    # polls that were handed the task context (they register the waker when they answer Pending)
    polled = set()
    for c in fn.calls():
        if any(any(r.kind == "arg" and getattr(r, "index", None) == cx for r in fn.roots(a, through_calls=False)) for a in c.args):
            polled.add(c.bb)
    is_pending_of_polled = L_poll(fn, False, polled)

    n = 0
    for (b, i, s) in fn.aggregates("Poll", "Pending"):
        n += 1
        # where the Pending value is *chosen* matters, not where it is built (it may be prepared eagerly and returned
        # only on the Pending edge): some block on its way to the return place must be behind the edge
        ok, w = False, None
        for (cb, cl) in carriers(fn, b, s["p"]["l"]):
            ok2, w2 = fn.guarded(cb, is_pending_of_polled)
            ok = ok or ok2
            w = w or w2
        ctx.check(ok, "%s|pending-has-waker" % label,
                  "Pending is returned only on the Pending edge of a poll that received the task context (waker registered)",
                  "Pending can be returned without any callee having registered the waker (lost wake-up)", fn.where(b), fn.path_desc(w))
    return n


def E_WAKER_pool(ctx, facts):
    fns = [
        facts.unit(facts.method("client::pool::checkout::Waiting", "Future", "poll")),
        facts.unit(facts.method("client::pool::checkout::Checkout", "Future", "poll")),
        facts.unit(facts.method("client::pool::WhenReady", "Future", "poll")),
        facts.unit(facts.method("client::pool::service::ResponseFuture", "Future", "poll")),
        facts.unit(facts.fn("client::conn::connector::Connector::poll_connector")),
    ]
    total = 0
    for f in fns:
        ctx.touched(f)
        total += waker_rule(ctx, f)
    ctx.floor("pool-poll-fns|pending-sites", total, 6, "Poll::Pending constructions in the pool's poll functions")


# ------------------------------------------------------------------ P12

def P12(ctx, facts):
    """Waiting::poll as a decision table.  Its (expanded) body is evaluated abstractly for every state of the waiter and
    every outcome of the channel poll; the answer and whether the receiver is given up are read off.  The table is the
    typestate the pool relies on - whatever the shape of the code (nested matches, eager `(poll, unresolved)` pairs,
    helpers): Idle/Pending -> NotReady and the receiver is KEPT (a released connection can still pre-empt the dial);
    Connecting/Pending -> Pending (a pure waiter waits); a resolved channel -> Connected / Closed and the receiver is given up
    (never polled again after completion); NoPool -> Closed."""
    f = facts.unit(facts.method("client::pool::checkout::Waiting", "Future", "poll"), expand=True)
    ctx.touched(f)
    sets = [c for c in f.calls("std::pin::Pin::set", "core::pin::Pin::set")]
    closes = [c for c in f.calls("tokio::sync::oneshot::Receiver::close")]
    discard = {c.bb for c in sets} | {c.bb for c in closes}
    ctx.floor("Waiting::poll|reset-sites", len(sets), 1, "Pin::set(self, ..) sites in Waiting::poll")
    ap0 = AbsPaths(f)
    for c in sets:
        v = ap0.values_at(c.bb, c.args[1]) if len(c.args) > 1 else {None}
        ctx.check(all(x is not None and x[0] == "variant" and x[1] == "NoPool" for x in v), "Waiting::poll|reset-to-NoPool",
                  "the only state written is Waiting::NoPool", "Waiting::poll writes state %s" % sorted(map(str, v)), c.where())
    RX = ("const", "RX")
    conn = ("const", "CONN")
    chan = {"Pending": ("variant", "Pending", ()),
            "Ok": ("variant", "Ready", ((0, ("variant", "Ok", ((0, conn),))),)),
            "Err": ("variant", "Ready", ((0, ("variant", "Err", ((0, ("const", "E")),))),))}
    want = {("Idle", "Pending"): ("Ready:NotReady", False), ("Idle", "Ok"): ("Ready:Connected", True), ("Idle", "Err"): ("Ready:Closed", True),
            ("Connecting", "Pending"): ("Pending", False), ("Connecting", "Ok"): ("Ready:Connected", True), ("Connecting", "Err"): ("Ready:Closed", True),
            ("NoPool", None): ("Ready:Closed", None)}
    rows = 0
    for (state, outcome), (ans, gives_up) in want.items():
        st_val = ("variant", state, ((0, RX),) if state != "NoPool" else ())
        oracles = [(r"::_::<impl .*Waiting.*>::project$|Waiting.*::project$", lambda site, vals, st_val=st_val: st_val)]
        if outcome is not None:
            oracles.append((r"Future>::poll$|Future::poll$", lambda site, vals, outcome=outcome: chan[outcome]))
        try:
            outs = AbsPaths(f, oracles=oracles).outcomes(observe_blocks=discard)
        except AbsPaths.Undecided as e:
            ctx.undecided("Waiting::poll|row|%s,%s" % (state, outcome), str(e), f.where())
            continue
        rows += 1

        def show(v):
            if v is None or v[0] != "variant":
                return "?"
            if v[1] == "Ready":
                inner = dict(v[2]).get(0)
                return "Ready:%s" % (inner[1] if inner is not None and inner[0] == "variant" else "?")
            return v[1]
        got = sorted({(show(v), bool(vis)) for (v, vis) in outs})
        exp = [(ans, gives_up)] if gives_up is not None else None
        ok = (got == exp) if exp is not None else (sorted({g[0] for g in got}) == [ans])
        ctx.check(ok, "Waiting::poll|row|%s,%s" % (state, outcome),
                  "%s waiter, channel %s -> %s%s" % (state, outcome, ans, "" if gives_up is None else (", receiver given up" if gives_up else ", receiver kept")),
                  "%s waiter, channel %s gives %s (answer, receiver given up); expected %s" % (state, outcome, got, (ans, gives_up)), f.where())
    ctx.floor("Waiting::poll|table-rows", rows, 7, "scenarios evaluated")
    # the channel is polled with the task context (waker registration is E-WAKER's rule)
    polls = [c for c in f.calls() if norm(c.decl or c.name).endswith("::poll")]
    ctx.floor("Waiting::poll|channel-poll", len(polls), 1, "poll of the oneshot receiver")


# ------------------------------------------------------------------ P13 / C03.1

def P13(ctx, facts):
    f = facts.unit(facts.method("client::pool::checkout::Checkout", "Future", "poll"), expand=True)
    ctx.touched(f)
    wp = [c for c in f.calls() if c.matches(r"client::pool::checkout::Waiting.*Future>::poll") or
          (c.is_("std::future::Future::poll", "core::future::future::Future::poll", "futures_core::Future::poll") and "checkout::Waiting<" in (c.t.get("argtys") or [""])[0])]
    pcs = f.calls("client::conn::connector::Connector::poll_connector")
    ctx.floor("Checkout::poll|waiter-poll", len(wp), 1, "polls of the waiter in Checkout::poll")
    ctx.floor("Checkout::poll|poll_connector", len(pcs), 1, "poll_connector calls in Checkout::poll")
    for c in pcs:
        ok, w = f.must_pass(0, [c.bb], {x.bb for x in wp})
        ctx.check(ok, "Checkout::poll|waiter-first", "the waiter is polled before the connector on every path",
                  "the connector can be polled without polling the waiter first", c.where(), f.path_desc(w))
    # the waiter poll is given cx and its Connected outcome is returned as is
    for c in wp:
        cx = cx_local(f)
        ok = any(any(r.kind == "arg" and getattr(r, "index", None) == cx for r in f.roots(a, through_calls=False)) for a in c.args)
        ctx.check(ok, "Checkout::poll|waiter-gets-cx", "the waiter is polled with the task context", "waiter polled without cx", c.where())
    # ---- the rest as a decision table (abstract evaluation of the expanded unit; see P12): which answer, and which of the
    # effects {connector polled, waiter closed, state set to Connected, connection registered} happen, for every
    # (checkout state, waiter outcome, connector outcome).  Merged arms, shared tails, helper functions, combinators and
    # explicit matches all give the same table.
    sets = [c for c in f.calls("std::pin::Pin::set", "core::pin::Pin::set")]
    ap = AbsPaths(f)
    set_connected = set()
    for c in sets:
        v = ap.values_at(c.bb, c.args[1])
        if all(x is not None and x[0] == "variant" and x[1] == "Connected" for x in v):
            set_connected.add(c.bb)
    closes = {c.bb for c in f.calls("client::pool::checkout::Waiting::close")}
    regs = f.calls("client::pool::checkout::register_connected")
    regb = {c.bb for c in regs}
    pcb = {c.bb for c in pcs}
    ctx.floor("Checkout::poll|register_connected", len(regs), 1, "register_connected calls in Checkout::poll")
    ctx.floor("Checkout::poll|state-set-Connected", len(set_connected), 1, "stores of InnerCheckoutConnecting::Connected")
    ctx.floor("Checkout::poll|waiter-close", len(closes), 1, "Waiting::close calls")
    for c in regs:
        ok, w = f.must_pass(0, [c.bb], closes)
        ctx.check(ok, "Checkout::poll|close-before-register", "the waiter is closed before the new connection is registered with the pool",
                  "register_connected reachable without closing the waiter", c.where(), f.path_desc(w))
    W = {"Connected": ("variant", "Ready", ((0, ("variant", "Connected", ((0, ("const", "FROM_WAITER")),))),)),
         "Closed": ("variant", "Ready", ((0, ("variant", "Closed", ())),)),
         "NotReady": ("variant", "Ready", ((0, ("variant", "NotReady", ())),)),
         "Pending": ("variant", "Pending", ())}
    K = {"Ok": ("variant", "Ready", ((0, ("variant", "Ok", ((0, ("const", "DIALED")),))),)),
         "Err": ("variant", "Ready", ((0, ("variant", "Err", ((0, ("const", "E")),))),)),
         "Pending": ("variant", "Pending", ())}
    conn_ref = ("const", "CONNECTOR")
    STATES = {"Waiting": ("variant", "Waiting", ()),
              "Connected": ("variant", "Connected", ()),
              "Connecting": ("variant", "Connecting", ((0, conn_ref),)),
              "ConnectingWithDelayDrop": ("variant", "ConnectingWithDelayDrop", ((0, ("refval", ("variant", "Some", ((0, conn_ref),)))),)),
              "ConnectingDelayed": ("variant", "ConnectingDelayed", ((0, conn_ref),))}
    rows = 0

    def show(v):
        if v is None or v[0] != "variant":
            return "?"
        if v[1] == "Ready":
            inner = dict(v[2]).get(0)
            if inner is None or inner[0] != "variant":
                return "Ready(?)"
            pl = dict(inner[2]).get(0)
            return "Ready(%s(%s))" % (inner[1], pl[1] if pl is not None and pl[0] == "const" else "_")
        return v[1]

    for state, sval in STATES.items():
        for wo in ("Connected", "Closed", "NotReady", "Pending"):
            dials = state in ("Connecting", "ConnectingWithDelayDrop", "ConnectingDelayed")
            for ko in (("Ok", "Err", "Pending") if (dials and wo in ("Closed", "NotReady")) else (None,)):
                oracles = [(r"checkout::Waiting.*::poll$", lambda site, vals, wo=wo: W[wo]),
                           (r"InnerCheckoutConnecting.*::project$", lambda site, vals, sval=sval: sval)]
                if ko is not None:
                    oracles.append((r"Connector.*::poll_connector$", lambda site, vals, ko=ko: K[ko]))
                try:
                    outs = AbsPaths(f, oracles=oracles).outcomes(observe_blocks=pcb | closes | set_connected | regb)
                except AbsPaths.Undecided as e:
                    ctx.undecided("Checkout::poll|row|%s,%s,%s" % (state, wo, ko), str(e), f.where())
                    continue
                rows += 1
                got = sorted({(show(v), bool(vis & pcb), bool(vis & closes), bool(vis & set_connected), bool(vis & regb)) for (v, vis) in outs})
                if wo == "Connected":
                    exp = [("Ready(Ok(FROM_WAITER))", False, False, False, False)]
                    txt = "a connection received from the waiter is returned as it is; nothing is dialled or registered"
                elif wo == "Pending":
                    exp = [("Pending", False, False, False, False)]
                    txt = "while the waiter is pending the checkout waits (the connector is not polled)"
                elif state == "Waiting":
                    exp = [("Ready(Err(_))", False, False, False, False)]
                    txt = "a pure waiter whose channel closed resolves with an error (never left Pending)"
                elif state == "Connected":
                    exp = [("Ready(Ok(_))", False, True, True, True)]
                    txt = "an already connected checkout closes its waiter, stays Connected and registers its connection"
                elif ko == "Pending":
                    exp = [("Pending", True, False, False, False)]
                    txt = "the connector is polled; while it is pending nothing else happens"
                elif ko == "Ok":
                    exp = [("Ready(Ok(_))", True, True, True, True)]
                    txt = "a dialled connection: waiter closed, state Connected (drop releases the marker), connection registered"
                else:
                    exp = [("Ready(Err(E))", True, True, True, False)]
                    txt = "a failed dial: waiter closed, state Connected (drop releases the marker), the connector's error returned unchanged"
                ctx.check(got == exp, "Checkout::poll|row|%s,waiter=%s,connector=%s" % (state, wo, ko), txt,
                          "state %s, waiter %s, connector %s gives %s (answer, connector polled, waiter closed, set Connected, registered); expected %s" % (state, wo, ko, got, exp), f.where())
    ctx.floor("Checkout::poll|table-rows", rows, 29, "scenarios evaluated")


# ------------------------------------------------------------------ P9

def P9_aspects(*aspects):
    def rule(ctx, facts):
        return P9(ctx, facts, aspects=aspects)
    return rule


def P9(ctx, facts, aspects=("marker", "waiters-first", "delivered-or-drained", "payload", "queue-kept")):
    """What a hand-back does - the marker is cleared, closed waiters are skipped, a shareable connection is cloned to every
    live waiter and parked, an exclusive one goes to the first live waiter (the others keep their place) or is parked within
    the bound - is the decision table of `PoolInner::push` (pooltable.py), evaluated on abstract pool states; helper
    functions, container types and loop forms do not matter.  The aspect `queue-kept` adds the who-may-touch rule for the
    waiter queues elsewhere in the crate."""
    import pooltable
    pooltable.push_table(ctx, facts)
    if "queue-kept" in set(aspects):
        queue_kept(ctx, facts)


WAITER_MAP = r"^&(mut )?std::collections::HashMap<client::pool::key::Token, std::collections::(VecDeque|vec_deque::VecDeque)<.*oneshot::Sender<|^&(mut )?std::collections::HashMap<client::pool::key::Token, (std|alloc)::vec::Vec<.*oneshot::Sender<"
WAITER_QUEUE = r"^&mut (std::collections::(VecDeque|vec_deque::VecDeque)|(std|alloc)::vec::Vec)<.*oneshot::Sender<client::pool::Pooled<"
READ_ONLY = {"get", "contains_key", "len", "is_empty", "iter", "keys", "values", "front", "back", "first", "last", "capacity"}


def queue_kept(ctx, facts):
    """Queued senders leave `waiting[token]` only by being served (the hand-back, decided by the push table) or released with
    their attempt (cancel_connection, decided by its table); `Pool::checkout` only appends its own sender (and creates the
    queue when the token has none); nothing else in the crate touches the waiter map or a queue except to read it."""
    import panics
    n = 0
    # the waiter map is the PoolInner field `HashMap<Token, queue<..>>` that is not the idle map, whatever its element type
    padt = facts.adt("client::pool::PoolInner")
    wty = [fl["ty"] for fl in padt["variants"][0]["fields"] if re.search(r"HashMap<client::pool::key::Token, .*(VecDeque|vec::Vec)<", fl["ty"]) and "IdleConnections<" not in fl["ty"]] if padt else []
    if len(wty) != 1:
        return ctx.missing("waiter-queue|map-type", "PoolInner has no single HashMap<Token, queue> besides the idle map: %s" % wty)
    m_ = re.search(r"HashMap<client::pool::key::Token, (.*)>$", wty[0])
    qty = m_.group(1)
    WAITER_MAP = r"^&(mut )?" + re.escape(wty[0].split("<")[0]) + r"<client::pool::key::Token, " + re.escape(qty)
    WAITER_QUEUE = r"^&mut " + re.escape(qty)
    tabled = ("client::pool::PoolInner::push", "client::pool::PoolInner::cancel_connection")
    for g in facts.fns.values():
        if not g.nkey.startswith(("client::pool", "<client::pool")):
            continue
        chain = panics.owner_chain(g)   # a private single-caller helper is judged as the function it was extracted from
        in_tabled = any(nm in tabled for nm in chain)
        in_checkout = any(nm == "client::pool::Pool::checkout" for nm in chain)
        for c in g.calls():
            tys = c.t.get("argtys") or [""]
            t0 = tys[0]
            m = norm(c.name).split("::")[-1]
            if re.search(WAITER_MAP, t0):
                n += 1
                if in_tabled or m in READ_ONLY or m in ("get_mut", "entry"):
                    ctx.ok("waiting|%s|%s" % (g.nkey, m), "waiter map accessed by reference (%s) / inside a hand-back decided by its table" % m, c.where())
                elif m == "insert" and in_checkout:
                    absent = lambda lab: (lab.kind == "bool" and lab.cond.kind == "call" and lab.cond.site.matches(r"HashMap.*::contains_key$") and lab.value is False) or \
                        (lab.kind == "variant" and lab.variants == {"None"} and g.call_defining(lab.place["l"]) is not None and g.call_defining(lab.place["l"]).matches(r"HashMap.*::(get|get_mut)$"))
                    okg, w = g.guarded(c.bb, absent)
                    ctx.check(okg, "waiting|%s|insert" % g.nkey, "a queue is inserted only for a token that has none yet",
                              "a waiter queue can be inserted over an existing one: the senders queued there are dropped", c.where(), g.path_desc(w))
                elif m == "remove":
                    okg, w = g.guarded(c.bb, lambda lab: lab.kind == "bool" and lab.value is True and lab.cond.kind == "call" and lab.cond.site.matches(r"(VecDeque|Vec).*::is_empty$"))
                    ctx.check(okg, "waiting|%s|remove" % g.nkey, "a waiter queue is removed from the map only when empty",
                              "a waiter queue is taken out of the map while it may still hold senders: an early return drops other requests' registrations (they lose pre-emption and dial again)",
                              c.where(), g.path_desc(w))
                else:
                    ctx.bad("waiting|%s|%s" % (g.nkey, m), "waiter map mutated through %s" % norm(c.name), c.where())
            elif re.search(WAITER_QUEUE, t0):
                n += 1
                ok = in_tabled or m in READ_ONLY or (in_checkout and m in ("push_back", "push"))
                ctx.check(ok, "waiter-queue|%s|%s" % (g.nkey, m), "queue of senders: %s in %s" % (m, g.nkey.split("::")[-1]),
                          "queued senders are removed / reordered through %s in %s" % (m, g.nkey), c.where())
        # an owned queue that goes out of scope drops every sender in it
        for b in g.live:
            t = g.term(b)
            if t["k"] == "drop" and (t.get("pty") or "").startswith(qty) and not in_checkout:
                ctx.bad("waiter-queue|%s|dropped" % g.nkey, "a queue of waiting senders is owned and dropped here", g.where(b))
    ctx.floor("waiter-queue|accesses", n, 4, "accesses to the waiter map / queues")


# ------------------------------------------------------------------ P8

def P8(ctx, facts):
    """Which kind of checkout a request gets and what it registers: decision table of `Pool::checkout` with `Checkout::new`
    spliced in (pooltable.py) - idle hit / in-flight attempt / dial, x multiplexing x continue-after-preemption."""
    import pooltable
    pooltable.checkout_table(ctx, facts)


def only(rule, *needles, floor=1, label=None):
    """A rule restricted to the obligations whose key mentions one of `needles` (a property claims exactly the clauses that
    are necessary conditions of *it*); fails closed when fewer than `floor` such obligations exist."""
    def run(ctx, facts):
        n0 = len(ctx.obs)
        rule(ctx, facts)
        mine = [o for o in ctx.obs[n0:] if any(nd in o.key for nd in needles)]
        ctx.obs[n0:] = mine
        ctx.floor("%s|claimed-obligations" % (label or needles[0]), len(mine), floor, "obligations claimed from the shared rule")
    return run


def P10_aspects(*aspects):
    def rule(ctx, facts):
        return P10(ctx, facts, aspects=aspects)
    return rule


def P10(ctx, facts, aspects=("sites", "released", "pure-waiter", "spawn", "keeps")):
    """aspects: sites (who sets / clears the marker), released (the owner's drop continues or cancels),
    pure-waiter (a checkout that only waited never cancels), spawn (the delayed checkout is what is spawned),
    keeps (a continued attempt keeps its marker)."""
    A = set(aspects)
    # who sets the marker
    sites = []
    for g in facts.fns.values():
        for c in g.calls(HSET + "::insert"):
            tys = c.t.get("argtys") or []
            if tys and "HashSet<client::pool::key::Token" in tys[0]:
                sites.append(c)
    ctx.floor("marker|insert-sites", len(sites), 2, "sites setting the in-flight marker")
    for c in sites if "sites" in A else []:
        ctx.check(c.fn.nkey in ("client::pool::Pool::checkout", "client::pool::PoolInner::connected_in_handshake"),
                  "marker|insert-in|%s" % c.fn.nkey, "marker set in a known place", "marker set in %s" % c.fn.nkey, c.where())
    rem_sites = []
    for g in facts.fns.values():
        for c in g.calls(HSET + "::remove", HSET + "::clear", HSET + "::retain", HSET + "::drain", HSET + "::take"):
            tys = c.t.get("argtys") or []
            if tys and "HashSet<client::pool::key::Token" in tys[0]:
                rem_sites.append(c)
    for c in rem_sites if "sites" in A else []:
        ctx.check(c.fn.nkey.startswith("client::pool::PoolInner::") and "{closure" not in c.fn.nkey,
                  "marker|remove-in|%s" % c.fn.nkey, "marker cleared inside PoolInner (hand-back / cancel_connection)", "marker cleared in %s" % c.fn.nkey, c.where())
    ctx.floor("marker|remove-sites", len(rem_sites), 2, "sites clearing the in-flight marker")
    # what the pinned drop does (continue XOR cancel, a pure waiter does nothing, the delayed checkout keeps connector / token
    # / pool, an undelivered connection goes back): decision table over the checkout's states (pooltable.drop_table)
    if A & {"released", "pure-waiter", "spawn", "keeps"}:
        import pooltable
        pooltable.drop_table(ctx, facts)


def P11(ctx, facts):
    """cancel_connection releases exactly the dependants of the cancelled attempt: decision table (pooltable.py)."""
    import pooltable
    pooltable.cancel_table(ctx, facts)


def P14(ctx, facts):
    # the state a new checkout starts in (delayed-drop iff continue_after_preemption, owning the caller's connector; a pure
    # waiter iff it has neither connection nor connector) is part of the Pool::checkout table
    import pooltable
    pooltable.checkout_table(ctx, facts)
    # as_delayed (a background checkout only from the delayed-drop state that still owns its connector, keeping token and pool,
    # never delayed again) is decided together with the pinned drop that uses it
    pooltable.drop_table(ctx, facts)


# ------------------------------------------------------------------ P15

KNOWN_HOLDERS = {
    "client::pool::Pooled": "Drop -> WhenReady (P3)",
    "client::pool::WhenReady": "Drop -> push if open (P2)",
    "client::pool::checkout::Checkout": "pinned drop returns an unused connection (P2/P15)",
    "client::pool::idle::Idle": "idle list entry",
    "client::pool::idle::IdleConnections": "idle list",
    "client::pool::PoolInner": "the pool",
    "client::pool::checkout::WaitingPoll": "carries a Pooled",
    "client::pool::checkout::Waiting": "Receiver<Pooled>",
    "client::pool::PoolGuard": "lock guard",
    "client::pool::PoolRef": "weak handle",
    "client::pool::Pool": "the pool handle",
}



def P15(ctx, facts):
    n = 0
    for path, adt in facts.adts.items():
        if not path.startswith("client::pool::") or path.startswith("client::pool::service"):
            continue
        holds = False
        if "::_::__" in path:
            continue  # pin-project's generated projection types hold references only
        for v in adt["variants"]:
            for fld in v["fields"]:
                t = fld["ty"]
                if t.startswith(("&", "std::pin::Pin<&")):
                    continue
                # a channel end does not hold a connection (the sending half of a oneshot is empty until it is used up)
                t_ = re.sub(r"tokio::sync::oneshot::(Sender|Receiver)<client::pool::Pooled<[^<>]*(<[^<>]*>)?[^<>]*>>", "CHANNEL_END", t)
                if t in ("C", "T", "std::option::Option<C>", "std::option::Option<T>") or "Pooled<" in t_ or "Connection" in t and "Option<" in t or "Idle<" in t or "PoolInner<" in t:
                    holds = True
        if not holds:
            continue
        n += 1
        if path not in KNOWN_HOLDERS:
            short = path.split("::")[-1]
            stored = [p2 for p2, a2 in facts.adts.items() if p2 != path and any((short + "<") in fl["ty"] or fl["ty"].endswith("::" + short) or fl["ty"] == short
                                                                                for v2 in a2["variants"] for fl in v2["fields"])]
            impls = [im for im in facts.impls if (im.get("self_adt") or "").endswith(path) and (im.get("trait") or "").split("::")[-1] in ("Future", "Drop", "Stream")]
            if not stored and not impls:
                ctx.ok("holder|%s" % path, "%s carries a connection only as a local value (it is no field of any type, no future, has no Drop): ownership passes through it within one call" % path, adt.get("span"))
                continue
        ctx.check(path in KNOWN_HOLDERS, "holder|%s" % path, "connection holder %s has a checked release path: %s" % (path, KNOWN_HOLDERS.get(path)),
                  "new type %s can hold a pooled connection but has no release obligation" % path, adt.get("span"))
    ctx.floor("holders", n, 6, "types in client::pool that can hold a connection")
    # an undelivered connection goes back to the pool on drop (if open, own token): rows `undelivered=conn:open` of the drop table
    import pooltable
    pooltable.drop_table(ctx, facts)
    # the Connected arm of poll consumes `connection` via take(): after that the field is None, so drop returns nothing twice
    f = facts.unit(facts.method("client::pool::checkout::Checkout", "Future", "poll"))
    takes = [c for c in f.calls(*OPT_TAKE) if "connection" in _fields_of_ref(f, c.args[0])]
    ctx.floor("Checkout::poll|connection-take", len(takes), 1, "connection.take() in the Connected arm")


# ------------------------------------------------------------------ P16

def _locks_pool(c):
    if c.is_("client::pool::PoolRef::lock"):
        return True
    if c.matches(r"lock_api::(mutex::)?Mutex.*::(lock|lock_arc)$"):
        tys = c.t.get("argtys") or [""]
        return "PoolInner<" in tys[0]
    return False


def no_try_lock(ctx, facts):
    """Hand-back, registration and cancellation take the pool lock with the blocking lock(): a try_lock that fails under
    contention would silently skip them (marker leak / connection not registered)."""
    users = [c for c in facts.call_sites_of("client::pool::PoolRef::try_lock") if not c.fn.nkey.startswith("client::pool::PoolRef::")]
    users += [c for g in facts.fns.values() if g.nkey.startswith(("client::pool", "<client::pool")) and g.nkey != "client::pool::PoolRef::try_lock" and not g.nkey.startswith("client::pool::PoolRef::try_lock")
              for c in g.calls() if c.matches(r"lock_api::(mutex::)?Mutex.*::try_lock(_arc|_for|_until)?$") and "PoolInner<" in (c.t.get("argtys") or [""])[0]]
    ctx.check(not users, "pool|no-try_lock", "the pool is locked only with blocking lock(): no hand-back / cancel / registration can be skipped under contention",
              "the pool is locked with try_lock in %s: under contention the guarded step is silently skipped" % sorted({c.fn.nkey for c in users}), users[0].where() if users else None)


def P16(ctx, facts):
    direct = set()
    for g in facts.fns.values():
        if not g.nkey.startswith(("client::pool", "<client::pool")):
            continue
        for c in g.calls():
            if _locks_pool(c) and g.nkey != "client::pool::PoolRef::lock":
                direct.add(g.key)
    ctx.floor("lockers", len(direct), 4, "functions that lock the pool")
    # transitive closure over callers
    cg = facts.callgraph()
    lockers = set(direct)
    changed = True
    while changed:
        changed = False
        for k, outs in cg.items():
            if k not in lockers and outs & lockers:
                lockers.add(k)
                changed = True
    lock_drop_types = ("client::pool::WhenReady<", "client::pool::checkout::Checkout<")
    n_regions = 0
    for g in facts.fns.values():
        if not (g.nkey.startswith(("client::pool", "<client::pool"))):
            continue
        regions = []
        # whole body of PoolInner methods runs under the lock
        if g.argc >= 1 and g.locals[1].startswith("&mut client::pool::PoolInner<"):
            regions.append(("self", set(g.live)))
        for li, ty in enumerate(g.locals):
            if li == 0:
                continue
            if ty.startswith("client::pool::PoolGuard<") or (ty.startswith("parking_lot::lock_api::MutexGuard<") and "PoolInner<" in ty):
                defs = g.whole_defs(li)
                if not defs:
                    continue
                drops = {b for b in g.live if g.term(b)["k"] == "drop" and g.term(b)["p"]["l"] == li and not g.term(b)["p"]["p"]}
                starts = [d[1] for d in defs]
                reg = set()
                for d0 in defs:
                    st = d0[1]
                    reg |= g.reach(g.succ[st] if d0[0] == "call" else [st], avoid_blocks=drops)
                regions.append((place_str({"l": li, "p": []}), reg))
        for (nm, reg) in regions:
            n_regions += 1
            ctx.touched(g)
            bad = []
            for c in g.calls(noise=True):
                if c.bb not in reg:
                    continue
                if _locks_pool(c) and not (nm != "self" and False):
                    # acquiring the lock that starts the region is its defining call, not inside it
                    d0 = g.call_defining(int(nm[1:])) if nm != "self" else None
                    if d0 is not None and d0.bb == c.bb:
                        continue
                    bad.append("re-locks the pool: %s at %s" % (norm(c.name), c.where()))
                elif c.res in lockers and c.t.get("resl"):
                    bad.append("calls %s which (transitively) locks the pool, at %s" % (norm(c.name), c.where()))
            for b in reg:
                t = g.term(b)
                if t["k"] == "drop" and any(x in t["pty"] for x in lock_drop_types) and not t["pty"].startswith("&"):
                    # Option<Checkout> / Checkout values dropped under the lock run a Drop that locks
                    bad.append("drops %s (its Drop locks the pool) at %s" % (t["pty"][:60], g.where(b)))
                if t["k"] == "yield":
                    bad.append("awaits while holding the pool lock at %s" % g.where(b))
            ctx.check(not bad, "%s|region-%s" % (g.nkey, nm), "no re-entrant lock, lock-taking drop or await inside the pool-lock region",
                      "; ".join(bad[:3]), g.where())
    ctx.floor("lock-regions", n_regions, 8, "pool-lock regions examined")
    no_try_lock(ctx, facts)
    # lock order inner -> keys: keys is locked only in Pool::checkout
    for g in facts.fns.values():
        for c in g.calls():
            if c.matches(r"lock_api::(mutex::)?Mutex.*::lock$") and "TokenMap<" in (c.t.get("argtys") or [""])[0]:
                ctx.check(g.nkey == "client::pool::Pool::checkout", "keys-lock|%s" % g.nkey, "the key map is locked only inside Pool::checkout (order inner -> keys)",
                          "key map locked in %s" % g.nkey, c.where())
