#!/bin/bash
# usage: refactor_matrix.sh [-j N] [patch files... default /verif/refactors/*.diff]
# Every patch under /verif/refactors is a behaviour-preserving refactoring written by an independent sub-agent that saw only
# the property text: the checks must stay quiet on each (a FIRED line is a false alarm of the machinery).
# Runs a frozen snapshot of the machinery so that editing rules while it runs does not mix versions.
J=4; if [ "$1" = "-j" ]; then J=$2; shift 2; fi
FILES="$@"; [ -z "$FILES" ] && FILES=$(ls /verif/refactors/*.diff /verif/refactors/round2/*.diff /verif/refactors/round3/*.diff /verif/refactors/round4/*.diff 2>/dev/null)
S=/var/tmp/verif-snap-$$
mkdir -p $S && cp -rp /verif/check /verif/hdlint /verif/known_findings.txt /verif/mutants /verif/properties.jsonl /verif/tools $S/ 2>/dev/null
rm -rf $S/hdlint/driver/target
trap 'rm -rf $S' EXIT
export VERIF_ROOT=$S
echo $FILES | tr ' ' '\n' | xargs -P $J -n 1 $S/tools/eval_patch.sh
