"""Type-level witnesses (thorough tier): compile_fail doctests with error codes + compiling twins, run on nightly
against /repo's current tree (`/verif/witness` path-depends on /repo).  A witness that compiles, or a twin that
does not, is a violation; the build itself failing is reported as undecided."""
import os
import re
import subprocess

import engine

WDIR = os.path.join(engine.VERIF, "witness")


def run(ctx, wanted):
    """wanted: {witness struct name: text}"""
    if os.path.realpath(ctx.repo) != "/repo":
        return ctx.ok("witness|skipped", "witnesses path-depend on /repo; skipped for scratch trees")
    env = dict(os.environ)
    env["CARGO_TARGET_DIR"] = os.path.join(engine.CACHE, "target-witness")
    env["CARGO_NET_OFFLINE"] = "true"
    lock = os.path.join(WDIR, "Cargo.lock")
    r = subprocess.run(["cargo", "+nightly", "test", "--doc", "--offline"], cwd=WDIR, env=env, stdout=subprocess.PIPE, stderr=subprocess.STDOUT, text=True)
    res = {}
    for m in re.finditer(r"^test src/lib.rs - (\w+) \(line \d+\)( - compile fail)? \.\.\. (ok|FAILED)", r.stdout, re.M):
        res.setdefault(m.group(1), []).append((bool(m.group(2)), m.group(3)))
    if not res:
        return ctx.undecided("witness|build", "witness crate did not build / run: %s" % r.stdout[-600:])
    for name, text in wanted.items():
        got = res.get(name, [])
        cf = [x for x in got if x[0]]
        tw = [x for x in got if not x[0]]
        ok = len(cf) == 1 and len(tw) == 1 and cf[0][1] == "ok" and tw[0][1] == "ok"
        ctx.check(ok, "witness|%s" % name, "%s (compile_fail with the expected error code: ok; compiling twin: ok)" % text,
                  "%s: witness no longer holds (%s)" % (text, got))
