"""C16: address preference sorting loses nothing and puts the preferred family first (level: other)."""
import itertools
import re
from core import (norm, L_call, L_variant, arms, assigns_to_return, closure_arg_of, sig, const_of, awaits, CallSite, AbsPaths, returned_comparison, L_opt, INT_CMP, VALUE_EQ)
from mir import op_place
import c11
import seqmodel
from core import atoms as core_atoms

META = {
    "thorough_extra": ["client-only", "tls"],
    "level": "other",
    "explanation": "Decided on SocketAddrs::sort_preferred and its callers: (C16.1) permutation - the loop-free tail `match (prefer, v4, v6)` is enumerated exhaustively with a "
                   "variant-set abstract domain (3 x 2 x 2 abstract inputs): on every path a present v4 / v6 is the operand of exactly one push_front and an absent one of none, and "
                   "no other mutator of the list occurs there; both removal orders contain both remove calls; (C16.2) front order - with both present the last push_front takes v4 "
                   "iff prefer == Some(V4), else v6; (C16.3) the scan records an index only on the (family, not-yet-found) edges and the greater index is removed first on the edge "
                   "where the comparison says so; (C16.4) set_port visits every element with the parameter and TcpTransport::connect applies it to the resolver's answer before "
                   "building the attempts, the port deriving from get_host_and_port(uri); (C16.5) sort_preferred is called on happy_eyeballs_timeout.is_some() with "
                   "IpVersion::from_binding(local_v4, local_v6), whose table is checked; (C16.6) consumption order = C11.1."
                   " As built now: C16.1 is the sort table (165 scenarios over the sequence model), C16.6 the candidate-loop and process_all tables (attempts start in list order), C16.7 / from_binding are small tables, C16.4 the port table (the port-applying method of SocketAddrs on lists of 0-3 addresses: same addresses, same order, each with the port).",
    "trusted_base": ["rustc type/borrow checker", "std VecDeque::{remove, push_front, pop_front, iter}"],
    "assumptions": ["VecDeque::remove(idx) returns Some for an index recorded by the scan of the same, unmodified list"],
    "undecided": "index arithmetic beyond the shape checked in C16.3 (values)",
    "level_text": "exhaustive abstract enumeration of the loop-free tail (finite: 12 abstract inputs) plus guard / provenance conditions; a proof of the permutation property would also need the VecDeque index semantics",
}

SP = "client::conn::dns::SocketAddrs::sort_preferred"


def _tuple_site(f):
    for b in sorted(f.live):
        for s in f.stmts(b):
            if s["k"] == "assign" and s["r"]["k"] == "agg" and "tuple" in s["r"] and len(s["r"]["ops"]) == 3:
                tys = [f.locals[op_place(o)["l"]] if op_place(o) else "" for o in s["r"]["ops"]]
                if "IpVersion>" in tys[0] and all("Option<std::net::SocketAddr>" in t for t in tys[1:]):
                    return b, s
    return None, None


def _src_local(f, operand):
    """follow plain copies back to the user variable"""
    p = op_place(operand)
    l = p["l"]
    for _ in range(4):
        d = f.unique_def(l)
        if d and d[0] == "stmt" and d[3]["r"]["k"] == "use" and op_place(d[3]["r"]["o"]) and not op_place(d[3]["r"]["o"])["p"]:
            l = op_place(d[3]["r"]["o"])["l"]
        else:
            break
    return l


def C16_1_2(ctx, facts):
    f = facts.unit(facts.fn(SP))
    ctx.touched(f)
    b0, s0 = _tuple_site(f)
    if s0 is None:
        return ctx.missing("sort_preferred|match-tuple", "the `(prefer, v4, v6)` scrutinee was not found")
    pl, v4l, v6l = (_src_local(f, o) for o in s0["r"]["ops"])
    pushes = [c for c in f.calls() if c.matches(r"VecDeque.*::push_front$")]
    ctx.floor("sort_preferred|push_front", len(pushes), 4, "push_front sites in the tail")
    ap = AbsPaths(f)
    some = lambda tag: ("variant", "Some", ((0, ("const", tag)),))
    none = ("variant", "None", ())
    prefs = {"None": none, "V4": ("variant", "Some", ((0, ("variant", "V4", ())),)), "V6": ("variant", "Some", ((0, ("variant", "V6", ())),))}
    n = 0
    samples = []
    allowed_mut = re.compile(r"VecDeque.*::push_front$")
    for pname, pv in prefs.items():
        for has4 in (True, False):
            for has6 in (True, False):
                n += 1
                st = {pl: pv, v4l: some("v4") if has4 else none, v6l: some("v6") if has6 else none}
                seq = []

                def obs(b, state, seq=seq):
                    t = f.term(b)
                    if t["k"] == "call":
                        c = CallSite(f, b, t)
                        if (c.t.get("argtys") or [""])[0].startswith("&mut std::collections::VecDeque<"):
                            v = ap._eval_operand(state, c.args[1]) if len(c.args) > 1 else None
                            seq.append((norm(c.name).split("::")[-1], v[1] if v and v[0] == "const" else "?"))
                key = "prefer=%s,v4=%s,v6=%s" % (pname, has4, has6)
                try:
                    path = ap.trace(b0, st, observe=obs)
                except AbsPaths.Undecided as e:
                    ctx.undecided("sort_preferred|tail|%s" % key, "tail is not a single feasible path: %s" % e, f.where(b0))
                    continue
                samples.append((key, seq))
                meths = {m for (m, _) in seq}
                ok_mut = meths <= {"push_front"}
                c4 = sum(1 for (_, v) in seq if v == "v4")
                c6 = sum(1 for (_, v) in seq if v == "v6")
                unk = sum(1 for (_, v) in seq if v == "?")
                ok_perm = ok_mut and unk == 0 and c4 == (1 if has4 else 0) and c6 == (1 if has6 else 0)
                ctx.check(ok_perm, "sort_preferred|permutation|%s" % key, "each removed address is pushed back exactly once, nothing else is pushed (%s)" % seq,
                          "addresses lost / duplicated / invented: pushes %s" % seq, f.where(b0))
                if has4 and has6:
                    want = "v4" if pname == "V4" else "v6"
                    ok_front = ok_perm and seq and seq[-1][1] == want
                    ctx.check(ok_front, "sort_preferred|front|%s" % key, "the last push_front (new head) is %s, the other family is second" % want,
                              "head is %s, expected %s" % (seq[-1][1] if seq else None, want), f.where(b0))
    ctx.floor("sort_preferred|tail-cases", n, 12, "abstract inputs of the tail enumerated")
    ctx.assume("C16.1 enumerated tail: %s" % samples[:3])
    # every mutation of the list inside sort_preferred (closures included) removes or inserts exactly one element
    bodies = [f] + [facts.fns[k] for (_, _, _, k) in f.closures_created() if k in facts.fns]
    for g in bodies:
        for c in g.calls():
            t0 = (c.t.get("argtys") or [""])[0]
            if t0.startswith("&mut std::collections::VecDeque<std::net::SocketAddr>"):
                m = norm(c.name).split("::")[-1]
                ctx.check(m in ("remove", "push_front", "iter_mut"), "sort_preferred|mutator|%s" % m, "the list is mutated one element at a time (%s)" % m,
                          "the list is mutated through %s, which can remove / add an unknown number of elements (e.g. every duplicate of an address)" % norm(c.name), c.where())
    # provenance of v4 / v6: the two removal orders both contain both removes
    ats = [c for c in f.calls() if c.matches(r"Option.*::and_then$") and "SocketAddr" in " ".join(c.t.get("targs") or [])]
    ctx.floor("sort_preferred|removals", len(ats), 4, "and_then(|idx| self.0.remove(idx)) sites")
    for c in ats:
        ck = closure_arg_of(f, c, 1)
        body = facts.fns.get(ck) if ck else None
        rm = [x for x in body.calls() if x.matches(r"VecDeque.*::remove$")] if body else []
        ok = len(rm) == 1 and any(r.kind == "arg" and getattr(r, "index", None) == 2 for r in body.roots(rm[0].args[1], through_calls=False))
        ctx.check(ok, "sort_preferred|remove-at-recorded-index", "the closure removes exactly the element at the recorded index", "removal closure is not |idx| self.0.remove(idx)", c.where())


def C16_3(ctx, facts):
    f = facts.unit(facts.fn(SP))
    b0, s0 = _tuple_site(f)
    if s0 is None:
        return ctx.missing("sort_preferred|match-tuple", "scrutinee not found")
    _, v4l, v6l = (_src_local(f, o) for o in s0["r"]["ops"])
    ats = [c for c in f.calls() if c.matches(r"Option.*::and_then$") and "SocketAddr" in " ".join(c.t.get("targs") or [])]
    # index locals: receivers of the and_then calls
    def idx_local(c):
        return _src_local(f, c.args[0])
    def dest_local(c):
        # the user variable (v4 / v6) the result is moved into
        for b in f.reach([c.target]) if c.target is not None else []:
            for s in f.stmts(b):
                if s["k"] == "assign" and s["r"]["k"] == "use" and op_place(s["r"]["o"]) and op_place(s["r"]["o"])["l"] == c.dest["l"] and not s["p"]["p"]:
                    return s["p"]["l"]
        return None
    v4_idx = {idx_local(c) for c in ats if dest_local(c) == v4l}
    v6_idx = {idx_local(c) for c in ats if dest_local(c) == v6l}
    ok = len(v4_idx) == 1 and len(v6_idx) == 1 and v4_idx != v6_idx
    ctx.check(ok, "sort_preferred|index-variables", "v4 is removed at v4_idx and v6 at v6_idx (two distinct index variables)", "index variables: v4<-%s v6<-%s" % (v4_idx, v6_idx), f.where())
    if not ok:
        return
    i4, i6 = v4_idx.pop(), v6_idx.pop()
    # scan: stores to the index variables
    for il, fam, other in ((i4, "V4", i6), (i6, "V6", i4)):
        stores = [(b, s) for b in sorted(f.live) for s in f.stmts(b) if s["k"] == "assign" and s["p"]["l"] == il and not s["p"]["p"] and not (s["r"]["k"] == "agg" and s["r"].get("v") == "None")]
        ctx.check(len(stores) == 1, "sort_preferred|scan-store|%s" % fam, "the %s index is recorded at one place" % fam, "%d stores to the %s index" % (len(stores), fam))
        for (b, s) in stores:
            g1, w1 = f.guarded(b, lambda lab: lab.kind == "variant" and lab.variants == {fam} and (lab.adt or "").endswith("IpVersion"))
            g2, w2 = f.guarded(b, lambda lab: lab.kind == "variant" and lab.variants == {"None"} and (lab.adt or "").endswith("Option"))
            ctx.check(g1 and g2, "sort_preferred|scan-first-of-family|%s" % fam, "an index is recorded only for an address of family %s while none was recorded yet (the first one)" % fam,
                      "index of family %s can be recorded for another family / overwritten" % fam, f.where(b))
            rr = f.roots(s["r"]["o"]) if s["r"]["k"] == "use" else set()
            ctx.check(any(r.kind == "call" and r.site.matches(r"Enumerate.*::next$|Iterator.*::next$") for r in rr), "sort_preferred|scan-index-from-enumerate|%s" % fam,
                      "the recorded value is the enumerate() index", "recorded index roots %s" % sorted(map(repr, sig(rr))), f.where(b))
    # removal order
    isa = [c for c in f.calls() if c.matches(r"Option.*::is_some_and$")]
    ctx.floor("sort_preferred|order-test", len(isa), 1, "zip(..).is_some_and(|(v4, v6)| v4 > v6)")
    for c in isa:
        ck = closure_arg_of(f, c, 1)
        body = facts.fns.get(ck) if ck else None
        cmpx = returned_comparison(body) if body else None
        z = f.call_defining(op_place(c.args[0])["l"]) if op_place(c.args[0]) else None
        okz = z is not None and z.matches(r"Option.*::zip$") and _src_local(f, z.args[0]) == i4 and _src_local(f, z.args[1]) == i6
        okc = False
        if cmpx:
            op, a, b_ = cmpx
            fa = [r for r in body.roots(a, through_calls=False) if r.kind == "arg"]
            fb = [r for r in body.roots(b_, through_calls=False) if r.kind == "arg"]
            first = lambda rs: any(r.desc.endswith(".0") for r in rs)
            second = lambda rs: any(r.desc.endswith(".1") for r in rs)
            okc = (op == "Gt" and first(fa) and second(fb)) or (op == "Lt" and second(fa) and first(fb))
        ctx.check(okz and okc, "sort_preferred|order-test-shape", "the test is v4_idx > v6_idx", "removal-order test is not `v4_idx > v6_idx`", c.where())
        for val, first_idx in ((True, i4), (False, i6)):
            edges = [(a, b) for (a, b, lab) in f.edges() if lab is not None and lab.kind == "bool" and lab.cond.kind == "call" and lab.cond.site.bb == c.bb and lab.value is val]
            for (a, b) in edges:
                region = f.reach([b]) - f.reach([e[1] for e in [(x, y) for (x, y, l2) in f.edges() if l2 is not None and l2.kind == "bool" and l2.cond.kind == "call" and l2.cond.site.bb == c.bb and l2.value is (not val)]])
                seq = sorted([x for x in ats if x.bb in region], key=lambda x: x.bb)
                order = []
                for x in seq:
                    order.append(idx_local(x))
                # dominance order inside the region
                seq2 = sorted(seq, key=lambda x: sum(1 for y in seq if f.dominates(y.bb, x.bb)))
                order = [idx_local(x) for x in seq2]
                want = [first_idx, i6 if first_idx == i4 else i4]
                ctx.check(order == want, "sort_preferred|greater-index-first|%s" % ("v4>v6" if val else "otherwise"),
                          "on this edge the element at the greater index is removed first (%s)" % ("v4 then v6" if val else "v6 then v4"),
                          "removal order on this edge is %s" % order, f.where(a))


def _port_fns(facts):
    """The method(s) of SocketAddrs that apply a port: the ones from which `SocketAddr::set_port` is called (closures included)."""
    out = []
    for g in facts.fns.values():
        if not re.match(r"^client::conn::dns::SocketAddrs::\w+$", g.nkey):
            continue
        bodies = [g] + [h for h in facts.fns.values() if h.key.startswith(g.key + "::{closure")]
        if any(c.matches(r"SocketAddr::set_port$") for b in bodies for c in b.calls()):
            out.append(g)
    return out


def _ported(elem, port):
    while elem is not None and elem[0] == "refval":
        elem = elem[1]
    return ("variant", "WithPort", ((0, elem), (1, port)))


def port_table(ctx, facts, P):
    """The port-applying method as a table over the sequence model: for every list up to three addresses the list afterwards
    (in place through `&mut self`, or the returned one) holds the same addresses in the same order, each with the port set."""
    import inline
    import candloop
    from core import deref_value
    u = inline.inline(facts, P, 3, lambda ck, raw: "::_::" not in ck, expand=True)
    ctx.touched(u)
    by_ref = u.locals[1].startswith("&")
    PORT = ("const", "PORT")

    def o_set_port(ev, st, t, site):
        a0 = seqmodel._arg(ev, st, t, 0)
        port = deref_value(st, seqmodel._arg(ev, st, t, 1))
        if a0 is None or port is None:
            return False
        cur = deref_value(st, a0)
        if cur is None:
            return False
        nv = _ported(cur, port)
        if a0[0] == "elemref":
            l = st.get(-a0[1])
            if l is None or a0[2] >= len(l[1]):
                return False
            st[-a0[1]] = ("list", l[1][:a0[2]] + (nv,) + l[1][a0[2] + 1:])
        elif a0[0] == "refmut":
            st[a0[1]] = nv
        elif a0[0] == "pref":
            ev._store(st, {"l": a0[1], "p": [{"f": f} for f in a0[2]]}, nv)
        else:
            return False
        return seqmodel._set_dest(st, t, seqmodel.tup())
    raw = [(r"SocketAddr::set_port$", o_set_port)] + seqmodel.RAW_ORACLES + candloop.EXTRA_RAW + seqmodel.OPTION_ORACLES
    rows = 0
    for n in range(0, 4):
        key = "%s|port-table|addresses=%d" % (P.nkey.split("::")[-1], n)
        elems = tuple(("const", "a#%d" % i) for i in range(n))
        this = ("variant", "SocketAddrs", ((0, ("seq", 1)),))
        st = {1: ("refmut", 9300) if by_ref else this, 9300: this, 2: PORT, -1: ("list", elems), -1000: ("const", "10")}

        def lists(st_):
            return tuple(sorted((k, v) for k, v in st_.items() if isinstance(k, int) and -1000 < k < 0 and v is not None and v[0] == "list"))

        def selfv(st_):
            return st_.get(9300)
        try:
            outs = AbsPaths(u, limit=8000, raw_oracles=raw, oracles=[INT_CMP, VALUE_EQ]).outcomes(state=st, extra_keys=(lists, selfv))
        except AbsPaths.Undecided as e:
            ctx.undecided(key, str(e))
            continue
        rows += 1
        want = tuple(_ported(e, PORT) for e in elems)
        got = []
        for o in outs:
            ls = dict(o[2][0]) if o[2][0] is not None else {}
            v = o[2][1] if by_ref else o[0]
            sq = dict(v[2]).get(0) if v is not None and v[0] == "variant" and v[1] == "SocketAddrs" else None
            l = ls.get(-sq[1]) if sq is not None and sq[0] == "seq" else None
            got.append(l[1] if l is not None else None)
        show = lambda xs: [None if x is None else ["%s:%s" % (dict(e[2])[0][1], dict(e[2])[1][1]) if e is not None and e[0] == "variant" and e[1] == "WithPort" else (e[1] if e is not None and e[0] == "const" else "?") for e in x] for x in xs]
        ctx.check(got == [want], key, "%d address(es): afterwards the list holds the same addresses in the same order, each with the port set" % n,
                  "%d address(es): the list afterwards can be %s, expected %s (every address, in order, with the port applied)" % (n, show(got), show([want])), u.where())
    ctx.floor("%s|port-table-rows" % P.nkey.split("::")[-1], rows, 4, "list lengths evaluated")
    return by_ref


def _addrs_arg(c):
    """The argument of a call that carries the address list (by its type)."""
    tys = c.t.get("argtys") or []
    idx = [i for i, ty in enumerate(tys) if ty.endswith("SocketAddrs")]
    return c.args[idx[0]] if idx else c.args[1 if len(c.args) > 1 else 0]


def _attempts_builder(facts):
    """The function that turns the resolved addresses into the connecting state: the transport's `connecting` helper, or - when
    that thin wrapper is gone - the constructor of TcpConnecting itself (the sort then sits there)."""
    try:
        return facts.fn("client::conn::transport::tcp::TcpTransport::connecting")
    except KeyError:
        return facts.fn("client::conn::transport::tcp::TcpConnecting::new")


def C16_4_5(ctx, facts):
    import inline
    ps = _port_fns(facts)
    ctx.floor("SocketAddrs|port-method", len(ps), 1, "method of SocketAddrs that applies a port (calls SocketAddr::set_port)")
    if len(ps) != 1:
        return ctx.check(False, "SocketAddrs|port-method|unique", "one method applies the port", "%d methods of SocketAddrs call SocketAddr::set_port: %s" % (len(ps), [g.nkey for g in ps]))
    P = ps[0]
    by_ref = port_table(ctx, facts, P)
    cf = facts.fn("client::conn::transport::tcp::TcpTransport::connect::{closure#0}")
    at = core_atoms()
    f = inline.inline(facts, cf, 3, lambda ck, raw: "::_::" not in ck and norm(ck) != P.nkey and norm(ck) not in at and not (raw.get("impl_trait") and raw["impl_trait"].split("::")[-1] not in ("From", "TryFrom", "Into", "TryInto", "FromStr", "Default")), expand=True)
    ctx.touched(f)
    spc = f.calls(P.nkey)
    cg = f.calls(_attempts_builder(facts).nkey)
    ctx.floor("TcpTransport::connect|set_port", len(spc), 1, "call of the port-applying method")
    ctx.floor("TcpTransport::connect|connecting", len(cg), 1, "connecting call")
    is_resolve = lambda r: r.kind == "call" and (r.site.is_("client::conn::transport::tcp::TcpTransport::resolve") or "resolve" in norm(r.site.name))
    for c in cg:
        if by_ref:
            ok, w = f.must_pass(0, [c.bb], {x.bb for x in spc})
            ctx.check(ok, "TcpTransport::connect|port-before-attempts", "the port is applied to the resolved addresses before the attempts are built", "attempts can be built without the port having been applied", c.where(), f.path_desc(w))
        else:
            r0 = f.roots(_addrs_arg(c), through_calls=False)
            ok = bool(r0) and all(r.kind == "call" and r.site.is_(P.nkey) for r in r0)
            ctx.check(ok, "TcpTransport::connect|port-before-attempts", "the list the attempts are built from is the result of the port-applying method", "the attempts are built from %s" % sorted(map(repr, sig(r0)))[:4], c.where())
        rr = f.roots(_addrs_arg(c), through_calls=True)
        ctx.check(any(is_resolve(r) for r in rr),
                  "TcpTransport::connect|addresses-from-resolver", "the addresses are the resolver's answer", "address roots %s" % sorted(map(repr, sig(rr)))[:5], c.where())
    for c in spc:
        rr = f.roots(c.args[1])
        ctx.check(any(("port" in r.desc) for r in rr if r.kind in ("arg", "upvar")), "TcpTransport::connect|port-arg", "the port applied is connect()'s port argument", "port roots %s" % sorted(map(repr, sig(rr))), c.where())
        if not by_ref:
            ra = f.roots(c.args[0], through_calls=True)
            ctx.check(any(is_resolve(r) for r in ra), "TcpTransport::connect|port-on-resolved", "the port is applied to the resolver's answer", "the port-applying method receives %s" % sorted(map(repr, sig(ra)))[:4], c.where())
    call = facts.unit(facts.method("client::conn::transport::tcp::TcpTransport", "Service", "call"))
    gh = call.calls("client::conn::transport::tcp::get_host_and_port")
    ctx.floor("TcpTransport::call|get_host_and_port", len(gh), 1, "get_host_and_port(uri)")
    for c in gh:
        rr = call.roots(c.args[0])
        ctx.check(any(r.kind == "arg" and r.desc.startswith("req.uri") for r in rr), "TcpTransport::call|port-from-uri", "host and port derive from the request URI", "roots %s" % sorted(map(repr, sig(rr))), c.where())
    # C16.5
    g = facts.unit(_attempts_builder(facts))
    ctx.touched(g)
    so = g.calls(SP)
    ctx.floor("connecting|sort_preferred", len(so), 1, "sort_preferred call")
    for c in so:
        he = lambda rr: any("happy_eyeballs_timeout" in r.desc for r in rr if r.kind == "arg")
        ok, w = g.guarded(c.bb, L_opt(g, True, he))
        ctx.check(ok, "connecting|sort-when-happy-eyeballs", "addresses are sorted by preference when happy eyeballs is enabled", "sort_preferred not tied to happy_eyeballs_timeout.is_some()", c.where(), g.path_desc(w))
        # and the converse: with happy eyeballs enabled nothing else (list length, ...) lets the sort be skipped
        some_edges = g.edges_where(L_opt(g, True, he))
        ctx.floor("connecting|happy-eyeballs-test", len(some_edges), 1, "edges on which happy_eyeballs_timeout is known to be Some")
        for (a, b) in some_edges:
            ok3, w3 = g.must_pass(b, g.returns, {c.bb})
            ctx.check(ok3, "connecting|sort-whenever-happy-eyeballs", "with happy eyeballs enabled the addresses are always sorted, whatever the list looks like",
                      "with happy eyeballs enabled the sort can still be skipped (a further condition guards it): short lists would start in resolver order", c.where(), g.path_desc(w3))
        rr = g.roots(c.args[1], through_calls=False)
        fb = [r.site for r in rr if r.kind == "call" and r.site.is_("client::conn::dns::IpVersion::from_binding")]
        ok2 = bool(fb)
        if ok2:
            a0 = g.roots(fb[0].args[0])
            a1 = g.roots(fb[0].args[1])
            ok2 = any("local_address_ipv4" in r.desc for r in a0 if r.kind == "arg") and any("local_address_ipv6" in r.desc for r in a1 if r.kind == "arg")
        ctx.check(ok2, "connecting|preference-from-binding", "the preference is IpVersion::from_binding(local_address_ipv4, local_address_ipv6)", "preference roots %s" % sorted(map(repr, rr)), c.where())
    fbf = facts.unit(facts.fn("client::conn::dns::IpVersion::from_binding"), expand=True)
    ap = AbsPaths(fbf, raw_oracles=seqmodel.OPTION_ORACLES)
    some = ("variant", "Some", ((0, ("const", "LOCAL_ADDR")),))
    none = ("variant", "None", ())
    want = {(True, True): "V6", (True, False): "V4", (False, True): "V6", (False, False): None}
    for (h4, h6), w in want.items():
        try:
            outs = ap.outcomes(state={1: some if h4 else none, 2: some if h6 else none})
        except AbsPaths.Undecided as e:
            ctx.undecided("from_binding|%s,%s" % (h4, h6), str(e))
            continue
        got = set()
        for (v, _) in outs:
            if v is not None and v[0] == "variant" and v[1] == "None":
                got.add(None)
            elif v is not None and v[0] == "variant" and v[1] == "Some" and dict(v[2]).get(0) is not None and dict(v[2])[0][0] == "variant":
                got.add(dict(v[2])[0][1])
            else:
                got.add("?")
        ctx.check(got == {w}, "from_binding|v4=%s,v6=%s" % (h4, h6), "from_binding(%s, %s) = %s" % (h4, h6, w),
                  "from_binding(%s, %s) = %s, expected %s" % (h4, h6, sorted(map(str, got)), w), fbf.where())


def C16_7(ctx, facts):
    """The family of an address is the variant of the address value itself (SocketAddr::V4 / V6, IpAddr::V4 / V6): decision
    table over the two `IpVersionExt::version` impls, evaluated abstractly.  Delegating to `self.ip()` is the same thing; going
    through a conversion that can change the variant (`to_canonical`, `to_ipv4_mapped`, ...) is not - an IPv4-mapped IPv6
    socket address would be sorted as IPv4."""
    impls = [g for g in facts.fns.values() if g.d.get("name") == "version" and (g.d.get("impl_trait") or "").endswith("IpVersionExt")]
    ctx.floor("IpVersionExt|impls", len(impls), 2, "impls of IpVersionExt::version")
    for g in impls:
        u = facts.unit(g, expand=True)
        ctx.touched(u)
        st_name = norm(g.d.get("impl_self", "")).split("::")[-1]
        for fam in ("V4", "V6"):
            val = ("refval", ("variant", fam, ((0, ("const", "ADDR")),)))
            def is_fam(site, vals):
                v = vals[0] if vals else None
                if v is None or v[0] != "variant" or v[1] not in ("V4", "V6"):
                    return None
                return ("const", "true" if ("V4" if norm(site.name).endswith("is_ipv4") else "V6") == v[1] else "false")
            oracles = [(r"SocketAddr::ip$", lambda site, vals, fam=fam: ("variant", fam, ((0, ("const", "IP")),))),
                       (r"SocketAddr::is_ipv[46]$|IpAddr::is_ipv[46]$", is_fam)]
            try:
                outs = AbsPaths(u, oracles=oracles).outcomes(state={1: val})
            except AbsPaths.Undecided as e:
                ctx.undecided("IpVersionExt::version|%s|%s" % (st_name, fam), str(e), u.where())
                continue
            got = sorted({(v[1] if v is not None and v[0] == "variant" else "?") for (v, _) in outs})
            ctx.check(got == [fam], "IpVersionExt::version|%s|%s" % (st_name, fam), "%s::%s is classified %s" % (st_name, fam, fam),
                      "%s::%s is classified %s (expected %s): the family is not read off the address variant" % (st_name, fam, got, fam), u.where())


def C16_1s(ctx, facts):
    """sort_preferred as a decision table over small lists: for every list of address families up to length 4 and every
    preference (none, IPv4, IPv6) the (expanded) body is evaluated abstractly with the sequence model of seqmodel.py and the
    resulting list is compared with the specification - the first address of each family moves to the front, the preferred
    family first (IPv6 without preference), everything else keeps its order; nothing is lost or duplicated.  This replaces
    the rules that described the *shape* of today's implementation (index scan, removal order, tail match): any
    implementation that computes the same permutation passes, one that does not is reported with the offending list."""
    import itertools
    import seqmodel
    f = facts.unit(facts.fn(SP), expand=True)
    ctx.touched(f)
    rows = bad = 0
    first_bad = None
    # lists of distinct addresses up to length 4, and lists over {a, b} per family up to length 3 in which an address occurs twice
    scen = [(fams, None) for L in range(0, 5) for fams in itertools.product(("V4", "V6"), repeat=L)]
    for L in range(2, 4):
        for tags in itertools.product(("v4#a", "v4#b", "v6#a"), repeat=L):
            if len(set(tags)) < len(tags):
                scen.append((tuple("V4" if t.startswith("v4") else "V6" for t in tags), tags))
    for (fams, tags) in scen:
            for pref in (None, "V4", "V6"):
                elems = tuple(("const", t) for t in tags) if tags is not None else tuple(("const", "%s#%d" % (x.lower(), i)) for i, x in enumerate(fams))
                st = {1: ("refval", ("variant", "SocketAddrs", ((0, ("seq", 1)),))), -1: ("list", elems),
                      2: (("variant", "None", ()) if pref is None else ("variant", "Some", ((0, ("variant", pref, ())),)))}
                try:
                    outs = AbsPaths(f, limit=8000, raw_oracles=seqmodel.RAW_ORACLES, oracles=[INT_CMP, VALUE_EQ]).outcomes(state=st, extra_keys=(-1,))
                except AbsPaths.Undecided as e:
                    ctx.undecided("sort_preferred|row|%s|prefer=%s" % ("".join(x[1] for x in fams) or "-", pref), str(e), f.where())
                    continue
                rows += 1
                got = [[e[1] for e in o[2][0][1]] if (o[2][0] is not None and o[2][0][0] == "list") else None for o in outs]
                exp = seqmodel.expected_sort(list(fams), pref, tags)
                if got != [exp]:
                    bad += 1
                    if first_bad is None:
                        first_bad = (fams, pref, got, exp)
    ctx.floor("sort_preferred|table-rows", rows, 3 * len(scen), "lists x preferences evaluated")
    ctx.check(bad == 0, "sort_preferred|table", "for all %d (list, preference) scenarios the result is the specified permutation" % rows,
              "%d scenario(s) differ from the specification, e.g. families %s with preference %s give %s, expected %s" %
              ((bad,) + (first_bad if first_bad else ("-", "-", "-", "-"))), f.where())


RULES = [
    ("C16.7", C16_7, ["default"]),
    ("C16.1", C16_1s, ["default"]),
    ("C16.4", C16_4_5, ["default"]),
    ("C16.6", c11.C11_1, ["default"]),
]
