"""Mutant self-test (thorough tier): every catalogue entry is applied to a scratch copy of the *current*
/repo tree, the analyser is run on it, and the named rule must fire (or stay silent for benign edits).

A surviving mutant is a weakness of the checker, reported as `missed`; it is never a VIOLATION of the
property.  Scratch copies live under /var/tmp and are removed immediately."""
import importlib.util
import os
import shutil
import subprocess
import sys
import tempfile
import time

HERE = os.path.dirname(os.path.abspath(__file__))
VERIF = os.path.dirname(os.path.dirname(HERE))


def catalogue():
    spec = importlib.util.spec_from_file_location("catalogue", os.path.join(VERIF, "mutants", "catalogue.py"))
    m = importlib.util.module_from_spec(spec)
    spec.loader.exec_module(m)
    return m.MUTANTS


def make_scratch(repo):
    d = tempfile.mkdtemp(prefix="hdlint-mut-", dir="/var/tmp")
    shutil.copytree(os.path.join(repo, "src"), os.path.join(d, "src"))
    for f in ("Cargo.toml", "Cargo.lock"):
        shutil.copy(os.path.join(repo, f), os.path.join(d, f))
    # example / test targets are declared in Cargo.toml with explicit paths: cargo needs them to exist
    for sub in ("examples", "tests", "benches"):
        p = os.path.join(repo, sub)
        if os.path.isdir(p):
            shutil.copytree(p, os.path.join(d, sub))
    if os.path.exists(os.path.join(repo, "README.md")):
        shutil.copy(os.path.join(repo, "README.md"), os.path.join(d, "README.md"))
    return d


def apply_edits(root, edits):
    """edits: list of (file, find, replace). Returns None if applied, else reason."""
    staged = {}
    for (file, find, repl) in edits:
        p = os.path.join(root, file)
        if not os.path.exists(p):
            return "file %s missing" % file
        s = staged.get(p)
        if s is None:
            s = open(p).read()
        n = s.count(find)
        if n != 1:
            return "anchor occurs %d times in %s" % (n, file)
        staged[p] = s.replace(find, repl)
    for p, s in staged.items():
        with open(p, "w") as fh:
            fh.write(s)
    return None


def run_one(m, prop, repo=None):
    import engine
    repo = repo or engine.repo_dir()
    d = make_scratch(repo)
    try:
        why = apply_edits(d, m["edits"])
        if why:
            return {"id": m["id"], "result": "skipped", "why": why}
        try:
            ctx = engine.evaluate(prop, "quick", repo=d, scratch=True)
        except engine.BuildFailed as e:
            return {"id": m["id"], "result": "skipped", "why": "mutant does not compile: %s" % str(e)[-600:]}
        bad = [o for o in ctx.obs if o.status != "discharged"]
        fired = sorted({o.rule for o in bad})
        if m.get("benign"):
            if bad:
                return {"id": m["id"], "result": "false-alarm", "fired": fired, "keys": [o.fkey() for o in bad][:6]}
            return {"id": m["id"], "result": "silent-ok"}
        want = set(m.get("rules") or [])
        if bad and (not want or want & set(fired)):
            return {"id": m["id"], "result": "killed", "fired": fired, "keys": [o.fkey() for o in bad][:6]}
        if bad:
            return {"id": m["id"], "result": "killed-other-rule", "fired": fired, "expected": sorted(want), "keys": [o.fkey() for o in bad][:6]}
        return {"id": m["id"], "result": "missed", "expected": sorted(want)}
    finally:
        shutil.rmtree(d, ignore_errors=True)


def apply_patch(root, patch):
    r = subprocess.run(["patch", "-p1", "--quiet", "--no-backup-if-mismatch", "-i", patch], cwd=root, stdout=subprocess.PIPE, stderr=subprocess.STDOUT, text=True)
    return None if r.returncode == 0 else ("patch does not apply: " + r.stdout[-300:])


def run_patch(patch, prop, benign, pid):
    """A stored independent patch (refactors/: must stay silent; seeded/: must be reported) on a scratch copy of the current tree."""
    import engine
    d = make_scratch(engine.repo_dir())
    try:
        why = apply_patch(d, patch)
        if why:
            return {"id": pid, "result": "skipped", "why": why}
        try:
            ctx = engine.evaluate(prop, "quick", repo=d, scratch=True)
        except engine.BuildFailed as e:
            return {"id": pid, "result": "skipped", "why": "does not compile: %s" % str(e)[-300:]}
        bad = [o for o in ctx.obs if o.status != "discharged"]
        fired = sorted({o.rule for o in bad})
        if benign:
            return {"id": pid, "result": "false-alarm", "fired": fired, "keys": [o.fkey() for o in bad][:6]} if bad else {"id": pid, "result": "silent-ok"}
        return {"id": pid, "result": "killed", "fired": fired, "keys": [o.fkey() for o in bad][:6]} if bad else {"id": pid, "result": "missed", "expected": []}
    finally:
        shutil.rmtree(d, ignore_errors=True)


def corpus(prop):
    """(patch path, benign?, id) of the independent corpora that concern `prop`."""
    import glob
    out = []
    for p in sorted(glob.glob(os.path.join(VERIF, "refactors", "%s-r*.diff" % prop))):
        out.append((p, True, "refactor:" + os.path.basename(p)[:-5]))
    for p in sorted(glob.glob(os.path.join(VERIF, "refactors", "round2", "%s-r*.diff" % prop))):
        out.append((p, True, "refactor2:" + os.path.basename(p)[:-5]))
    for p in sorted(glob.glob(os.path.join(VERIF, "refactors", "round3", "%s-r*.diff" % prop))):
        out.append((p, True, "refactor3:" + os.path.basename(p)[:-5]))
    for p in sorted(glob.glob(os.path.join(VERIF, "refactors", "round4", "%s-r*.diff" % prop))):
        out.append((p, True, "refactor4:" + os.path.basename(p)[:-5]))
    for dname in sorted(glob.glob(os.path.join(VERIF, "seeded", "%s*" % prop))):
        p = os.path.join(dname, "patch.diff")
        if os.path.exists(p):
            out.append((p, False, "seed:" + os.path.basename(dname)))
    return out


def run(prop, only=None):
    t0 = time.time()
    out = {"applied": 0, "killed": 0, "skipped": 0, "missed": 0, "benign_silent": 0, "false_alarms": 0, "results": []}
    for m in catalogue():
        if prop not in m["props"]:
            continue
        if only and m["id"] not in only:
            continue
        r = run_one(m, prop)
        out["results"].append(r)
        k = r["result"]
        if k == "skipped":
            out["skipped"] += 1
        else:
            out["applied"] += 1
            if k in ("killed", "killed-other-rule"):
                out["killed"] += 1
            elif k == "missed":
                out["missed"] += 1
            elif k == "silent-ok":
                out["benign_silent"] += 1
            elif k == "false-alarm":
                out["false_alarms"] += 1
    if not only and not os.environ.get("HDLINT_NO_CORPUS"):
        for (patch, benign, pid) in corpus(prop):
            r = run_patch(patch, prop, benign, pid)
            out["results"].append(r)
            k = r["result"]
            if k == "skipped":
                out["skipped"] += 1
            else:
                out["applied"] += 1
                out[{"killed": "killed", "missed": "missed", "silent-ok": "benign_silent", "false-alarm": "false_alarms"}[k]] += 1
    out["wall_s"] = round(time.time() - t0, 1)
    return out


def main(argv):
    sys.path.insert(0, HERE)
    props = [a for a in argv if a.startswith("C")]
    only = [a for a in argv if not a.startswith("C") and not a.startswith("-")]
    if not props:
        props = sorted({p for m in catalogue() for p in m["props"]})
    rc = 0
    for p in props:
        r = run(p, only or None)
        print("%s selftest: applied=%d killed=%d missed=%d benign-silent=%d false-alarms=%d skipped=%d (%.0fs)" % (
            p, r["applied"], r["killed"], r["missed"], r["benign_silent"], r["false_alarms"], r["skipped"], r["wall_s"]))
        for x in r["results"]:
            if x["result"] not in ("killed", "silent-ok") or "-v" in argv:
                print("   ", x)
        if r["missed"] or r["false_alarms"]:
            rc = 1
    return rc


if __name__ == "__main__":
    sys.exit(main(sys.argv[1:]))
