"""MIR inliner over the fact model.

`inline(facts, fn, depth)` returns a new `Fn` whose body is `fn`'s body with the bodies of crate-local callees
(plain functions and inherent / trait methods that resolved to a crate-local item with a MIR body) spliced in at their
call sites, recursively up to `depth` levels.  Rules that are anchored on an *entry point* and evaluated on its inlined
body see the same control flow and data flow whether a maintainer keeps a step inline, extracts it into a private helper,
or splits a method in two - the property lives in the composition, not in where the lines sit.

Splicing a call `dest = callee(a1..an) -> T`:
  * the callee's locals are appended (renumbered), its blocks appended (renumbered);
  * the call terminator becomes `_p1 = a1; ..; _pn = an; goto callee_bb0`;
  * every `return` of the callee becomes `dest = move _ret; goto T` (or `unreachable` if the call diverges);
  * cleanup blocks and unwind edges are renumbered too but are not part of the normal CFG the rules look at.
Closures are not spliced (they are called through the Fn* traits with a tupled argument); recursion is cut.
"""
import copy

from core import Fn
from mir import is_noise


def _is_place(x):
    return isinstance(x, dict) and isinstance(x.get("l"), int) and isinstance(x.get("p"), list)


def _shift(x, dl):
    """Shift every local number inside a JSON fragment (places, index projections) by dl, in place."""
    if isinstance(x, list):
        for y in x:
            _shift(y, dl)
        return
    if not isinstance(x, dict):
        return
    if _is_place(x):
        x["l"] += dl
        for e in x["p"]:
            if isinstance(e, dict) and "ix" in e:
                e["ix"] += dl
        return
    for k, v in x.items():
        if isinstance(v, (dict, list)):
            _shift(v, dl)


def _retarget(t, db):
    k = t["k"]
    for f in ("t", "u", "im", "drop"):
        if isinstance(t.get(f), int):
            t[f] += db
    if k == "switch":
        t["ts"] = [[v, tb + db] for v, tb in t["ts"]]
        if isinstance(t.get("else"), int):
            t["else"] += db


def inlinable(facts, t, stack, want=None):
    if t.get("k") != "call" or not t.get("resl") or is_noise(t):
        return None
    ck = t.get("res")
    raw = facts.data["fns"].get(ck)
    if raw is None or raw.get("kind") not in ("Fn", "AssocFn"):
        return None
    if ck in stack:
        return None
    if int(raw["argc"]) != len(t.get("args", [])):
        return None
    if want is not None and not want(ck, raw):
        return None
    return ck


def _normal_succ(blocks, b):
    t = blocks[b]["t"]
    k = t["k"]
    if k in ("goto", "drop", "assert", "false_edge", "false_unwind"):
        return [t["t"]]
    if k == "call":
        return [t["t"]] if t.get("t") is not None else []
    if k == "switch":
        return [tb for _, tb in t["ts"]] + [t["else"]]
    if k == "yield":
        return [t["t"]]
    return []


def _const_result(st, ret_local):
    """('variant', name) / ('bool', b) when the statement assigns a literal enum variant / bool to the whole return local."""
    if st.get("k") != "assign" or st["p"]["l"] != ret_local or st["p"]["p"]:
        return None
    r = st["r"]
    if r["k"] == "agg" and "adt" in r and r.get("v") is not None:
        return ("variant", r["v"])
    if r["k"] == "use" and "k" in r["o"] and r["o"]["k"].get("v") in ("true", "false"):
        return ("bool", r["o"]["k"]["v"] == "true")
    return None


def _thread_returns(d, blocks, lo, hi, ret_local, glue, level, stack_of):
    """Jump threading across the spliced return: when a return path of the callee leaves with a literal result
    (`return None`, `Some(x)`, `true`) and the caller immediately branches on that result (`if let Some(..) = helper()`,
    `match helper()`, `if helper()`), the path is connected straight to the matching arm.  Without it every return path of
    the helper would seem to reach every arm of the caller's test (the CFG alone does not relate the two)."""
    T = blocks[glue]["t"]["t"]
    tb = blocks[T]
    tt = tb["t"]
    if tt["k"] != "switch":
        return
    dest = blocks[glue]["s"][0]["p"]
    op = tt["o"].get("m") or tt["o"].get("c")
    if op is None or op["p"]:
        return
    # how is the switch operand computed inside T?
    mode = None
    vars_ = None
    for st in tb["s"]:
        if st.get("k") == "assign" and st["p"]["l"] == dest["l"] and len(st["p"]["p"]) <= len(dest["p"]):
            return  # dest is rewritten before the test
        if st.get("k") == "assign" and st["p"]["l"] == op["l"] and not st["p"]["p"]:
            r = st["r"]
            if r["k"] == "discr" and r["p"] == dest and "vars" in r:
                mode, vars_ = "variant", {name: v for v, name in r["vars"]}
            elif r["k"] == "use" and (r["o"].get("m") == dest or r["o"].get("c") == dest):
                mode = "bool"
            else:
                mode = None
    if mode is None and tt.get("oty") == "bool" and op == dest:
        mode = "bool"
    if mode is None:
        return

    def arm_for(res):
        if res[0] == "variant" and mode == "variant":
            v = vars_.get(res[1])
            if v is None:
                return None
            for vv, tgt in tt["ts"]:
                if vv == v:
                    return tgt
            return tt["else"]
        if res[0] == "bool" and mode == "bool":
            for vv, tgt in tt["ts"]:
                if vv == "0":
                    return tgt if not res[1] else tt["else"]
            return None
        return None

    for a in range(lo, hi):
        blk = blocks[a]
        if blk.get("cleanup"):
            continue
        res = None
        for st in blk["s"]:
            c = _const_result(st, ret_local)
            if c is not None:
                res = c
            elif st.get("k") == "assign" and st["p"]["l"] == ret_local:
                res = None
        if res is None:
            continue
        arm = arm_for(res)
        if arm is None:
            continue
        # linear chain a -> ... -> glue
        chain = []
        cur = a
        ok = True
        for _ in range(64):
            ns = _normal_succ(blocks, cur)
            if len(ns) != 1:
                ok = False
                break
            nxt = ns[0]
            if nxt == glue:
                break
            nb_ = blocks[nxt]
            if nb_["t"]["k"] == "call" and not is_noise(nb_["t"]):
                ok = False
                break
            if any(st.get("k") == "assign" and st["p"]["l"] == ret_local for st in nb_["s"]):
                ok = False
                break
            chain.append(nxt)
            cur = nxt
        else:
            ok = False
        if not ok:
            continue
        # duplicate chain + glue + T (with T's switch resolved) and route block a through the copies
        prev = a
        for src in chain + [glue, T]:
            cp = copy.deepcopy(blocks[src])
            nid = len(blocks)
            blocks.append(cp)
            level[nid] = level.get(src, 0)
            stack_of[nid] = stack_of.get(src, ())
            pt = blocks[prev]["t"]
            pt["t"] = nid
            prev = nid
        blocks[prev]["t"] = {"k": "goto", "t": arm, "l": tt.get("l"), "threaded": True}


def inline(facts, fn, depth=2, want=None):
    d = copy.deepcopy(fn.d)
    blocks = d["blocks"]
    level = {b: 0 for b in range(len(blocks))}
    stack_of = {b: (fn.key,) for b in range(len(blocks))}
    inlined = []
    b = 0
    while b < len(blocks):
        blk = blocks[b]
        t = blk["t"]
        lv = level[b]
        ck = inlinable(facts, t, stack_of[b], want) if lv < depth and not blk.get("cleanup") else None
        if ck is None:
            b += 1
            continue
        raw = copy.deepcopy(facts.data["fns"][ck])
        dl = len(d["locals"])
        db = len(blocks)
        d["locals"] = d["locals"] + raw["locals"]
        if "user" in d and "user" in raw:
            d["user"] = d["user"] + raw["user"]
        for n, p in raw.get("names", []):
            q = copy.deepcopy(p)
            _shift(q, dl)
            d["names"].append([n + "@" + ck.split("::")[-1], q])
        target = t.get("t")
        dest = t["dest"]
        nb = len(raw["blocks"])
        glue = db + nb if target is not None else None
        for i, cb in enumerate(raw["blocks"]):
            _shift(cb["s"], dl)
            ct = cb["t"]
            _shift(ct, dl)
            _retarget(ct, db)
            if ct["k"] == "return":
                if glue is None:
                    cb["t"] = {"k": "unreachable", "l": ct.get("l")}
                else:
                    cb["t"] = {"k": "goto", "t": glue, "l": ct.get("l"), "inl_ret": ck}
            cb["file"] = raw.get("file")
            cb["inl"] = ck
            blocks.append(cb)
            level[db + i] = lv + 1
            stack_of[db + i] = stack_of[b] + (ck,)
        if glue is not None:
            blocks.append({"s": [{"k": "assign", "p": copy.deepcopy(dest), "r": {"k": "use", "o": {"m": {"l": dl, "p": []}}}, "l": t.get("l"), "inl_glue": ck}],
                           "t": {"k": "goto", "t": target, "l": t.get("l")}, "cleanup": False, "inl": ck, "file": blk.get("file")})
            level[glue] = lv
            stack_of[glue] = stack_of[b]
        if glue is not None:
            _thread_returns(d, blocks, db, db + nb, dl, glue, level, stack_of)
        # argument passing + jump
        for i, a in enumerate(t.get("args", [])):
            blk["s"].append({"k": "assign", "p": {"l": dl + 1 + i, "p": []}, "r": {"k": "use", "o": copy.deepcopy(a)}, "l": t.get("l"), "inl_arg": ck})
        blk["t"] = {"k": "goto", "t": db, "l": t.get("l"), "inl_call": ck, "x": t.get("x")}
        inlined.append(ck)
        b += 1
    g = Fn(fn.facts, fn.key, d)
    g.inlined = inlined
    g.origin = fn
    return g
