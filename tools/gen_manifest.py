#!/usr/bin/env python3
"""Regenerate MANIFEST.json from the rule modules' META blocks (single source of truth)."""
import importlib
import json
import os
import sys

VERIF = os.path.dirname(os.path.dirname(os.path.abspath(__file__)))
sys.path.insert(0, os.path.join(VERIF, "hdlint", "rules"))

NOT_YET = "static rule set for this property is not built yet at this commit (see DESIGN.md build order); not claimed until its rules run"

NA = {
    "C01": "behaviour over runtime byte streams and hyper-internal schedules (message matching, body integrity, eventual completion): "
           "no sound static argument in reach bounds these; its four mechanisms are each the whole subject of another property and are "
           "decided there (C02/C05 exclusive use and hand-back, C13 version rewrite, C18/C08 byte transparency); no structural clause of its own remains (DESIGN.md section 5, C01)",
}


def main():
    checks = []
    na = []
    engines_props = []
    for i in range(1, 21):
        pid = "C%02d" % i
        if pid in NA:
            na.append({"property_id": pid, "reason": NA[pid]})
            continue
        try:
            mod = importlib.import_module(pid.lower())
        except ImportError:
            na.append({"property_id": pid, "reason": NOT_YET})
            continue
        m = mod.META
        engines_props.append(pid)
        checks.append({
            "property_id": pid,
            "quick_cmd": "./check %s --tier quick" % pid,
            "thorough_cmd": "./check %s --tier thorough" % pid,
            "evidence_file": "/verif/evidence/%s.json" % pid,
            "replay_cmd_template": "./check %s --replay {path}" % pid,
            "engine": "hdlint",
            "level_claimed": {
                "category": m["level"],
                "text": m.get("level_text", m["explanation"]),
                "design_ref": m.get("design_ref", "DESIGN.md section 5, %s" % pid),
            },
            "level_note": m.get("level_note", "; ".join(m.get("trusted_base", []) + m.get("assumptions", []))),
            "technique": m.get("technique", "static analysis: custom rustc_private MIR fact extractor; rules evaluated on units (entry points with crate-local helpers, closures, "
                                           "awaits and std combinators spliced / expanded into one normal form, jump-threaded): CFG dominance, edge-labelled "
                                           "must-pass-through, def-use slicing, who-may-call, and finite-domain abstract evaluation of behavioural decision tables "
                                           "(abstract sequences / maps / cells / locations, nondeterministic steps, event logs; outcomes compared with a reference "
                                           "written from the property, for process_all as trace equivalence); nothing is executed, no solver is involved"),
        })
    man = {
        "version": 1,
        "setup_cmd": "./check setup",
        "hooks": {
            "guard": "hyperdriver_verif",
            "enable": "none needed: the compiler driver reads private items directly; no source hook exists in /repo",
            "baseline_off_cmd": "cd /repo && cargo test --workspace --no-fail-fast --offline",
            "source_commits": [],
            "add_only": True,
        },
        "engines": [{
            "name": "hdlint",
            "path": "/verif/hdlint",
            "serves_properties": engines_props,
            "kind_free_text": "static analysis: rustc_private driver dumping mir_built facts (resolved callees, CFG, types, impl tables) of /repo's "
                              "current tree per feature configuration + Python rule engine (MIR splicer / normaliser for units, dominance, edge-labelled "
                              "must-pass-through, backward slicing, call-graph reachability, who-may-call, sibling agreement, type-table queries, "
                              "finite-domain abstract evaluation of behavioural decision tables over abstract containers, cells and locations)",
        }],
        "checks": checks,
        "not_applicable": na,
        "notes": "All checks are static: they compile /repo's working tree with a custom rustc driver (cargo +nightly check, offline) and never run hyperdriver code. "
                 "Exit 2 without a VIOLATION line means /repo does not compile. Known findings: /verif/known_findings.txt.",
    }
    with open(os.path.join(VERIF, "MANIFEST.json"), "w") as fh:
        json.dump(man, fh, indent=1)
        fh.write("\n")
    print("MANIFEST.json: %d checks, %d not_applicable" % (len(checks), len(na)))


if __name__ == "__main__":
    main()
