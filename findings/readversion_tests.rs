    // ---- demonstration for F4 (C08): preface split across two reads.  Appended inside `mod tests` of
    // src/server/conn/auto.rs; run with `cargo test --offline --lib verif_`.
    #[tokio::test]
    async fn verif_f4_fragmented_preface_is_http2() {
        let (io, mut srv) = tokio::io::duplex(1024);
        let mut read_version = std::pin::pin!(ReadVersion::new(TokioIo::new(io)));

        srv.write_all(&HTTP2_PREFIX[..10]).await.unwrap();
        srv.flush().await.unwrap();
        // first poll sees only the first 10 bytes
        let first = futures_util::poll!(&mut read_version);
        if let std::task::Poll::Ready(Ok((version, _))) = &first {
            assert_eq!(*version, HttpProtocol::Http2, "F4: fragmented HTTP/2 preface classified as HTTP/1");
        }
        srv.write_all(&HTTP2_PREFIX[10..]).await.unwrap();
        srv.flush().await.unwrap();
        let (version, rewind) = match first {
            std::task::Poll::Ready(r) => r.unwrap(),
            std::task::Poll::Pending => read_version.await.unwrap(),
        };
        assert_eq!(version, HttpProtocol::Http2);
        let (_, prefix) = rewind.into_parts();
        assert_eq!(prefix.as_deref(), Some(HTTP2_PREFIX));
    }

    #[tokio::test]
    async fn verif_f4_fragmented_http1_is_http1() {
        let (io, mut srv) = tokio::io::duplex(1024);
        let mut read_version = std::pin::pin!(ReadVersion::new(TokioIo::new(io)));
        srv.write_all(b"PRI * HT").await.unwrap();
        srv.flush().await.unwrap();
        assert!(futures_util::poll!(&mut read_version).is_pending());
        srv.write_all(b"TP/1.1\r\n\r\n").await.unwrap();
        srv.flush().await.unwrap();
        let (version, rewind) = read_version.await.unwrap();
        assert_eq!(version, HttpProtocol::Http1);
        let (_, prefix) = rewind.into_parts();
        assert_eq!(prefix.as_deref(), Some(b"PRI * HTTP/1.1\r\n\r\n".as_slice()));
    }
