"""E-PANIC: panic-site inventory, reachability from entry points, discharge (DESIGN.md 4.1)."""
import re
from core import norm, CallSite, is_transparent, sig, L_call, L_variant
from mir import op_place, is_noise

PANIC_CALLEE_PATTERNS = [
    (r"^core::panicking::(panic|panic_fmt|panic_display|panic_explicit|panic_nounwind|unreachable_display|assert_failed|assert_matches_failed|panic_str_2015|panic_const::.*)$", "panic"),
    (r"^std::rt::(begin_panic|panic_fmt|panic_display)$", "panic"),
    (r"^(core|std)::option::Option::(unwrap|expect)$", "option-unwrap"),
    (r"^(core|std)::result::Result::(unwrap|expect|unwrap_err|expect_err)$", "result-unwrap"),
    (r"::from_static$", "from_static"),
    (r"^core::slice::index::<impl (core|std)::ops::Index(Mut)?<.*> for \[.*\]>::index(_mut)?$", "slice-index"),
    (r"^<?(alloc|std)::(vec::Vec|collections::VecDeque|collections::vec_deque::VecDeque|collections::HashMap|collections::hash::map::HashMap|collections::BTreeMap)\b.*(Index|IndexMut).*::index(_mut)?$", "container-index"),
    (r"^core::str::traits::<impl (core|std)::ops::Index.*for str>::index$", "str-index"),
    (r"^<std::time::Instant as (core|std)::ops::(Sub|Add)(Assign)?<std::time::Duration>>::(sub|add)(_assign)?$", "instant-arith"),
    (r"^<(core|std)::time::Duration as (core|std)::ops::(Div|Mul|Sub|Add)(Assign)?(<.*>)?>::(div|mul|sub|add)(_assign)?$", "duration-arith"),
    (r"^(core|std)::cell::RefCell::(borrow|borrow_mut)$", "refcell-borrow"),
    (r"::split_at(_mut)?$", "split_at"),
    (r"^bytes::.*::(advance|split_to|split_off|slice|truncate_front)$", "bytes-range"),
    (r"^core::slice::<impl \[.*\]>::(copy_from_slice|clone_from_slice|split_at|split_at_mut|swap|chunks|chunks_exact|chunks_mut|windows|rotate_left|rotate_right|copy_within|select_nth_unstable)$", "slice-precondition"),
    (r"^(alloc|std)::vec::Vec::<.*>::(remove|swap_remove|insert|drain|split_off|splice|extend_from_within)$|^(alloc|std)::vec::Vec::(remove|swap_remove|insert|drain|split_off|splice|extend_from_within)$", "vec-index"),
    (r"^(alloc|std)::string::String::(remove|insert|insert_str|truncate|split_off|drain|replace_range)$", "string-index"),
    (r"^core::str::<impl str>::(split_at|split_at_mut)$", "str-index"),
    (r"^(core|std)::time::Duration::(from_secs_f64|from_secs_f32|mul_f64|mul_f32|div_f64|div_f32)$", "duration-arith"),
    (r"^core::iter::.*::step_by$|Iterator::step_by$", "iter-precondition"),
    (r"^core::num::<impl [ui](8|16|32|64|128|size)>::(pow|abs|next_power_of_two|div_euclid|rem_euclid|ilog|ilog2|ilog10|isqrt)$", "int-precondition"),
    (r"^core::char::(from_digit|methods::<impl char>::from_digit|methods::<impl char>::to_digit)$", "char-radix"),
    (r"::unwrap_unchecked$|^core::(slice|str)::.*::get_unchecked(_mut)?$|::from_utf8_unchecked$", "unchecked"),
    (r"^(core|std)::(alloc|boxed)::.*::(assume_init)$", "unchecked"),
    (r"^tokio::task::spawn::spawn$|^tokio::spawn$", None),  # spawn panics outside a runtime: environment, not request data
]

ASSERT_KINDS = {"Overflow", "OverflowNeg", "BoundsCheck", "DivisionByZero", "RemainderByZero", "MisalignedPointerDereference", "NullPointerDereference"}


def callee_full(c):
    return c.res or c.decl or ""


def classify_call(c):
    for cand in (c.res, c.decl):
        if not cand:
            continue
        for pat, kind in PANIC_CALLEE_PATTERNS:
            if re.search(pat, cand):
                return kind
            n = norm(cand)
            if re.search(pat, n):
                return kind
    return None


def literal_message(fn, c):
    """String literal passed to expect(..) / panic!(..) if any."""
    for a in c.args:
        k = a.get("k")
        if k and str(k.get("v", "")).startswith('"'):
            return k["v"].strip('"')
    if len(c.args) >= 2:
        # expect(self, msg): the message is the second argument; never look into the receiver (its own history may
        # contain the message of an earlier expect on the same chain)
        for a in c.args[1:]:
            if op_place(a) is not None:
                for r in fn.roots(a, through_calls=False, max_nodes=60):
                    if r.kind == "const" and str(r.desc).startswith('"'):
                        return str(r.desc).strip('"')
        return ""
    for a in c.args:
        p = op_place(a)
        if p is not None:
            for r in fn.roots(a, through_calls=True, max_nodes=60):
                if r.kind == "const" and str(r.desc).startswith('"'):
                    return str(r.desc).strip('"')
    return ""


def _named(nkey):
    return re.sub(r"(::\{closure#\d+\})+$", "", nkey)


def owner_name(fn, depth=4, use_atoms=True):
    """Name under which a panic site / unsafe block is filed: the named function containing it; and when that function is a
    private helper all of whose callers resolve to one and the same owner (and no rule names it), that owner - transitively.
    Extracting a step into a helper, renaming the helper, or moving the step into / out of a closure keeps the key."""
    facts = fn.facts
    from core import atoms

    def resolve(name, d, seen):
        if d <= 0 or name in seen:
            return name
        cands = facts.by_norm.get(name) or []
        g = cands[0] if len(cands) == 1 else None
        if g is None or g.d.get("impl_trait") or g.d.get("reachable") or (use_atoms and name in atoms()):
            return name
        callers = {_named(c.fn.nkey) for c in facts.call_sites_of(name)} - {name}
        if not callers:
            return name
        owners = {resolve(c, d - 1, seen | {name}) for c in callers}
        return owners.pop() if len(owners) == 1 else name

    return resolve(_named(fn.nkey), depth, frozenset())


def owner_chain(fn, depth=4):
    """The named function containing `fn`'s code and, while each has exactly one calling function, its callers in turn."""
    facts = fn.facts
    name = _named(fn.nkey)
    out = [name]
    for _ in range(depth):
        callers = {_named(c.fn.nkey) for c in facts.call_sites_of(name)} - {name}
        if len(callers) != 1:
            break
        name = callers.pop()
        if name in out:
            break
        out.append(name)
    return out


class Site:
    def __init__(self, fn, bb, kind, callee, msg, macro, noise):
        self.fn = fn
        self.bb = bb
        self.kind = kind
        self.callee = callee
        self.msg = msg
        self.macro = macro
        self.noise = noise

    def producer(self):
        """For unwrap / expect: the call that produced the unwrapped value (last two path segments)."""
        if self.kind not in ("option-unwrap", "result-unwrap"):
            return None
        t = self.fn.term(self.bb)
        c = CallSite(self.fn, self.bb, t)
        p = op_place(c.args[0]) if c.args else None
        d = self.fn.call_defining(p["l"]) if p is not None else None
        if d is None:
            return "?"
        n = norm(d.name)
        n = re.sub(r"^<(.*) as (.*)>::", lambda m: m.group(1).split("::")[-1] + "::", n)
        return "::".join(n.split("::")[-2:])

    def key(self):
        m = (self.msg or "")[:48]
        # closures and async blocks are attributed to the named function that contains them: moving a step into or out
        # of a closure (combinator <-> match) does not rename the site
        base = owner_name(self.fn)
        k = "%s|%s|%s%s" % (base, self.kind, norm(self.callee).split("::")[-1] if self.callee else "", ("|" + m) if m else "")
        pr = self.producer()
        if pr is not None:
            k += "|<=" + pr
        return k

    def where(self):
        return self.fn.where(self.bb)


def macro_of(x):
    for e in (x.get("x") or []):
        if e.startswith("macro:Bang:"):
            name = e.split(":", 2)[2]
            short = name.split("::")[-1]
            if short in ("panic", "unreachable", "assert", "debug_assert", "assert_eq", "assert_ne", "debug_assert_eq", "debug_assert_ne", "todo", "unimplemented"):
                return short
    return None


def in_debug_assert(x):
    for e in (x.get("x") or []):
        if e.startswith("macro:Bang:") and e.split(":", 2)[2].split("::")[-1] in ("debug_assert", "debug_assert_eq", "debug_assert_ne"):
            return True
    return False


REQUEST_TYPES = re.compile(r"http::(uri::)?Uri|http::(request::)?Request|http::request::Parts|HeaderMap|HeaderValue|http::(method::)?Method|http::(version::)?Version|"
                           r"Authority|ExecuteRequest|&(mut )?str|std::string::String|PathAndQuery|http::uri::Scheme|\[u8\]|bytes::Bytes")


def _assert_on_request_data(f, bb):
    """The assertion guarding the panic block `bb` tests something derived from a request-carrying parameter."""
    seen = set()
    work = [bb]
    conds = []
    while work and len(seen) < 64:
        b = work.pop()
        if b in seen:
            continue
        seen.add(b)
        for p in f.pred[b]:
            t = f.term(p)
            if t["k"] == "switch":
                if t.get("oty") == "bool" and not any(e.endswith("debug_assertions") or "cfg" in e for e in (t.get("x") or [])):
                    conds.append((p, t["o"]))
            else:
                work.append(p)
    for (p, o) in conds:
        for r in f.roots(o, max_nodes=400):
            if r.kind == "arg":
                ty = f.locals[r.index] if getattr(r, "index", None) is not None and r.index < len(f.locals) else ""
                fields = getattr(r, "fields", ()) or ()
                if REQUEST_TYPES.search(ty) and not (r.index == 1 and "self" in (f.local_name(1) or "") and fields):
                    return True
            if r.kind == "unknown":
                return True
    return not conds


def third_party_expansion(x):
    """Expansion of a macro defined outside std and outside this crate (tracing, pin_project, thiserror, ouroboros...)."""
    for e in (x.get("x") or []):
        if e.startswith("macro:"):
            name = e.split(":", 2)[2]
            root = name.split("::")[0]
            if root in ("tracing", "pin_project", "pin_project_lite", "thiserror", "ouroboros", "tokio", "futures_util", "futures_core", "static_assertions"):
                return root
    return None


def inventory(facts):
    sites = []
    for f in facts.fns.values():
        for b in sorted(f.live):
            t = f.term(b)
            if t["k"] == "call":
                c = CallSite(f, b, t)
                kind = classify_call(c)
                if kind is None:
                    continue
                tp = third_party_expansion(t)
                mac = macro_of(t)
                # format_args / panic plumbing inside std's own panic! expansion is reported once as the macro site
                sites.append(Site(f, b, kind, callee_full(c), literal_message(f, c) if kind in ("option-unwrap", "result-unwrap", "panic") else "", mac, tp))
            elif t["k"] == "assert":
                if t["msg"] in ASSERT_KINDS:
                    sites.append(Site(f, b, "assert-" + t["msg"], None, "", macro_of(t), third_party_expansion(t)))
    return sites


# ---------------------------------------------------------------- automatic discharges

def auto_discharge(facts, s):
    f = s.fn
    t = f.term(s.bb)
    if s.noise:
        return ("third-party-macro", "inside an expansion of a %s macro: independent of request values (listed once per macro)" % s.noise)
    if s.kind == "assert-Overflow":
        return ("debug-overflow-check", "integer overflow check: compiled only with overflow-checks (debug profile); wrapping in release builds - not a release-profile panic (assumption, listed)")
    if in_debug_assert(t) and not _assert_on_request_data(f, s.bb):
        return ("debug-assertion", "debug_assert! over internal state only (its condition has no root in a request-carrying parameter: URI, request, headers, strings): "
                "taken as the maintainers' statement of an internal invariant (assumption, listed in the evidence); an assertion over request data is *not* discharged this way")
    if t["k"] != "call":
        return None
    c = CallSite(f, s.bb, t)
    if s.kind in ("option-unwrap",):
        recv = c.args[0]
        rr = f.roots(recv, through_calls=True, max_nodes=300)
        srcs = [r for r in rr if r.kind == "call" and not is_transparent(r.site)]
        # state-option: take()/as_mut()/as_ref()/as_pin_mut()/as_deref() directly on a field of self
        names = {norm(r.site.name).split("::")[-1] for r in srcs}
        self_field = any(r.kind == "arg" and getattr(r, "index", None) == 1 and getattr(r, "fields", ()) for r in rr)
        if srcs and names <= {"take", "as_mut", "as_ref", "as_pin_mut", "as_deref", "as_deref_mut", "replace"} and self_field and \
                not any(r.kind == "arg" and getattr(r, "index", None) != 1 for r in rr):
            return ("state-option", "unwraps an Option field of the future/service itself (protocol state, poll-after-completion contract), not request content")
        # constant-input: NonZero::new(literal)
        if srcs and all(re.search(r"NonZero.*::new$|num::nonzero::NonZero.*::new$", norm(r.site.name)) for r in srcs) and \
                all(all(a.get("k") is not None for a in r.site.args) for r in srcs):
            return ("constant-input", "unwrap of NonZero::new(<literal>)")
    if s.kind in ("option-unwrap",):
        # `map.get(_mut)(&k).expect(..)` where every path to the lookup passes an `insert(k, ..)` into the same map or the true edge
        # of `contains_key(&k)` on it, and nothing that removes entries from that map can come in between
        def msig(o):
            return frozenset((r.kind, r.desc) for r in f.roots(o, through_calls=False, max_nodes=100) if r.kind in ("arg", "upvar"))
        gets = [r.site for r in f.roots(c.args[0], through_calls=False, max_nodes=100) if r.kind == "call" and r.site.matches(r"HashMap.*::get(_mut)?$|BTreeMap.*::get(_mut)?$")]
        if len(gets) == 1 and len(gets[0].args) == 2:
            g = gets[0]
            m, k = msig(g.args[0]), msig(g.args[1])
            same = lambda x, i, want: len(x.args) > i and msig(x.args[i]) == want
            if m and k:
                ins = [x for x in f.calls() if x.matches(r"(HashMap|BTreeMap).*::insert$") and same(x, 0, m) and same(x, 1, k)]
                kills = [x for x in f.calls() if x.matches(r"(HashMap|BTreeMap).*::(remove|remove_entry|clear|retain|drain|extract_if)$|mem::(take|replace|swap)$") and same(x, 0, m)]
                has = lambda lab: lab.kind == "bool" and lab.value is True and lab.cond.kind == "call" and lab.cond.site.matches(r"(HashMap|BTreeMap).*::contains_key$") and \
                    same(lab.cond.site, 0, m) and same(lab.cond.site, 1, k)
                good = {b2 for (a, b2) in f.edges_where(has)} | {x.bb for x in ins}
                if good:
                    ok, _w = f.must_pass(0, [g.bb], good)
                    between = [x for x in kills if any(f.path(gb, [x.bb]) is not None for gb in good) and f.path(x.bb, [g.bb]) is not None]
                    if ok and not between:
                        return ("key-ensured", "lookup of a key that every path has just inserted into the same map or found present (contains_key), with no removal in between")
    if s.kind == "vec-index" and norm(c.name).endswith("::remove") and len(c.args) == 2 and c.args[1].get("k") is not None and str(c.args[1]["k"].get("v", "")).startswith("0"):
        # `v.remove(0)` on the edge where the same vector was just found non-empty (`while !v.is_empty()`, `if v.len() > 0`)
        def rsig(o):
            return {(r.kind, r.desc if r.kind != "call" else ("call", r.site.bb)) for r in f.roots(o, through_calls=False, max_nodes=100) if r.kind in ("arg", "upvar", "call")}
        rv = rsig(c.args[0])

        def nonempty(lab):
            if lab.kind == "bool" and lab.value is False and lab.cond.kind == "call" and lab.cond.site.matches(r"(vec::Vec|VecDeque).*::is_empty$"):
                ro = rsig(lab.cond.site.args[0])
                return bool(rv) and rv == ro
            return False
        ok, _w = f.guarded(s.bb, nonempty)
        if ok and rv:
            return ("guarded-index", "remove(0) on the not-empty edge of the same vector's is_empty() test")
    if s.kind == "from_static":
        if all(a.get("k") is not None or _const_rooted(f, a) for a in c.args):
            return ("constant-input", "from_static on a string literal")
    return None


def _const_rooted(f, a):
    rr = f.roots(a, through_calls=False, max_nodes=50)
    return bool(rr) and all(r.kind == "const" for r in rr)


# ---------------------------------------------------------------- engine

def run(ctx, facts, entries, table, label, min_sites=1, scope=None):
    """entries: list of fn keys; table: dict site-key-regex -> (discharge kind, reason, optional guard checker)."""
    reach, prev = facts.reach(entries)
    sites = [s for s in inventory(facts) if s.fn.key in reach and (scope is None or scope(s.fn))]
    ctx.stats["call_sites_examined"] += len(sites)
    n_auto = n_tab = n_bad = 0
    seen = set()
    per_macro = {}
    for s in sites:
        ctx.touched(s.fn)
        k = s.key()
        if s.noise:
            per_macro[s.noise] = per_macro.get(s.noise, 0) + 1
            continue
        dup = k in seen
        seen.add(k)
        a = auto_discharge(facts, s)
        if a is not None:
            n_auto += 1
            if a[0] == "debug-assertion" and not dup:
                ctx.assume("debug assertion at %s (%s) is assumed to hold / compiled out in release builds" % (s.where(), s.fn.nkey))
            if not dup:
                ctx.ok(k, "%s: %s" % a, s.where(), kind=a[0])
            continue
        hit = None
        for pat, entry in table.items():
            if re.search(pat, k):
                hit = entry
                break
        if hit is not None:
            kind, reason = hit[0], hit[1]
            guard = hit[2] if len(hit) > 2 else None
            if guard is not None:
                ok, why = guard(facts, s)
                if not ok:
                    n_bad += 1
                    ctx.bad(k, "discharge `%s` no longer holds: %s" % (kind, why), s.where())
                    continue
            n_tab += 1
            if not dup:
                ctx.ok(k, "%s: %s" % (kind, reason), s.where(), kind=kind)
            continue
        n_bad += 1
        chain = facts.chain(prev, s.fn.key)
        if not dup:
            ctx.bad(k, "reachable panic site (%s%s) is not discharged; entry %s" % (s.kind, (" \"%s\"" % s.msg) if s.msg else "", norm(chain[0])),
                    s.where(), " -> ".join(norm(x) for x in chain[-6:]))
    for m, n in sorted(per_macro.items()):
        ctx.ok("%s|macro-expansions|%s" % (label, m), "%d panic-capable sites inside %s macro expansions (third-party macro bodies, independent of request values)" % (n, m), kind="third-party-macro")
    ctx.floor("%s|reachable-functions" % label, len(reach), 3, "functions reachable from the entry set")
    ctx.floor("%s|sites" % label, len(sites), min_sites, "panic-capable sites in reachable functions")
    return {"reachable_functions": len(reach), "sites": len(sites), "auto": n_auto, "table": n_tab, "undischarged": n_bad}


CLIPPY_LINTS = ("unwrap_used", "expect_used", "panic", "unreachable", "indexing_slicing", "unimplemented", "todo")


def clippy_crosscheck(ctx):
    """Cross-reference only (never the verdict): every site clippy's restriction lints report in the library
    must be present in the MIR inventory (inventory ⊇ clippy)."""
    import json
    import os
    import subprocess
    import engine
    env = dict(os.environ)
    env["CARGO_TARGET_DIR"] = os.path.join(engine.CACHE, "target-clippy")
    env["CARGO_NET_OFFLINE"] = "true"
    # force a re-run of the lint pass on the member crate
    fp = os.path.join(env["CARGO_TARGET_DIR"], "debug", ".fingerprint")
    if os.path.isdir(fp):
        for d in os.listdir(fp):
            if d.startswith("hyperdriver-"):
                subprocess.run(["rm", "-rf", os.path.join(fp, d)])
    cmd = ["cargo", "+nightly", "clippy", "--offline", "--lib", "--message-format=json", "--"] + sum([["-W", "clippy::" + l] for l in CLIPPY_LINTS], [])
    r = subprocess.run(cmd, cwd=ctx.repo, env=env, stdout=subprocess.PIPE, stderr=subprocess.DEVNULL, text=True)
    seen = set()
    for line in r.stdout.splitlines():
        try:
            m = json.loads(line)
        except ValueError:
            continue
        if m.get("reason") != "compiler-message":
            continue
        msg = m["message"]
        code = (msg.get("code") or {}).get("code") or ""
        if code.replace("clippy::", "") not in CLIPPY_LINTS:
            continue
        for sp in msg["spans"]:
            if sp.get("is_primary"):
                seen.add((code, sp["file_name"], sp["line_start"], sp["line_end"]))
    if not seen:
        return ctx.undecided("clippy|ran", "clippy produced no restriction-lint output (exit %s)" % r.returncode)
    facts = ctx.facts("default")
    inv = set()
    for s in inventory(facts):
        w = s.where()
        f, _, l = w.rpartition(":")
        inv.add((f, int(l) if l.isdigit() else -1))
    missing = []
    for (code, f, l0, l1) in sorted(seen):
        if not any((f, l) in inv for l in range(l0, l1 + 1)):
            missing.append("%s %s:%d" % (code, f, l0))
    ctx.check(not missing, "clippy|inventory-superset", "the MIR panic inventory contains every one of the %d sites clippy's restriction lints report" % len(seen),
              "sites reported by clippy but absent from the inventory: %s" % missing[:8])
