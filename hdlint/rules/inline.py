"""MIR inliner over the fact model.

`inline(facts, fn, depth)` returns a new `Fn` whose body is `fn`'s body with the bodies of crate-local callees
(plain functions and inherent / trait methods that resolved to a crate-local item with a MIR body) spliced in at their
call sites, recursively up to `depth` levels.  Rules that are anchored on an *entry point* and evaluated on its inlined
body see the same control flow and data flow whether a maintainer keeps a step inline, extracts it into a private helper,
or splits a method in two - the property lives in the composition, not in where the lines sit.

Splicing a call `dest = callee(a1..an) -> T`:
  * the callee's locals are appended (renumbered), its blocks appended (renumbered);
  * the call terminator becomes `_p1 = a1; ..; _pn = an; goto callee_bb0`;
  * every `return` of the callee becomes `dest = move _ret; goto T` (or `unreachable` if the call diverges);
  * cleanup blocks and unwind edges are renumbered too but are not part of the normal CFG the rules look at.
Closures are not spliced (they are called through the Fn* traits with a tupled argument); recursion is cut.
"""
import copy

from core import Fn
from mir import is_noise


def _is_place(x):
    return isinstance(x, dict) and isinstance(x.get("l"), int) and isinstance(x.get("p"), list)


def _shift(x, dl):
    """Shift every local number inside a JSON fragment (places, index projections) by dl, in place."""
    if isinstance(x, list):
        for y in x:
            _shift(y, dl)
        return
    if not isinstance(x, dict):
        return
    if _is_place(x):
        x["l"] += dl
        for e in x["p"]:
            if isinstance(e, dict) and "ix" in e:
                e["ix"] += dl
        return
    for k, v in x.items():
        if isinstance(v, (dict, list)):
            _shift(v, dl)


def _retarget(t, db):
    k = t["k"]
    for f in ("t", "u", "im", "drop"):
        if isinstance(t.get(f), int):
            t[f] += db
    if k == "switch":
        t["ts"] = [[v, tb + db] for v, tb in t["ts"]]
        if isinstance(t.get("else"), int):
            t["else"] += db


def inlinable(facts, t, stack, want=None):
    if t.get("k") != "call" or not t.get("resl") or is_noise(t):
        return None
    ck = t.get("res")
    raw = facts.data["fns"].get(ck)
    if raw is None or raw.get("kind") not in ("Fn", "AssocFn"):
        return None
    if ck in stack:
        return None
    if int(raw["argc"]) != len(t.get("args", [])):
        return None
    if want is not None and not want(ck, raw):
        return None
    return ck


def inline(facts, fn, depth=2, want=None):
    d = copy.deepcopy(fn.d)
    blocks = d["blocks"]
    level = {b: 0 for b in range(len(blocks))}
    stack_of = {b: (fn.key,) for b in range(len(blocks))}
    inlined = []
    b = 0
    while b < len(blocks):
        blk = blocks[b]
        t = blk["t"]
        lv = level[b]
        ck = inlinable(facts, t, stack_of[b], want) if lv < depth and not blk.get("cleanup") else None
        if ck is None:
            b += 1
            continue
        raw = copy.deepcopy(facts.data["fns"][ck])
        dl = len(d["locals"])
        db = len(blocks)
        d["locals"] = d["locals"] + raw["locals"]
        if "user" in d and "user" in raw:
            d["user"] = d["user"] + raw["user"]
        for n, p in raw.get("names", []):
            q = copy.deepcopy(p)
            _shift(q, dl)
            d["names"].append([n + "@" + ck.split("::")[-1], q])
        target = t.get("t")
        dest = t["dest"]
        nb = len(raw["blocks"])
        glue = db + nb if target is not None else None
        for i, cb in enumerate(raw["blocks"]):
            _shift(cb["s"], dl)
            ct = cb["t"]
            _shift(ct, dl)
            _retarget(ct, db)
            if ct["k"] == "return":
                if glue is None:
                    cb["t"] = {"k": "unreachable", "l": ct.get("l")}
                else:
                    cb["t"] = {"k": "goto", "t": glue, "l": ct.get("l"), "inl_ret": ck}
            cb["file"] = raw.get("file")
            cb["inl"] = ck
            blocks.append(cb)
            level[db + i] = lv + 1
            stack_of[db + i] = stack_of[b] + (ck,)
        if glue is not None:
            blocks.append({"s": [{"k": "assign", "p": copy.deepcopy(dest), "r": {"k": "use", "o": {"m": {"l": dl, "p": []}}}, "l": t.get("l"), "inl_glue": ck}],
                           "t": {"k": "goto", "t": target, "l": t.get("l")}, "cleanup": False, "inl": ck, "file": blk.get("file")})
            level[glue] = lv
            stack_of[glue] = stack_of[b]
        # argument passing + jump
        for i, a in enumerate(t.get("args", [])):
            blk["s"].append({"k": "assign", "p": {"l": dl + 1 + i, "p": []}, "r": {"k": "use", "o": copy.deepcopy(a)}, "l": t.get("l"), "inl_arg": ck})
        blk["t"] = {"k": "goto", "t": db, "l": t.get("l"), "inl_call": ck, "x": t.get("x")}
        inlined.append(ck)
        b += 1
    g = Fn(fn.facts, fn.key, d)
    g.inlined = inlined
    g.origin = fn
    return g
