"""C13: the request put on the wire matches the connection's protocol (level: other)."""
import re
from core import (norm, L_call, L_variant, arms, assigns_to_return, closure_arg_of, sig, const_of, layer_stack, split_type_args, CallSite, AbsPaths, INT_CMP, VALUE_EQ)
from mir import op_place

META = {
    "thorough_extra": ["mocks", "client-only"],
    "level": "other",
    "explanation": "Order and guards of the rewriting layers, decided from the type-checked program: (C13.1) the layer order of the client stack is read from the type of the "
                   "ServiceBuilder on which .service(RequestExecutor) is called in build_service (tower nests it as Stack<Inner, Outer>): Http1Checks, Http2Checks and SetHostHeader "
                   "sit below ConnectionPool (they see the connection's version), Timeout above it; (C13.2) SetHostHeader calls set_host_header only on "
                   "connection().version() < HTTP_2, the header is inserted with entry(HOST).or_insert_with (never overriding), its value derives from uri.host() and "
                   "get_non_default_port, whose table is {(443, secure), (80, not secure)} -> None with secure <=> scheme in {https, wss}; (C13.3) check_http1_request returns "
                   "early on version >= HTTP_2, CONNECT => authority_form, otherwise origin_form which keeps path_and_query and yields Uri::default() (\"/\") when absent; "
                   "(C13.4) check_http2_request under version == HTTP_2: CONNECT => Err(InvalidMethod), version set to HTTP_2, HeaderMap::remove for every element of "
                   "CONNECTION_HEADERS (the frozen five names) and for HOST; (C13.5) HttpConnection::send_request writes in each arm the constant version() reports for that arm "
                   "and sends on that arm's sender; (C13.6) handshake_h2 is reached exactly on protocol == Http2 or (Http1 and ALPN == h2), handshake_h1 otherwise; connect_to "
                   "derives the protocol from the request version."
                   " C13.2's port rule is a decision table (port x scheme security -> kept or omitted) evaluated abstractly; set_host_header is checked in normal form (value inserted only into a Vacant HOST entry); version tests are normalised by version_rel."
                   " As built now: C13.3 (request target on HTTP/1: h1table.py, the URI as a record of the abstract state, 120 scenarios), C13.4 (what leaves on HTTP/2: h2table.py, header map as a set, version as a cell, 48 scenarios), C13.5 (version stamp and sender per connection variant) and C13.6 (handshake selection: configured protocol x ALPN) are decision tables evaluated abstractly.",
    "trusted_base": ["rustc type checker (the builder type is the layer stack)", "tower ServiceBuilder applies Stack<Inner, Outer> outer-first", "http crate header / uri APIs"],
    "assumptions": [],
    "undecided": "the resulting header / URI values over the request grammar",
    "level_text": "static necessary conditions (layer order from the builder's type, guard dominance of version tests over rewrites, per-arm constant agreement, table contents)",
}

H2 = "Version::HTTP_2"


def version_cmp(f, lab, ops, const_suffix=H2, subject=None):
    """bool edge label produced by PartialOrd/PartialEq on http::Version against a constant. Returns op name or None."""
    if lab.kind != "bool" or lab.cond.kind != "call":
        return None
    s = lab.cond.site
    n = norm(s.name).split("::")[-1]
    if n not in ops or "Version" not in " ".join(s.t.get("argtys") or []):
        return None
    consts = {str(r.desc) for a in s.args for r in f.roots(a, through_calls=False) if r.kind == "const"}
    if not any(c.endswith(const_suffix) for c in consts):
        return None
    if subject is not None:
        rr = f.roots(s.args[0]) | f.roots(s.args[1])
        if not any(r.kind == "call" and r.site.matches(subject) for r in rr):
            return None
    return n


_REL = {"lt": ("<", ">="), "ge": (">=", "<"), "gt": (">", "<="), "le": ("<=", ">"), "eq": ("==", "!="), "ne": ("!=", "==")}
_FLIP = {"<": ">", ">": "<", "<=": ">=", ">=": "<=", "==": "==", "!=": "!="}


def version_rel(f, lab, subject=None, const_suffix=H2):
    """Relation `subject-version REL HTTP_2` implied by taking a bool edge, whichever comparison operator, operand order or
    branch polarity the source uses: `v >= HTTP_2` false, `v < HTTP_2` true, `HTTP_2 > v` true all give "<"."""
    if lab.kind != "bool" or lab.value is None or lab.cond.kind != "call":
        return None
    s = lab.cond.site
    n = norm(s.name).split("::")[-1]
    if n not in _REL or "Version" not in " ".join(s.t.get("argtys") or []) or len(s.args) != 2:
        return None
    ci = None
    for i, a in enumerate(s.args):
        cs_ = {str(r.desc) for r in f.roots(a, through_calls=False) if r.kind == "const"}
        if any(c.endswith(const_suffix) for c in cs_):
            ci = i
    if ci is None:
        return None
    if subject is not None:
        rr = f.roots(s.args[1 - ci])
        if not any(r.kind == "call" and r.site.matches(subject) for r in rr):
            return None
    rel = _REL[n][0 if lab.value else 1]
    return rel if ci == 1 else _FLIP[rel]


def C13_1(ctx, facts):
    f = facts.unit(facts.fn("client::builder::Builder::build_service"))
    ctx.touched(f)
    svc = [c for c in f.calls() if norm(c.name).endswith("ServiceBuilder::service")]
    ctx.floor("build_service|service-call", len(svc), 1, "ServiceBuilder::service call")
    for c in svc:
        ty = (c.t.get("argtys") or [""])[0]
        stack = layer_stack(ty)
        names = []
        for t in stack:
            h, a = split_type_args(t)
            if h.endswith("OptionLayer") and a:
                h = split_type_args(a[0])[0]
            names.append(h.split("::")[-1] if not h.startswith("impl ") else "impl Layer")
        idx = {n: i for i, n in enumerate(names)}
        need = ["Http1ChecksLayer", "Http2ChecksLayer", "SetHostHeaderLayer", "ConnectionPoolLayer", "TimeoutLayer"]
        miss = [n for n in need if n not in idx]
        if miss:
            ctx.bad("build_service|layers-present", "layers missing from the client stack: %s (stack innermost-first: %s)" % (miss, names), c.where())
            continue
        ctx.ok("build_service|layers-present", "client stack, innermost first: %s" % names, c.where())
        pool = idx["ConnectionPoolLayer"]
        for n in ("Http1ChecksLayer", "Http2ChecksLayer", "SetHostHeaderLayer"):
            ctx.check(idx[n] < pool, "build_service|%s-below-pool" % n, "%s sits below the connection pool: it sees the connection's protocol" % n,
                      "%s sits above the connection pool: it cannot see the connection's protocol (stack %s)" % (n, names), c.where())
        ctx.check(idx["TimeoutLayer"] > pool, "build_service|timeout-above-pool", "the timeout layer wraps the pool (expiry drops checkout and request together)",
                  "the timeout layer is below the pool", c.where())
        # the executor is what .service() receives
        rr = f.roots(c.args[1], through_calls=False)
        ctx.check(any(r.kind == "call" and r.site.is_("service::client::RequestExecutor::new") for r in rr), "build_service|executor-innermost", "the innermost service is RequestExecutor",
                  "innermost service roots %s" % sorted(map(repr, rr)), c.where())


def _secure_literals(facts, f):
    lits = set()
    work = [f] + [facts.fns[k] for (_, _, _, k) in f.closures_created() if k in facts.fns]
    for g in work:
        for b in g.live:
            for s in g.stmts(b):
                if s["k"] == "assign" and s["r"]["k"] == "use" and s["r"]["o"].get("k") and str(s["r"]["o"]["k"].get("v", "")).startswith('"'):
                    lits.add(s["r"]["o"]["k"]["v"].strip('"'))
            t = g.term(b)
            if t["k"] == "call":
                for a in t["args"]:
                    if a.get("k") and str(a["k"].get("v", "")).startswith('"'):
                        lits.add(a["k"]["v"].strip('"'))
    return lits


def C13_2(ctx, facts):
    calls = [g for g in facts.fns.values() if g.d.get("name") == "call" and norm(g.d.get("impl_self", "")).endswith("service::host::SetHostHeader")]
    ctx.floor("SetHostHeader|call-impls", len(calls), 2, "Service::call impls of SetHostHeader")
    for g in calls:
        ctx.touched(g)
        exe = "ExecuteRequest" in g.locals[2]
        if exe:
            cv = [c for c in g.calls() if c.matches(r"Connection.*::version$")]
            ctx.check(bool(cv), "SetHostHeader::call|consults-connection-version", "below the pool the layer decides by the *connection's* version (Connection::version is consulted)",
                      "the ExecuteRequest impl of SetHostHeader never asks the connection for its version: a request whose own version differs from the connection's gets the wrong Host treatment", g.where())
        sh = g.calls("service::host::set_host_header")
        ctx.floor("SetHostHeader::call|set_host_header|%s" % ("execute" if exe else "request"), len(sh), 1, "set_host_header call")
        for c in sh:
            subject = r"Connection.*::version$" if exe else r"Request.*::version$"
            ok, w = g.guarded(c.bb, lambda lab: version_rel(g, lab, subject=subject) == "<")
            ctx.check(ok, "SetHostHeader::call|below-h2|%s" % ("execute" if exe else "request"),
                      "the Host header is set only when the %s version is below HTTP/2" % ("connection's" if exe else "request's"),
                      "set_host_header reachable without `version < HTTP_2` on the %s" % ("connection" if exe else "request"), c.where(), g.path_desc(w))
        inner = [c for c in g.calls() if norm(c.decl or c.name).endswith("Service::call")]
        ok = all(g.must_pass(0, g.returns, {c.bb for c in inner})[0] for _ in [0]) and bool(inner)
        ctx.check(ok, "SetHostHeader::call|forwards|%s" % ("execute" if exe else "request"), "the request is always forwarded to the inner service", "a path does not forward the request", g.where())
    # set_host_header in normal form (or_insert_with is expanded to the match on the header Entry it abbreviates; the value
    # closure / helper is spliced in): the value is written only through VacantEntry::insert, on the Vacant edge of
    # entry(HOST) - a caller-supplied Host is kept -, and it is built from uri.host() and get_non_default_port(uri).
    f = facts.unit(facts.fn("service::host::set_host_header"), expand=True)
    ctx.touched(f)
    ent = [c for c in f.calls() if c.matches(r"HeaderMap.*::entry$")]
    vins = [c for c in f.calls() if c.matches(r"VacantEntry.*::(insert|insert_entry|try_insert)$")]
    over = [c for c in f.calls() if c.matches(r"HeaderMap.*::(insert|append|try_insert|try_append)$|OccupiedEntry.*::(insert|append|insert_mult)$|Entry.*::insert$") and c not in vins]
    ctx.check(bool(ent) and bool(vins) and not over, "set_host_header|never-overrides", "the header is written only into a vacant entry(HOST): a caller-supplied Host is kept",
              "the Host header can be overwritten (%s)" % [norm(c.name) for c in over], f.where())
    for c in ent:
        ks = {str(r.desc) for r in f.roots(c.args[1], through_calls=False) if r.kind == "const"} | {str(const_of(c.args[1]))}
        ctx.check(any(k.endswith("header::HOST") for k in ks), "set_host_header|host-entry", "the entry is the HOST header", "entry key is %s" % sorted(ks), c.where())
    eb = {c.bb for c in ent}
    vacant = lambda lab: lab.kind == "variant" and lab.variants == {"Vacant"} and any(r.kind == "call" and r.site.bb in eb for r in f.roots({"l": lab.place["l"], "p": []}, through_calls=False))
    for c in vins:
        g_, w_ = f.guarded(c.bb, vacant)
        ctx.check(g_, "set_host_header|insert-only-if-vacant", "the value is inserted on the Vacant edge of the entry only", "the Host value can be inserted although a Host header exists", c.where(), f.path_desc(w_))
        rets = f.roots(c.args[1])
        hs = [r for r in rets if r.kind == "call" and r.site.is_("http::Uri::host", "http::uri::Uri::host")]
        pt = [r for r in rets if r.kind == "call" and r.site.is_("service::host::get_non_default_port")]
        ctx.check(bool(hs) and bool(pt), "set_host_header|value-from-uri", "the value is built from uri.host() and get_non_default_port(uri)",
                  "the header value does not derive from uri.host() / get_non_default_port: %s" % sorted(map(repr, sig(rets)))[:8], c.where())
        ctx.check(any(r.kind == "call" and r.site.matches(r"HeaderValue.*::from_str$") for r in rets), "set_host_header|value-is-header", "built with HeaderValue::from_str", "value not built by from_str", c.where())
    # get_non_default_port as a decision table: abstract evaluation of its (expanded) body under every scenario
    # (port in {absent, 443, 80, other} x scheme secure / not), whatever shape the code has (tuple match, `?` + comparison ...)
    p = facts.unit(facts.fn("service::host::get_non_default_port"), expand=True)
    ctx.touched(p)
    some_port = ("variant", "Some", ((0, ("const", "PORT")),))
    none = ("variant", "None", ())
    rows = 0
    for port in (None, 443, 80, 8080):
        for secure in (True, False):
            oracles = [(r"Uri::port$", lambda site, vals, port=port: none if port is None else some_port),
                       (r"Port<.*>::as_u16$|Port::as_u16$", lambda site, vals, port=port: ("const", str(port)) if port is not None else None),
                       (r"Uri::port_u16$", lambda site, vals, port=port: none if port is None else ("variant", "Some", ((0, ("const", str(port))),))),
                       (r"service::host::is_schema_secure$", lambda site, vals, secure=secure: ("const", "true" if secure else "false")),
                       INT_CMP]
            try:
                outs = AbsPaths(p, oracles=oracles).outcomes()
            except AbsPaths.Undecided as e:
                ctx.undecided("get_non_default_port|row|%s,%s" % (port, secure), str(e), p.where())
                continue
            rows += 1
            kinds = sorted({(v[1] if v is not None and v[0] == "variant" else "?") for (v, _) in outs})
            want = "None" if (port is None or (port == 443 and secure) or (port == 80 and not secure)) else "Some"
            ctx.check(kinds == [want], "get_non_default_port|row|port=%s,secure=%s" % (port, secure),
                      "port %s on a %s scheme -> %s" % (port, "secure" if secure else "plain", "no port in Host" if want == "None" else "port kept"),
                      "port %s on a %s scheme gives %s (expected %s)" % (port, "secure" if secure else "plain", kinds, want), p.where())
    ctx.floor("get_non_default_port|table-rows", rows, 8, "scenarios evaluated")
    s = facts.unit(facts.fn("service::host::is_schema_secure"))
    lits = _secure_literals(facts, s)
    ctx.check(lits == {"https", "wss"}, "is_schema_secure|literals", "secure schemes are exactly https and wss", "secure schemes: %s" % sorted(lits), s.where())


def C13_3(ctx, facts):
    """The request target written on an HTTP/1 connection: decision table of check_http1_request (h1table.py) over connection
    version x method x URI shape, with the URI as a record of the abstract state."""
    import h1table
    h1table.table(ctx, facts)
    import json
    new = facts.fn("service::http::http1::Http1ChecksService::new")
    ctx.touched(new)
    ok = re.search(r'"fn": "[^"]*check_http1_request"', json.dumps(new.d["blocks"])) is not None
    ctx.check(ok, "Http1ChecksService::new|installs-check", "Http1ChecksService applies check_http1_request to every request", "Http1ChecksService::new does not install check_http1_request", new.where())


def C13_4(ctx, facts):
    """What leaves the client on an HTTP/2 connection: decision table of check_http2_request (h2table.py)."""
    import h2table
    h2table.table(ctx, facts)
    # the check is installed: Http2ChecksService::new wraps the inner service with exactly this function
    import json
    new = facts.fn("service::http::http2::Http2ChecksService::new")
    ctx.touched(new)
    ok = re.search(r'"fn": "[^"]*check_http2_request"', json.dumps(new.d["blocks"])) is not None
    ctx.check(ok, "Http2ChecksService::new|installs-check", "Http2ChecksService applies check_http2_request to every request", "Http2ChecksService::new does not install check_http2_request", new.where())


def C13_5(ctx, facts):
    """Decision table over the connection's variant (abstract evaluation of `send_request` / `version`, helpers spliced in): the
    request handed to hyper's sender carries the version of that sender's protocol, and goes to the matching sender.  The
    request's version is a cell in the abstract state: `*request.version_mut() = v` writes it, the hand-over reads it."""
    import inline
    sr0 = facts.method("client::conn::connection::HttpConnection", "Connection", "send_request")
    vr0 = facts.method("client::conn::connection::HttpConnection", "Connection", "version")
    SEND = r"hyper::client::conn::http[12]::SendRequest.*::(send_request|try_send_request)$"
    keep = lambda ck, raw: "::_::" not in ck
    sr = inline.inline(facts, sr0, 4, keep, expand=True)
    vr = inline.inline(facts, vr0, 4, keep, expand=True)
    ctx.touched(sr)
    ctx.touched(vr)
    adt = facts.adt("client::conn::connection::HttpConnection")
    idx = [i for i, fl in enumerate(adt["variants"][0]["fields"]) if "InnerConnection<" in fl["ty"]]
    if len(idx) != 1:
        return ctx.missing("HttpConnection|inner", "HttpConnection has no single field of type InnerConnection")
    CELL, LOG = -50, -51

    def o_version_mut(ev, st, t, site):
        d = t["dest"]
        st[d["l"]] = ("cellref", CELL)
        return True

    def o_version_get(ev, st, t, site):
        d = t["dest"]
        v = st.get(CELL)
        if v is None:
            st.pop(d["l"], None)
        else:
            st[d["l"]] = v
        return True

    def o_send(ev, st, t, site):
        recv = ev._eval_operand(st, site.args[0]) if site.args else None
        hops = 0
        from core import deref_value
        recv = deref_value(st, recv)
        l = st.get(LOG) or ("list", ())
        st[LOG] = ("list", l[1] + (("variant", "sent", ((0, recv), (1, st.get(CELL)), (2, ("const", "http2" if "http2" in norm(site.name) else "http1")))),))
        st.pop(t["dest"]["l"], None)
        return True
    raw = [(r"http::request::Request.*::version_mut$|http::Request.*::version_mut$", o_version_mut),
           (r"http::request::Request.*::version$|http::Request.*::version$", o_version_get), (SEND, o_send)]
    n_send = len([c for c in sr.calls() if re.search(SEND, norm(c.name))])
    ctx.floor("HttpConnection::send_request|send-sites", n_send, 2, "hand-overs to hyper's senders")
    for v, const, mod in (("H1", "Version::HTTP_11", "http1"), ("H2", "Version::HTTP_2", "http2")):
        this = ("variant", "HttpConnection", ((idx[0], ("variant", v, ((0, ("const", "SENDER_" + v)),))),))
        try:
            o_v = {x for (x, _) in AbsPaths(vr).outcomes(state={1: ("refval", this)})}
        except AbsPaths.Undecided as e:
            o_v = None
            ctx.undecided("HttpConnection::version|%s" % v, str(e))
        if o_v is not None:
            ok = len(o_v) == 1 and next(iter(o_v)) is not None and next(iter(o_v))[0] == "const" and str(next(iter(o_v))[1]).endswith(const)
            ctx.check(ok, "HttpConnection::version|%s" % v, "version() reports %s for %s" % (const, v), "version() reports %s for %s" % (sorted(map(str, o_v)), v), vr.where())
        try:
            outs = AbsPaths(sr, raw_oracles=raw).outcomes(state={1: ("refmut", 9000), 9000: this, 2: ("const", "REQUEST"), CELL: ("const", "VERSION_OF_CALLER"), LOG: ("list", ())}, extra_keys=(LOG,))
        except AbsPaths.Undecided as e:
            ctx.undecided("HttpConnection::send_request|%s" % v, str(e))
            continue
        logs = {o[2][0] for o in outs}
        sent = []
        for lg in logs:
            sent.append(tuple((str((dict(e[2]).get(0) or ("", "?"))[1]), str((dict(e[2]).get(1) or ("", "?"))[1]), str(dict(e[2]).get(2)[1])) for e in lg[1]) if lg is not None else None)
        ok = len(sent) == 1 and sent[0] is not None and len(sent[0]) == 1
        okv = ok and sent[0][0][1].endswith(const)
        oks = ok and sent[0][0][0] == "SENDER_" + v and sent[0][0][2] == mod
        ctx.check(okv, "HttpConnection::send_request|%s-version" % v, "a request sent on the %s sender is stamped with %s" % (v, const),
                  "the request reaching the %s sender is stamped %s (hand-overs: %s)" % (v, [s_[0][1] if s_ else "?" for s_ in sent], sent), sr.where())
        ctx.check(oks, "HttpConnection::send_request|%s-sender" % v, "and is handed, exactly once, to this connection's %s sender" % mod,
                  "the %s connection hands the request over as %s" % (v, sent), sr.where())


def C13_6(ctx, facts):
    # decision table (abstract evaluation of the async body of `handshake`, helpers spliced in): configured protocol x what
    # the transport says about ALPN -> which of the two handshakes runs.  How the decision is written (nested `if`, a helper
    # returning the protocol to speak, a `match` on a tuple) does not matter.
    import inline
    tls = ctx.cur_config in ("tls", "mocks", "aws")
    body = facts.fn("client::conn::protocol::auto::HttpConnectionBuilder::handshake::{closure#0}")
    # `#[tracing::instrument]` wraps the body in an inner async block: evaluate the block the decision is made in
    homes = {c.fn.key for c in facts.call_sites_of("client::conn::protocol::auto::HttpConnectionBuilder::handshake_h2",
                                                   "client::conn::protocol::auto::HttpConnectionBuilder::handshake_h1")}
    if len(homes) == 1 and norm(next(iter(homes))).startswith(body.nkey):
        body = facts.fns[next(iter(homes))]
    H = r"HttpConnectionBuilder::handshake_h[12]$"
    u = inline.inline(facts, body, 4, lambda ck, raw: "::_::" not in ck and not re.search(H, norm(ck)) and not re.search(r"tls_info$", norm(ck)), expand=True)
    ctx.touched(u)
    h2 = {c.bb for c in u.calls("client::conn::protocol::auto::HttpConnectionBuilder::handshake_h2")}
    h1 = {c.bb for c in u.calls("client::conn::protocol::auto::HttpConnectionBuilder::handshake_h1")}
    ctx.floor("handshake|h2-sites", len(h2), 1, "handshake_h2 call sites")
    ctx.floor("handshake|h1-sites", len(h1), 1, "handshake_h1 call sites")
    info = facts.adt("info::tls::TlsConnectionInfo") if tls else None
    ai = [i for i, fl in enumerate(info["variants"][0]["fields"]) if re.search(r"Option<.*Protocol>$", fl["ty"])] if info else []
    if tls and len(ai) != 1:
        return ctx.missing("handshake|alpn-field", "TlsConnectionInfo has no single Option<Protocol> field")
    caps = {n: facts._capture_index(body, "cap:" + n) for n in ("self", "transport", "protocol")}
    if caps["protocol"] is None:
        return ctx.missing("handshake|protocol-capture", "the async body of handshake does not capture `protocol`")
    alpns = [("no-tls", None), ("tls-no-alpn", ("variant", "None", ())), ("alpn-http/1.1", ("variant", "Some", ((0, ("variant", "Http", ((0, ("const", "ALPN_H1")),))),))),
             ("alpn-h2", ("variant", "Some", ((0, ("variant", "Http", ((0, ("const", "ALPN_H2")),))),)))] if tls else [("no-tls", None)]

    def has(v, tag, depth=8):
        if v is None or depth == 0:
            return False
        if v[0] == "const":
            return v[1] == tag
        if v[0] == "refval":
            return has(v[1], tag, depth - 1)
        if v[0] == "variant":
            return any(has(x, tag, depth - 1) for _, x in v[2])
        return False
    for proto in ("Http1", "Http2"):
        for (aname, alpn) in alpns:
            key = "handshake|table|%s|%s" % (proto, aname)

            def tls_info(site, vals, alpn=alpn):
                if alpn is None:
                    return ("variant", "None", ())
                return ("variant", "Some", ((0, ("refval", ("variant", "TlsConnectionInfo", ((ai[0], alpn),)))),))

            def alpn_eq(site, vals):
                # the comparison of the negotiated protocol with the HTTP/2 constant (the constant side is checked below)
                if any(has(v, "ALPN_H2") for v in vals):
                    return ("const", "false" if norm(site.name).endswith("::ne") else "true")
                if any(has(v, "ALPN_H1") for v in vals) or any(v is not None and v[0] == "variant" and v[1] == "None" for v in vals):
                    return ("const", "true" if norm(site.name).endswith("::ne") else "false")
                return None
            env = ("variant", "{coroutine}", tuple(sorted((i, ("const", "CAP_" + n) if n != "protocol" else ("variant", proto, ())) for n, i in caps.items() if i is not None)))
            try:
                outs = AbsPaths(u, oracles=[(r"tls_info$", tls_info), (r"PartialEq.*::(eq|ne)$", alpn_eq), VALUE_EQ,
                                            (r"Option.*::as_ref$", lambda site, vals: vals[0] if vals and vals[0] is not None and vals[0][0] == "variant" and vals[0][1] == "None" else
                                             (("variant", "Some", ((0, ("refval", dict(vals[0][2]).get(0))),)) if vals and vals[0] is not None and vals[0][0] == "variant" and vals[0][1] == "Some" else None))]
                                ).outcomes(state={1: env}, stop_blocks=h1 | h2)
            except AbsPaths.Undecided as e:
                ctx.undecided(key, str(e))
                continue
            got = set()
            for (v, _) in outs:
                m = re.match(r"stopped@bb(\d+)$", str(v[1])) if v is not None and v[0] == "const" else None
                got.add("h2" if m and int(m.group(1)) in h2 else ("h1" if m and int(m.group(1)) in h1 else "neither"))
            want = "h2" if proto == "Http2" or aname == "alpn-h2" else "h1"
            ctx.check(got == {want}, key, "protocol %s, transport %s: the %s handshake runs" % (proto, aname, "HTTP/2" if want == "h2" else "HTTP/1"),
                      "protocol %s, transport %s: %s runs, expected the %s handshake" % (proto, aname, sorted(got), "HTTP/2" if want == "h2" else "HTTP/1"), u.where())
    if tls:
        # the constant the negotiated protocol is compared with is HTTP/2
        eqs = [c for c in u.calls() if c.matches(r"PartialEq.*::(eq|ne)$") and any(r.kind == "call" and r.site.matches(r"tls_info$") for a_ in c.args for r in u.roots(a_))]
        ctx.floor("handshake|alpn-comparison", len(eqs), 1, "comparison of the negotiated ALPN protocol")
        for c in eqs:
            rr = set()
            for a_ in c.args:
                rr |= u.roots(a_)
            ok = any(r.kind == "const" and (str(r.desc).endswith(H2) or "promoted" in str(r.desc)) for r in rr)
            ctx.check(ok, "handshake|alpn-compared-with-h2", "the negotiated protocol is compared with the HTTP/2 constant", "ALPN comparison roots %s" % sorted(map(repr, sig(rr))), c.where())
    # the two handshakes build the matching connection kind
    for nm, ctor, mod in (("handshake_h2", "HttpConnection::h2", "http2"), ("handshake_h1", "HttpConnection::h1", "http1")):
        bodies = [g for g in facts.fns.values() if g.nkey.startswith("client::conn::protocol::auto::HttpConnectionBuilder::%s" % nm)]
        ctors = [c for g in bodies for c in g.calls("client::conn::connection::" + ctor)]
        hs = [c for g in bodies for c in g.calls() if c.matches(r"hyper::client::conn::%s::Builder.*::handshake$" % mod)]
        ctx.check(len(ctors) == 1 and len(hs) == 1, "%s|builds-matching" % nm, "%s performs hyper's %s handshake and wraps the sender with %s" % (nm, mod, ctor),
                  "%s: %d ctor / %d handshake calls" % (nm, len(ctors), len(hs)))
    # protocol derives from the request version
    ct = facts.unit(facts.fn("client::pool::service::ConnectionPoolService::connect_to"))
    cn = ct.calls("client::conn::connector::Connector::new")
    for c in cn:
        rr = ct.roots(c.args[3])
        ctx.check(any(r.kind == "arg" and r.desc.startswith("request_parts.version") for r in rr), "connect_to|protocol-from-version", "the connector's protocol is request.version.into()",
                  "protocol roots %s" % sorted(map(repr, sig(rr))), c.where())
    # ... and the mapping itself, as a table over http's five versions: HTTP/2 asks for an HTTP/2 connection, every other version
    # (HTTP/0.9, 1.0, 1.1, and HTTP/3, which this client cannot speak) is carried over HTTP/1.1
    fr = [g for g in facts.fns.values() if g.nkey == "<client::conn::protocol::HttpProtocol as std::convert::From>::from"]
    if fr:
        from core import http_version, HTTP_VERSIONS, VERSION_CMP
        g = facts.unit(fr[0], expand=True)
        ctx.touched(g)
        rows = 0
        for vname in HTTP_VERSIONS:
            key = "HttpProtocol::from|table|%s" % vname
            try:
                outs = {x for (x, _) in AbsPaths(g, raw_oracles=[VERSION_CMP], oracles=[INT_CMP, VALUE_EQ]).outcomes(state={1: http_version(vname)})}
            except AbsPaths.Undecided as e:
                ctx.undecided(key, str(e))
                continue
            rows += 1
            got = sorted(x[1] if x is not None and x[0] == "variant" else "?" for x in outs)
            want = "Http2" if vname == "HTTP_2" else "Http1"
            ctx.check(got == [want], key, "a request of version %s asks for an %s connection" % (vname, want),
                      "a request of version %s asks for %s, expected %s (HTTP/2 exactly when the request asked for HTTP/2)" % (vname, got, want), g.where())
        ctx.floor("HttpProtocol::from|table-rows", rows, 5, "versions evaluated")
    else:
        ctx.missing("HttpProtocol::from", "From<http::Version> for HttpProtocol not found")


RULES = [
    ("C13.1", C13_1, ["default", "tls"]),
    ("C13.2", C13_2, ["default"]),
    ("C13.3", C13_3, ["default"]),
    ("C13.4", C13_4, ["default"]),
    ("C13.5", C13_5, ["default"]),
    ("C13.6", C13_6, ["default", "tls"]),
]
