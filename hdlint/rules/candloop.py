"""Decision table for the candidate loop of `TcpConnecting::connect` (C10.8 / C11.1 / C16.6).

For every (small) address list the async body is evaluated abstractly - with the sequence model of seqmodel.py, every
crate-local helper spliced in (no atoms) - up to the point where the attempt set is awaited (`EyeballSet::finish`), and the
queue of the set is read off: it must hold exactly one attempt per address, in list order.  How the loop is written
(`while let Some(a) = addresses.pop()`, `for a in iter::from_fn(|| addresses.pop())`, `attempts.extend(..map(..))`) does not
matter; a loop that can leave early (`?` on a candidate's set-up), skip or reorder candidates gives a different queue or no
unique one."""
import re

import inline
import seqmodel
from core import AbsPaths, INT_CMP, VALUE_EQ, norm

ANCHOR = "client::conn::transport::tcp::TcpConnecting::connect::{closure#0}"


def _tags_in(v, out):
    """Address tags (("const", "a#i")) nested anywhere inside an abstract value, in order of appearance."""
    if v is None:
        return
    if v[0] == "const" and isinstance(v[1], str) and re.match(r"^v[46]#", v[1]):
        out.append(v[1])
    elif v[0] == "refval":
        _tags_in(v[1], out)
    elif v[0] == "variant":
        for _, x in v[2]:
            _tags_in(x, out)


def full_unit(facts, fn):
    """The body with every crate-local callee spliced in (the table needs the effects of EyeballSet::new / push on the queue)."""
    key = ("full", fn.key)
    if not hasattr(facts, "_full_units"):
        facts._full_units = {}
    if key not in facts._full_units:
        def want(ck, raw):
            if "::_::" in ck:
                return False
            n = norm(ck)
            # the run of the set (finish / process_all / join_next ...) is not part of the loop: stop there
            if re.search(r"EyeballSet::(finish|process_all|join_next|join_next_with_timeout)$", n):
                return False
            # socket set-up of a single candidate is opaque: its result is "Ok or Err" (both are explored)
            return not re.search(r"transport::tcp::connect$|TcpConnectionError::", n)
        facts._full_units[key] = inline.inline(facts, fn, 4, want, expand=True)
    return facts._full_units[key]


def o_vecdeque_new(ev, st, t, site):
    n = st.get(-1000)
    nid = (int(n[1]) if n else 10) + 1
    st[-1000] = ("const", str(nid))
    st[-nid] = ("list", ())
    return seqmodel._set_dest(st, t, ("seq", nid))


def o_from_fn(ev, st, t, site):
    clo = seqmodel._arg(ev, st, t, 0)
    if clo is None:
        return False
    return seqmodel._set_dest(st, t, ("fromfn", clo))


def o_map(ev, st, t, site):
    it = seqmodel._deref(st, seqmodel._arg(ev, st, t, 0))
    clo = seqmodel._arg(ev, st, t, 1)
    if it is None or clo is None or it[0] not in ("iterv", "itermut", "arr", "enum", "fromfn", "mapped", "drainv"):
        return False
    return seqmodel._set_dest(st, t, ("mapped", it, clo))


def o_duration_div(ev, st, t, site):
    a, b = seqmodel._deref(st, seqmodel._arg(ev, st, t, 0)), seqmodel._deref(st, seqmodel._arg(ev, st, t, 1))
    from core import _as_int
    n = _as_int(b)
    if a is None or a[0] != "const" or n is None or n == 0:
        return False     # a division by zero panics: not a path of the model
    return seqmodel._set_dest(st, t, ("const", "%s/%d" % (a[1], n)))


EXTRA_RAW = [
    (r"Duration as .*Div.*::div$|Duration.*::div$|Duration::div_f(32|64)$|Duration::checked_div$", o_duration_div),
    (r"collections::VecDeque.*::new$|collections::VecDeque.*::with_capacity$|vec::Vec.*::(new|with_capacity)$", o_vecdeque_new),
    (r"iter::from_fn$|iter::sources::from_fn::from_fn$", o_from_fn),
    (r"Iterator.*::map$", o_map),
]


def make_this(facts, timeout=("const", "T"), conc=("const", "CONC")):
    """The TcpConnecting value `connect` runs on, built by the code's own constructor from (address list, &config)."""
    cfg = facts.adt("client::conn::transport::tcp::TcpTransportConfig")
    cf = {}
    for i, fl in enumerate(cfg["variants"][0]["fields"]):
        cf[i] = ("const", "CFG_" + fl["name"])
        if fl["name"] == "happy_eyeballs_timeout":
            cf[i] = seqmodel.NONE if timeout is None else seqmodel.some(timeout)
        if fl["name"] == "happy_eyeballs_concurrency":
            cf[i] = seqmodel.NONE if conc is None else seqmodel.some(conc)
    cfgv = ("variant", "TcpTransportConfig", tuple(sorted(cf.items())))
    new = facts.fn("client::conn::transport::tcp::TcpConnecting::new")
    u = inline.inline(facts, new, 3, lambda ck, raw: "::_::" not in ck, expand=True)
    return u, cfgv


def evaluate(facts, fams, timeout=("const", "T"), conc=("const", "CONC"), observe_set=False):
    """Abstract run of the candidate loop for an address list with the given families.  Returns the list of outcomes, each a
    list of address tags in the order the attempts sit in the set's queue when the set is awaited (None = unknown)."""
    f = full_unit(facts, facts.fn(ANCHOR))
    fin = [c.bb for c in f.calls() if re.search(r"EyeballSet::finish$", norm(c.name))]
    if not fin:
        raise KeyError("EyeballSet::finish is not called from TcpConnecting::connect")
    # the coroutine value: _1 = {async body}; captured `self` = TcpConnecting { addresses: SocketAddrs(seq 1), config }
    adt = facts.adt("client::conn::transport::tcp::TcpConnecting")
    names = [fl["name"] for fl in adt["variants"][0]["fields"]]
    ai = [i for i, fl in enumerate(adt["variants"][0]["fields"]) if fl["ty"].endswith("SocketAddrs")][0]
    elems = tuple(("const", "%s#%d" % (x.lower(), i)) for i, x in enumerate(fams))
    fields = []
    for i, n in enumerate(names):
        if i == ai:
            fields.append((i, ("variant", "SocketAddrs", ((0, ("seq", 1)),))))
        else:
            fields.append((i, ("const", "FIELD_" + n)))
    this = ("variant", "TcpConnecting", tuple(fields))
    # prefer the value the constructor builds (a refactoring may compute fields there)
    try:
        nu, cfgv = make_this(facts, timeout, conc)
        st0 = {1: ("variant", "SocketAddrs", ((0, ("seq", 1)),)), 2: ("refval", cfgv), -1: ("list", elems), -1000: ("const", "10")}
        outs0 = {x for (x, _) in AbsPaths(nu, limit=4000, raw_oracles=seqmodel.RAW_ORACLES + EXTRA_RAW, oracles=[INT_CMP, VALUE_EQ]).outcomes(state=st0)}
        if len(outs0) == 1 and next(iter(outs0)) is not None:
            this = next(iter(outs0))
    except Exception:
        pass
    cap = facts._capture_index(facts.fn(ANCHOR), "cap:self")
    env = ("variant", "{coroutine}", ((cap if cap is not None else 0, this),))
    st = {1: env, -1: ("list", elems), -1000: ("const", "10")}

    def queues(st_):
        # every list other than the address list that holds attempts
        out = []
        for k in sorted((k for k in st_ if isinstance(k, int) and -1000 < k < -1), reverse=True):
            v = st_[k]
            if v is not None and v[0] == "list":
                tags = []
                for e in v[1]:
                    _tags_in(e, tags)
                out.append(tuple(tags))
        return tuple(out)
    def the_set(st_):
        # moved-from temporaries keep a stale copy: the pacing fields are set once at construction, every copy agrees on them
        found = sorted({v for k, v in st_.items() if isinstance(k, int) and k > 0 and v is not None and v[0] == "variant" and v[1] == "EyeballSet"}, key=repr)
        return found[-1] if found else None
    ap = AbsPaths(f, limit=20000, raw_oracles=seqmodel.RAW_ORACLES + EXTRA_RAW + seqmodel.OPTION_ORACLES, oracles=[INT_CMP, VALUE_EQ])
    outs = ap.outcomes(state=st, stop_blocks=set(fin), extra_keys=(queues, -1) + ((the_set,) if observe_set else ()))
    return outs


def delay_table(ctx, facts, label="TcpConnecting::connect"):
    """The pacing parameters the attempt set is started with: stagger delay = overall timeout / number of addresses (the
    timeout itself for an empty list, none without a timeout), the overall timeout undivided, the configured concurrency."""
    adt = facts.adt("happy_eyeballs::EyeballSet")
    names = {fl["name"]: i for i, fl in enumerate(adt["variants"][0]["fields"])}
    need = [n for n in ("delay", "timeout", "initial_concurrency") if n not in names]
    if need:
        return ctx.missing("%s|set-fields" % label, "EyeballSet has no field(s) %s" % need)
    rows = 0
    for timeout in (None, ("const", "T")):
        for n in (0, 1, 3):
            key = "%s|delay-table|timeout=%s|addresses=%d" % (label, "none" if timeout is None else "T", n)
            try:
                outs = evaluate(facts, ("V4",) * n, timeout=timeout, observe_set=True)
            except AbsPaths.Undecided as e:
                ctx.undecided(key, str(e))
                continue
            rows += 1
            got = set()
            for o in outs:
                sv = o[2][2]
                f_ = dict(sv[2]) if sv is not None else {}
                got.add(tuple(_show(f_.get(names[x])) for x in ("delay", "timeout", "initial_concurrency")))
            d = "None" if timeout is None else ("Some(T)" if n == 0 else "Some(T/%d)" % n)
            want = {(d, "None" if timeout is None else "Some(T)", "Some(CONC)")}
            ctx.check(got == want, key, "overall timeout %s, %d addresses: the set starts with (stagger delay, overall timeout, concurrency) = %s" % ("none" if timeout is None else "T", n, next(iter(want))),
                      "overall timeout %s, %d addresses: the set starts with %s, expected %s" % ("none" if timeout is None else "T", n, sorted(got), next(iter(want))))
    ctx.floor("%s|delay-table-rows" % label, rows, 6, "scenarios evaluated")


def _show(v):
    if v is None:
        return "?"
    if v[0] == "const":
        return str(v[1])
    if v[0] == "refval":
        return _show(v[1])
    if v[0] == "variant":
        inner = ",".join(_show(x) for _, x in v[2])
        return "%s(%s)" % (v[1], inner) if inner else str(v[1])
    return str(v)


def table(ctx, facts, label="TcpConnecting::connect"):
    """The rule: for every address list up to length 3 the loop ends - on its only feasible path - with one attempt per
    address queued in list order, before the set is awaited."""
    import itertools
    rows = 0
    for L in range(0, 4):
        for fams in itertools.product(("V4", "V6"), repeat=L):
            key = "%s|candidates|%s" % (label, "".join(x[1] for x in fams) or "-")
            try:
                outs = evaluate(facts, fams)
            except AbsPaths.Undecided as e:
                ctx.undecided(key, str(e))
                continue
            rows += 1
            want = tuple("%s#%d" % (x.lower(), i) for i, x in enumerate(fams))
            res = []
            for o in outs:
                stopped = o[0] is not None and o[0][0] == "const" and str(o[0][1]).startswith("stopped@")
                qs = [q for q in o[2][0] if q] if o[2][0] is not None else []
                res.append((stopped, tuple(qs[0]) if len(qs) == 1 else (() if not qs else None)))
            ok = res == [(True, want)] or (not want and all(r == (True, ()) for r in res) and res)
            ctx.check(ok, key, "addresses %s: one attempt per address is queued, in list order, on the only path to the await of the set" % (list(want),),
                      "addresses %s: the loop ends with %s (reached the await of the set?, queued attempts) - expected exactly (True, %s): a candidate can be skipped, reordered, "
                      "or one candidate's set-up can end the connect early" % (list(want), res, want))
    ctx.floor("%s|candidate-table-rows" % label, rows, 15, "address lists evaluated")
