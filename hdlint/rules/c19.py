"""C19: a request with a timeout resolves by its deadline and cleans up (level: other)."""
import re
from core import norm, L_call, L_variant, arms, assigns_to_return, closure_arg_of, sig, const_of, CallSite, layer_stack, split_type_args, AbsPaths, field_where, fields_of
from mir import op_place
import pool2
import c13

META = {
    "thorough_extra": ["client-only", "tls"],
    "level": "other",
    "explanation": "Structure of the timeout layer, decided on all paths: (C19.1) the timer is created when the request is issued - Timeout::call builds TimeoutFuture::new(inner.call(req), error, "
                   "timeout) whose `timeout` field is tokio::time::sleep(d) with d deriving from the layer's duration, and no sleep is created inside poll; (C19.2) TimeoutFuture::poll polls "
                   "the inner future before the timer on every path, returns the inner Ready(x) with identity provenance, produces Err((error)()) only on the timer's Ready edge, and its "
                   "Pending return lies on the timer's Pending edge (the deadline wakes the task: E-WAKER); (C19.3) cancellation by ownership - TimeoutFuture.inner is the inner future by value "
                   "and nothing is spawned from Timeout::call / poll, so expiry drops the inner work; (C19.4) the timeout layer is the outermost of the client stack and the error "
                   "constructor is Error::RequestTimeout; (C19.5) the clean-up performed when the inner future is dropped is decided under C03 / C04 (P10, P11, P14, P3) and is recorded "
                   "here as an assumption."
                   " C19.2 is a decision table over (inner poll, timer poll) evaluated abstractly on the expanded unit; fields are identified by type.",
    "trusted_base": ["rustc type/borrow checker (ownership: dropping TimeoutFuture drops `inner`)", "tokio::time::sleep fires at its deadline and wakes the task"],
    "assumptions": ["pool clean-up on drop of a checkout / request is decided by the C03 and C04 checks (P10, P11, P14, P3); one defect is reported under one property"],
    "undecided": "elapsed time",
    "level_text": "static necessary conditions (timer creation site, poll order, provenance of the returned value, ownership of the inner future, layer placement)",
}

TF = "service::timeout::future::TimeoutFuture"


def C19_1(ctx, facts):
    call = facts.unit(facts.method("service::timeout::Timeout", "Service", "call"))
    ctx.touched(call)
    # evaluated on the unit of Timeout::call (TimeoutFuture::new and any other private helper spliced in): what matters is
    # that issuing the request builds the TimeoutFuture with a timer that is already running
    aggs = call.aggregates(TF)
    ctx.floor("Timeout::call|TimeoutFuture", len(aggs), 1, "construction of the TimeoutFuture when the request is issued")
    for (b, i, s) in aggs:
        r = s["r"]
        ops = dict(zip(r["fields"], r["ops"]))
        fi0 = [n for (n, t) in fields_of(facts, TF) if t == "F"]
        r0 = call.roots(ops[fi0[0]], through_calls=False) if len(fi0) == 1 else set()
        ctx.check(any(x.kind == "call" and norm(x.site.decl or x.site.name).endswith("Service::call") for x in r0), "Timeout::call|wraps-inner-call", "the future wraps self.inner.call(req) directly",
                  "inner future roots %s" % sorted(map(repr, r0)), call.where(b))
        ft = field_where(facts, TF, lambda t: t.endswith("tokio::time::Sleep"))
        fi = [n for (n, t) in fields_of(facts, TF) if t == "F"]
        rt = call.roots(ops[ft[0]]) if len(ft) == 1 else set()
        sl_ = [x for x in rt if x.kind == "call" and x.site.is_("tokio::time::sleep", "tokio::time::sleep::sleep")]
        ctx.check(bool(sl_), "TimeoutFuture::new|timer-created", "the timer is tokio::time::sleep(..), created when the request is issued", "timer roots %s" % sorted(map(repr, sig(rt))), call.where(b))
        T = "service::timeout::Timeout"
        dur_f = field_where(facts, T, lambda t: t.endswith("time::Duration"))
        err_f = field_where(facts, T, lambda t: ("fn()" in t or "Fn(" in t) and "PhantomData" not in t)
        for x in sl_:
            r2 = call.roots(x.site.args[0])
            ctx.check(len(dur_f) == 1 and any(y.kind == "arg" and y.desc == "self." + dur_f[0] for y in r2), "Timeout::call|duration", "the duration is the layer's", "duration roots %s" % sorted(map(repr, sig(r2))), x.site.where())
        fe = field_where(facts, TF, lambda t: ("fn()" in t or "Fn(" in t) and "PhantomData" not in t)
        r1 = call.roots(ops[fe[0]]) if len(fe) == 1 and fe[0] in ops else set()
        ctx.check(len(err_f) == 1 and any(x.kind == "arg" and x.desc.startswith("self." + err_f[0]) for x in r1), "Timeout::call|error-fn", "the error constructor is the layer's", "error roots %s" % sorted(map(repr, sig(r1))), call.where(b))
    poll = facts.method(TF, "Future", "poll")
    sl = [c for c in poll.calls() if c.matches(r"tokio::time::(sleep|sleep_until|timeout)")]
    ctx.check(not sl, "TimeoutFuture::poll|no-timer-creation", "no timer is created while polling (the deadline is fixed at issue time)", "a timer is created inside poll: the deadline moves with every poll", sl[0].where() if sl else None)
    resets = [c for c in poll.calls() if c.matches(r"Sleep.*::reset$")]
    ctx.check(not resets, "TimeoutFuture::poll|no-reset", "the timer is never reset", "the timer is reset in poll")
    sleeps = [c.fn.nkey for c in facts.call_sites_of("tokio::time::sleep", "tokio::time::sleep::sleep") if c.fn.nkey.startswith(("service::timeout", "<service::timeout"))]
    home = {call.nkey} | {norm(k) for k in call.inlined}
    ctx.check(bool(sleeps) and all(x in home for x in sleeps), "service::timeout|sleep-sites", "the only sleep of the timeout module is created on the Timeout::call path (%s)" % sleeps, "sleep created in %s" % sleeps)


def C19_2(ctx, facts):
    """TimeoutFuture::poll as a decision table (abstract evaluation of the expanded unit; the two polls are told apart by the
    type of their receiver: tokio's Sleep is the timer, the other one the inner future):
      inner Ready(x)            -> Ready(x), unchanged, the timer is not even polled (a ready result wins over the deadline)
      inner Pending, timer Ready -> Ready(Err(<configured error>))
      both Pending               -> Pending (and both were polled with the task context: E-WAKER)."""
    f = facts.unit(facts.method(TF, "Future", "poll"), expand=True)
    ctx.touched(f)
    polls = [c for c in f.calls() if norm(c.decl or c.name).split("::")[-1] == "poll" and c.args]
    tp = [c for c in polls if "tokio::time::Sleep" in (c.t.get("argtys") or [""])[0]]
    ip = [c for c in polls if c not in tp]
    ctx.floor("TimeoutFuture::poll|inner-poll", len(ip), 1, "poll of the inner future")
    ctx.floor("TimeoutFuture::poll|timer-poll", len(tp), 1, "poll of the timer")
    for c in tp:
        ok, w = f.must_pass(0, [c.bb], {x.bb for x in ip})
        ctx.check(ok, "TimeoutFuture::poll|inner-first", "the inner future is polled before the timer on every path (a result that is ready wins over the deadline)",
                  "the timer can be polled without polling the inner future first", c.where(), f.path_desc(w))
    cx = pool2.cx_local(f)
    for c in ip + tp:
        ok = any(r.kind == "arg" and getattr(r, "index", None) == cx for a in c.args for r in f.roots(a, through_calls=False))
        ctx.check(ok, "TimeoutFuture::poll|cx|%s" % ("inner" if c in ip else "timer"), "polled with the task context", "polled without cx", c.where())
    is_timer = lambda site: "tokio::time::Sleep" in (site.t.get("argtys") or [""])[0]
    RES = ("const", "INNER_RESULT")
    ERR = ("const", "CONFIGURED_ERROR")
    tpb = {c.bb for c in tp}
    rows = 0
    for inner in ("Ready", "Pending"):
        for timer in (("Ready", "Pending") if inner == "Pending" else (None,)):
            def poll_oracle(site, vals, inner=inner, timer=timer):
                if is_timer(site):
                    return ("variant", "Ready", ((0, ("variant", "()", ())),)) if timer == "Ready" else ("variant", "Pending", ())
                return ("variant", "Ready", ((0, RES),)) if inner == "Ready" else ("variant", "Pending", ())
            oracles = [(r"Future>::poll$|Future::poll$", poll_oracle),
                       (r"ops::Fn.*::call$|FnOnce.*::call_once$|FnMut.*::call_mut$", lambda site, vals: ERR)]
            try:
                outs = AbsPaths(f, oracles=oracles).outcomes(observe_blocks=tpb)
            except AbsPaths.Undecided as e:
                ctx.undecided("TimeoutFuture::poll|row|%s,%s" % (inner, timer), str(e), f.where())
                continue
            rows += 1

            def show(v):
                if v is None or v[0] != "variant":
                    return "?"
                if v[1] != "Ready":
                    return v[1]
                x = dict(v[2]).get(0)
                if x == RES:
                    return "Ready(inner result)"
                if x is not None and x[0] == "variant" and x[1] == "Err":
                    return "Ready(Err(%s))" % ("configured error" if dict(x[2]).get(0) == ERR else "?")
                return "Ready(?)"
            got = sorted({(show(v), bool(vis)) for (v, vis) in outs})
            if inner == "Ready":
                exp, txt = [("Ready(inner result)", False)], "a ready inner result is returned unchanged; the timer is not consulted"
            elif timer == "Ready":
                exp, txt = [("Ready(Err(configured error))", True)], "when the deadline has passed and the inner future is still pending the configured error is returned"
            else:
                exp, txt = [("Pending", True)], "while both are pending the future is Pending, with the timer polled (its waker wakes the task at the deadline)"
            ctx.check(got == exp, "TimeoutFuture::poll|row|inner=%s,timer=%s" % (inner, timer), txt,
                      "inner %s, timer %s gives %s (answer, timer polled); expected %s" % (inner, timer, got, exp), f.where())
    ctx.floor("TimeoutFuture::poll|table-rows", rows, 3, "scenarios evaluated")
    n = pool2.waker_rule(ctx, f, "TimeoutFuture::poll")


def C19_3_4(ctx, facts):
    adt = facts.adt(TF)
    ty = {fl["name"]: fl["ty"] for fl in adt["variants"][0]["fields"]} if adt else {}
    ctx.check(ty.get("inner") == "F", "TimeoutFuture|inner-by-value", "TimeoutFuture owns the inner future by value (field type F): dropping the timeout future drops the inner work",
              "TimeoutFuture.inner has type %s" % ty.get("inner"))
    ctx.check(ty.get("timeout", "").endswith("tokio::time::Sleep"), "TimeoutFuture|timer-field", "the timer is a tokio Sleep stored in the future", "timer field type %s" % ty.get("timeout"))
    for key in (("service::timeout::Timeout", "Service", "call"), (TF, "Future", "poll")):
        g = facts.method(*key)
        sp = [c for c in g.calls() if c.matches(r"tokio::(task::)?spawn|JoinSet|spawn_blocking|spawn_local")]
        ctx.check(not sp, "%s|no-spawn" % key[0].split("::")[-1], "nothing is spawned: the inner work cannot outlive the timeout future", "inner work is spawned and survives expiry", sp[0].where() if sp else None)
    # placement: reuse C13.1's reading of the builder type
    f = facts.unit(facts.fn("client::builder::Builder::build_service"))
    svc = [c for c in f.calls() if norm(c.name).endswith("ServiceBuilder::service")]
    for c in svc:
        stack = layer_stack((c.t.get("argtys") or [""])[0])
        names = []
        for t in stack:
            h, a = split_type_args(t)
            if h.endswith("OptionLayer") and a:
                h = split_type_args(a[0])[0]
            names.append(h.split("::")[-1] if not h.startswith("impl ") else "impl Layer")
        known = [n for n in names if n.endswith("Layer") and n not in ("impl Layer",)]
        crate_layers = [n for n in names if n in ("Http1ChecksLayer", "Http2ChecksLayer", "SetHostHeaderLayer", "ConnectionPoolLayer", "IncomingResponseLayer", "SetRequestHeaderLayer", "FollowRedirectLayer", "TimeoutLayer")]
        ctx.check(crate_layers and crate_layers[-1] == "TimeoutLayer", "build_service|timeout-outermost", "the timeout layer is the outermost of the client's own layers (%s)" % crate_layers,
                  "timeout layer is not outermost: %s" % crate_layers, c.where())
    ctx.floor("build_service|service-call", len(svc), 1, "ServiceBuilder::service call")
    tl = facts.calls_in_family(f, "service::timeout::TimeoutLayer::new")
    ctx.floor("build_service|TimeoutLayer::new", len(tl), 1, "TimeoutLayer::new")
    for c in tl:
        g = c.fn
        ck = None
        a = c.args[0]
        k = a.get("k") or {}
        ck = k.get("closure") or (k.get("fn") if k.get("fn") in facts.fns else k.get("fna"))
        if ck is None:
            for r in g.roots(a, through_calls=False):
                if r.kind == "closure":
                    ck = r.key
                if r.kind == "const" and r.desc in facts.fns:
                    ck = r.desc
        body = facts.fns.get(ck) if ck else None
        ok = body is not None and any((s["r"].get("adt") or "").endswith("client::error::Error") and s["r"].get("v") == "RequestTimeout" for (b, i, s) in body.aggregates("client::error::Error"))
        ctx.check(ok, "build_service|timeout-error", "the configured error is Error::RequestTimeout", "timeout error constructor is not Error::RequestTimeout", c.where())


RULES = [
    ("C19.1", C19_1, ["default"]),
    ("C19.2", C19_2, ["default"]),
    ("C19.3", C19_3_4, ["default"]),
    # "nor leaves the pool unable to serve subsequent requests": expiry drops the inner future, i.e. the Checkout; its drop must
    # release the in-flight marker (continue or cancel the attempt) on every path, and never skip that under lock contention
    ("P10r", pool2.P10_aspects("released"), ["default"]),
    ("P16b", pool2.no_try_lock, ["default"]),
]
