"""C12: with TLS configured, https/wss traffic is never sent in the clear (level: other; tls configuration)."""
import re
from core import norm, L_call, L_variant, arms, assigns_to_return, closure_arg_of, sig, const_of, AbsPaths, STR_EQ, L_opt, VALUE_EQ
from mir import op_place
import fwd
import panics
import pool2
import c17

META = {
    "thorough_extra": ["mocks", "aws"],
    "level": "other",
    "explanation": "Structure of the TLS path, decided on all paths (configuration tls,tls-ring,sni): (C12.1) TlsTransport::call - with a TLS configuration the plain connect is "
                   "reachable only on use_tls == false and the TLS connect only on use_tls == true, and use_tls is scheme_str() matched against exactly the literals \"https\" "
                   "and \"wss\"; (C12.2) TlsConnectionFuture::poll returns Ready(Ok(stream)) only on the Ready(Ok) edge of poll_handshake(cx), the Handshake state is built only "
                   "from ClientStream::new(io).tls(domain, config), and error edges return Err (no plain stream is constructed: no fallback); (C12.3) the server name handed to "
                   "rustls derives from uri.host() and a missing host yields NoDomain before any connect; (C12.4) no undischarged panic site on the TLS connect path; "
                   "(C12.5) the client TlsStream reads/writes only through handshake(..), whose I/O action runs only after the handshake future resolved."
                   " C12.1 is now a decision table: with braid = Tls the expanded unit of TlsTransport::call is evaluated abstractly for scheme in {https, wss, http, ws, ftp, none} and must reach exactly the TLS wrapper / exactly the plain connect."
                   " C12.3 is now the host table of TlsTransportWrapper::call (no host / invalid host / valid host -> error(NoDomain) / error(InvalidDomain) / connect + TLS future for exactly that host), which also discharges the server-name expect of TlsStream::new.",
    "trusted_base": ["rustc type/borrow checker", "rustls verifies the certificate against the ServerName it is given", "tokio_rustls::Connect resolves Ok only after a completed handshake"],
    "assumptions": [],
    "undecided": "rustls' certificate verification; bytes on the wire",
    "level_text": "static necessary conditions (guard dominance of scheme test over transport selection, handshake-before-return, provenance of the server name, panic reachability)",
}

CFG = ["tls"]


def C12_1(ctx, facts):
    f = facts.unit(facts.method("client::conn::transport::TlsTransport", "Service", "call"), expand=True)
    ctx.touched(f)
    # the two ways out: the TLS wrapper's call, or a bare transport's connect - wherever they sit (in the arms of the match on
    # the braid, or in a shared tail after it); which one a TLS-configured transport reaches is decided by the table below
    tls_calls = [c for c in f.calls() if norm(c.decl or c.name).endswith("Service::call") and "TlsTransportWrapper" in (c.t.get("argtys") or [""])[0]]
    plain_in_tls = [c for c in f.calls() if norm(c.decl or c.name).endswith("Transport::connect")]
    ctx.floor("TlsTransport::call|tls-connect", len(tls_calls), 1, "TLS connect")
    ctx.floor("TlsTransport::call|plain-connect-in-tls-arm", len(plain_in_tls), 1, "plain connects")

    # transport selection as a decision table: with a TLS configuration (braid = Tls), which connect is reached for which
    # URI scheme?  Evaluated abstractly on the expanded unit (scheme_str() is the scenario input; string comparisons with
    # literals are computed), so `is_some_and(matches!)`, `matches!(.., Some(..))`, `==` chains, helper functions, merged or
    # split match arms all give the same table.
    adt = facts.adt("client::conn::transport::TlsTransport")
    names = [fl["name"] for fl in adt["variants"][0]["fields"]] if adt else []
    if "braid" not in names and names:
        bi = [i for i, fl in enumerate(adt["variants"][0]["fields"]) if "InnerBraid" in fl["ty"]]
        bidx = bi[0] if bi else None
    else:
        bidx = names.index("braid") if names else None
    if bidx is None:
        return ctx.missing("TlsTransport|braid-field", "field of TlsTransport holding the InnerBraid not found")
    tlsb = {c.bb for c in tls_calls}
    plainb = {c.bb for c in plain_in_tls}
    self_val = ("refval", ("variant", "TlsTransport", ((bidx, ("variant", "Tls", ((0, ("const", "INNER")),))),)))
    rows = 0
    for scheme in ("https", "wss", "http", "ws", "ftp", None):
        sv = ("variant", "None", ()) if scheme is None else ("variant", "Some", ((0, ("const", '"%s"' % scheme)),))
        oracles = [(r"Uri::scheme_str$", lambda site, vals, sv=sv: sv), STR_EQ, VALUE_EQ]
        try:
            outs = AbsPaths(f, oracles=oracles).outcomes(state={1: self_val}, observe_blocks=tlsb | plainb)
        except AbsPaths.Undecided as e:
            ctx.undecided("TlsTransport::call|row|%s" % scheme, str(e), f.where())
            continue
        rows += 1
        seen_tls = any(vis & tlsb for (_, vis) in outs)
        seen_plain = any(vis & plainb for (_, vis) in outs)
        secure = scheme in ("https", "wss")
        ok = (seen_tls and not seen_plain) if secure else (seen_plain and not seen_tls)
        ctx.check(ok and bool(outs), "TlsTransport::call|row|scheme=%s" % scheme,
                  "with TLS configured a %s request is connected %s" % (scheme, "through the TLS wrapper only" if secure else "in the clear (not a TLS scheme)"),
                  "with TLS configured a %s request reaches: TLS connect=%s, plain connect=%s" % (scheme, seen_tls, seen_plain), f.where())
    ctx.floor("TlsTransport::call|table-rows", rows, 6, "schemes evaluated")
    # plain arm: nothing to select
    ctx.ok("TlsTransport::call|plain-arm", "without a TLS configuration every request uses the plain transport (the property is conditional on a configuration)")


def C12_2(ctx, facts):
    f = facts.unit(facts.method("client::conn::transport::tls::future::TlsConnectionFuture", "Future", "poll"))
    ctx.touched(f)
    hs = [c for c in f.calls() if norm(c.decl or c.name).endswith("poll_handshake")]
    ctx.floor("TlsConnectionFuture::poll|poll_handshake", len(hs), 1, "poll_handshake calls")
    ready_ok = []
    for (b, i, s) in f.aggregates("Result", "Ok"):
        ready_ok.append(b)
    ctx.floor("TlsConnectionFuture::poll|ok-sites", len(ready_ok), 1, "Ok(stream) results")
    hb = {c.bb for c in hs}

    def hs_ready_ok(lab):
        if lab.kind != "variant" or lab.variants != {"Ok"}:
            return False
        st = f.call_defining(lab.place["l"])
        return st is not None and st.bb in hb
    for b in ready_ok:
        ok, w = f.guarded(b, hs_ready_ok)
        ctx.check(ok, "TlsConnectionFuture::poll|ok-after-handshake", "the stream is returned only on the Ready(Ok) edge of poll_handshake(cx): the handshake is complete",
                  "a stream can be returned before the TLS handshake completed", f.where(b), f.path_desc(w))
    for c in hs:
        cx = pool2.cx_local(f)
        ok = any(r.kind == "arg" and getattr(r, "index", None) == cx for r in f.roots(c.args[1], through_calls=False))
        ctx.check(ok, "TlsConnectionFuture::poll|handshake-gets-cx", "poll_handshake is driven with the task context", "poll_handshake not given cx", c.where())
    # Handshake state constructed only from ClientStream::new(io).tls(domain, config)
    sites = []
    for g in facts.fns.values():
        for (b, i, s) in g.aggregates("client::conn::transport::tls::future::State", "Handshake"):
            sites.append((g, b, s))
    ctx.floor("TlsConnectionFuture|handshake-state", len(sites), 1, "constructions of State::Handshake")
    for (g, b, s) in sites:
        rr = g.roots(s["r"]["ops"][0], through_calls=False)
        ok = any(r.kind == "call" and r.site.is_("client::conn::stream::Stream::tls") for r in rr)
        ctx.check(ok and g.key == f.key, "TlsConnectionFuture|handshake-state-is-tls", "the stream entering the Handshake state was wrapped with .tls(domain, config)",
                  "State::Handshake built from %s" % sorted(map(repr, rr)), g.where(b))
    tls_calls = f.calls("client::conn::stream::Stream::tls")
    for c in tls_calls:
        r0 = f.roots(c.args[0], through_calls=False)
        ctx.check(any(r.kind == "call" and r.site.is_("client::conn::stream::Stream::new") for r in r0), "TlsConnectionFuture::poll|tls-wraps-connected-io",
                  "the TLS stream wraps the io the transport just connected", "tls() receiver roots %s" % sorted(map(repr, r0)), c.where())
        r1 = f.roots(c.args[1])
        ctx.check(any(r.kind == "call" and "project" in norm(r.site.name) for r in r1) or any(r.kind == "arg" for r in r1), "TlsConnectionFuture::poll|domain-from-state",
                  "the domain is the one stored in the future's state", "domain roots %s" % sorted(map(repr, sig(r1))), c.where())
        ch = _transformed(f, c.args[1])
        ctx.check(not ch, "TlsConnectionFuture::poll|domain-unchanged", "the stored domain reaches .tls(..) as stored", "the stored domain is transformed (through %s) before the TLS stream is built" % (ch,), c.where())
    # no fallback: no other way to produce Ok / no ClientStream::new result returned directly
    news = f.calls("client::conn::stream::Stream::new")
    for c in news:
        used_by_tls = any(any(r.kind == "call" and r.site.bb == c.bb for r in f.roots(t.args[0], through_calls=False)) for t in tls_calls)
        ctx.check(used_by_tls, "TlsConnectionFuture::poll|no-plain-fallback", "every ClientStream::new(io) in the TLS future is immediately wrapped with .tls(..)",
                  "a plain ClientStream is built in the TLS future without being wrapped (plaintext fallback)", c.where())
    errs = [b for (b, i, s) in f.aggregates("Result", "Err")]
    ctx.floor("TlsConnectionFuture::poll|err-sites", len(errs), 2, "error returns (connect error, handshake error)")
    pool2.waker_rule(ctx, f, "TlsConnectionFuture::poll")


def tls_host_table(facts):
    """Decision table of `TlsTransportWrapper::call` over what the request URI says about its host (abstract evaluation, every
    crate-local helper / conversion impl spliced in): {scenario: set of event logs}.  Events: `connect` (the inner transport
    is asked to connect), `new:<host>` (a TLS future is built for that host), `error:<variant>` (an error future is returned)."""
    import inline
    if hasattr(facts, "_tls_host_table"):
        return facts._tls_host_table
    fn = facts.method("client::conn::transport::tls::TlsTransportWrapper", "Service", "call")
    OPAQUE = r"TlsConnectionFuture::(new|error)$|Transport::connect$|Uri::host$|TryFrom.*::try_from$"
    u = inline.inline(facts, fn, 4, lambda ck, raw: "::_::" not in ck and not (re.search(OPAQUE, norm(ck)) and not facts.fns[ck].nkey.startswith("<client::conn::transport::tls")), expand=True)
    LOG = -70

    def log(st, ev):
        l = st.get(LOG) or ("list", ())
        st[LOG] = ("list", l[1] + (("const", ev),))

    def deref(ev, st, v, hops=6):
        from core import deref_value
        return deref_value(st, v, hops)

    def setd(st, t, v):
        d = t["dest"]
        if d["p"] or v is None:
            st.pop(d["l"], None)
        else:
            st[d["l"]] = v
        return True
    tables = {}
    for scen, hostv in (("no-host", ("variant", "None", ())), ("valid-host", ("variant", "Some", ((0, ("const", "HOST_valid")),))),
                        ("invalid-host", ("variant", "Some", ((0, ("const", "HOST_invalid")),))),
                        # an IPv6 literal: `Uri::host` keeps the brackets; only the text between them is a valid server name
                        ("bracketed-host", ("variant", "Some", ((0, ("const", "HOST_bracketed")),)))):
        def o_host(ev, st, t, site, hostv=hostv):
            return setd(st, t, hostv)

        def o_try_from(ev, st, t, site):
            if "ServerName" not in " ".join(t.get("targs") or []) + (t.get("resa") or "") + (t.get("decla") or ""):
                return False
            a = deref(ev, st, ev._eval_operand(st, site.args[0]))
            if a in (("const", "HOST_valid"), ("const", "HOST_inner_valid")):
                return setd(st, t, ("variant", "Ok", ((0, ("const", "SERVER_NAME")),)))
            if a is not None and a[0] == "const" and str(a[1]).startswith("HOST_"):      # HOST_invalid, HOST_bracketed and its half-stripped forms
                return setd(st, t, ("variant", "Err", ((0, ("const", "INVALID_DNS_NAME")),)))
            return False

        def o_same(ev, st, t, site):
            a = deref(ev, st, ev._eval_operand(st, site.args[0])) if site.args else None
            if a is None or a[0] != "const" or not str(a[1]).startswith("HOST_"):
                return False
            return setd(st, t, a)

        def o_strip(ev, st, t, site):
            # scenario hosts are plain names (no IPv6 brackets): nothing to strip
            a = deref(ev, st, ev._eval_operand(st, site.args[0])) if site.args else None
            if a is None or a[0] != "const" or not str(a[1]).startswith("HOST_"):
                return False
            n = norm(site.name).split("::")[-1]
            some = lambda v: ("variant", "Some", ((0, ("const", v)),))
            BR = {("HOST_bracketed", "strip_prefix"): "HOST_bracketed_nopfx", ("HOST_bracketed_nopfx", "strip_suffix"): "HOST_inner_valid",
                  ("HOST_bracketed", "strip_suffix"): "HOST_bracketed_nosfx", ("HOST_bracketed_nosfx", "strip_prefix"): "HOST_inner_valid"}
            if (a[1], n) in BR:
                return setd(st, t, some(BR[(a[1], n)]))
            if str(a[1]).startswith("HOST_bracketed") or a[1] == "HOST_inner_valid":
                if n.startswith("strip_"):
                    return setd(st, t, ("variant", "None", ()))
                return False                                                            # trim_* on a bracketed host: outside the model (fail closed)
            return setd(st, t, ("variant", "None", ()) if n.startswith("strip_") else a)

        def o_connect(ev, st, t, site):
            log(st, "connect")
            return setd(st, t, ("const", "CONNECTING"))

        def o_new(ev, st, t, site):
            h = deref(ev, st, ev._eval_operand(st, site.args[2])) if len(site.args) > 2 else None
            log(st, "new:%s" % (h[1] if h is not None and h[0] == "const" else "?"))
            return setd(st, t, ("const", "TLS_FUTURE"))

        def o_error(ev, st, t, site):
            e = deref(ev, st, ev._eval_operand(st, site.args[0])) if site.args else None
            log(st, "error:%s" % (e[1] if e is not None and e[0] == "variant" else "?"))
            return setd(st, t, ("const", "ERROR_FUTURE"))
        raw = [(r"Uri::host$", o_host), (r"TryFrom.*::try_from$", o_try_from),
               (r"ToOwned.*::to_owned$|str::to_owned$|ToString.*::to_string$|String.*From.*::from$|Into.*::into$|Clone.*::clone$|str::to_string$|Box.*From.*::from$|String::from$", o_same),
               (r"str.*::(strip_prefix|strip_suffix|trim_start_matches|trim_end_matches|trim_matches|trim)$", o_strip),
               (r"Transport::connect$", o_connect), (r"TlsConnectionFuture::new$", o_new), (r"TlsConnectionFuture::error$", o_error)]
        try:
            outs = AbsPaths(u, raw_oracles=raw, oracles=[VALUE_EQ]).outcomes(state={LOG: ("list", ())}, extra_keys=(LOG,))
            tables[scen] = {tuple(e[1] for e in o[2][0][1]) if o[2][0] is not None else None for o in outs}
        except AbsPaths.Undecided as e:
            tables[scen] = e
    facts._tls_host_table = (u, tables)
    return facts._tls_host_table


TLS_HOST_EXPECT = {"no-host": ("error:NoDomain",), "invalid-host": ("error:InvalidDomain",), "valid-host": ("connect", "new:HOST_valid")}


def C12_3(ctx, facts):
    call = facts.unit(facts.method("client::conn::transport::tls::TlsTransportWrapper", "Service", "call"), expand=True)
    ctx.touched(call)
    news = call.calls("client::conn::transport::tls::future::TlsConnectionFuture::new")
    conns = [c for c in call.calls() if norm(c.decl or c.name).endswith("Transport::connect")]
    ctx.floor("TlsTransportWrapper::call|future", len(news), 1, "TlsConnectionFuture::new")
    ctx.floor("TlsTransportWrapper::call|connect", len(conns), 1, "inner transport connect")
    host_some = L_opt(call, True, lambda rr: any(r.kind == "call" and r.site.is_("http::Uri::host", "http::uri::Uri::host") for r in rr))
    for c in news:
        rr = call.roots(c.args[2])
        from_host = any(r.kind == "call" and r.site.is_("http::Uri::host", "http::uri::Uri::host") for r in rr)
        other_parts = [r for r in rr if r.kind == "arg" and not r.desc.startswith("req.uri")] + \
                      [r for r in rr if r.kind == "call" and r.site.matches(r"HeaderMap|Extensions|Request.*::(headers|extensions|method|version)$")]
        ctx.check(from_host and not other_parts, "TlsTransportWrapper::call|domain-is-uri-host", "the TLS domain derives from the request URI's host and from nothing else of the request",
                  "the TLS domain (SNI / certificate name) derives from %s" % sorted(map(repr, other_parts or sig(rr)))[:6], c.where())
    u, tab = tls_host_table(facts)
    ctx.touched(u)
    # a bracketed IPv6 literal: either refused, or connected with the name between the brackets - which is the value that was validated
    got = tab["bracketed-host"]
    if isinstance(got, Exception):
        ctx.undecided("TlsTransportWrapper::call|host-table|bracketed-host", str(got))
    else:
        ctx.check(got in ({("error:InvalidDomain",)}, {("connect", "new:HOST_inner_valid")}), "TlsTransportWrapper::call|host-table|bracketed-host",
                  "bracketed-host: the call does exactly %s (an IPv6 literal is refused, or the TLS future gets the text between the brackets, which is what ServerName::try_from accepted)" % sorted(map(str, got)),
                  "bracketed-host: the call can do %s; expected ['error:InvalidDomain'] or ['connect', 'new:HOST_inner_valid'] (the name handed to the TLS future must be the one that was validated)" % sorted(map(str, got)), u.where())
    for scen, want in TLS_HOST_EXPECT.items():
        got = tab[scen]
        if isinstance(got, Exception):
            ctx.undecided("TlsTransportWrapper::call|host-table|%s" % scen, str(got))
            continue
        ctx.check(got == {want}, "TlsTransportWrapper::call|host-table|%s" % scen,
                  "%s: the call does exactly %s (no connection is attempted and no TLS future is built unless the URI names a host that is a valid server name; the name offered is that host)" % (scen, list(want)),
                  "%s: the call can do %s, expected exactly %s" % (scen, sorted(map(str, got)), list(want)), u.where())
    nod = [b for (b, i, s) in call.aggregates("client::conn::transport::TlsConnectionError", "NoDomain")]
    ctx.floor("TlsTransportWrapper::call|NoDomain", len(nod), 1, "NoDomain error")
    new = facts.unit(facts.fn("client::conn::stream::tls::TlsStream::new"))
    ctx.touched(new)
    tc = [c for c in new.calls() if norm(c.name).endswith("TlsConnector::connect")]
    ctx.floor("TlsStream::new|connect", len(tc), 1, "TlsConnector::connect")
    for c in tc:
        rr = new.roots(c.args[1])
        ok = any(r.kind == "arg" and r.desc == "domain" for r in rr) and any(r.kind == "call" and r.site.matches(r"TryFrom.*try_from$") for r in rr)
        foreign = [r for r in rr if r.kind == "const" and str(r.desc).startswith('"') and "should be valid" not in str(r.desc)]
        ctx.check(ok and not foreign, "TlsStream::new|server-name-from-domain", "the rustls ServerName is ServerName::try_from(domain) of the given domain",
                  "server name roots %s" % sorted(map(repr, sig(rr))), c.where())
        # ... of the domain *as given*: nothing but representation changes (&str -> String -> &str ...) between the parameter
        # and the conversion - the transport validated and handed over exactly the URI's host (C12.3), a second "normalisation"
        # here (cutting at ':' as if it were an authority, trimming, ...) offers / checks another name or makes the expect fire
        for tf in [r.site for r in rr if r.kind == "call" and r.site.matches(r"TryFrom.*try_from$")]:
            ra = new.roots(tf.args[0])
            changed = _transformed(new, tf.args[0])
            ctx.check(not changed and any(r.kind == "arg" and r.desc == "domain" for r in ra), "TlsStream::new|domain-unchanged",
                      "the string converted into the ServerName is the domain parameter itself (representation changes only)",
                      "the domain is transformed before it becomes the server name (through %s): the name offered and verified is no longer the host the transport validated" % (changed,), tf.where())
        rs = new.roots(c.args[2])
        ctx.check(any(r.kind == "arg" and r.desc == "stream" for r in rs), "TlsStream::new|wraps-stream", "the TLS connector wraps the given stream", "stream roots differ", c.where())
        rc = new.roots(c.args[0])
        ctx.check(any(r.kind == "arg" and r.desc == "config" for r in rc), "TlsStream::new|uses-config", "the connector is built from the given client configuration", "config roots differ", c.where())
    tls = facts.unit(facts.fn("client::conn::stream::Stream::tls"))
    tn = tls.calls("client::conn::stream::tls::TlsStream::new")
    for c in tn:
        ok = any(r.kind == "arg" and r.desc == "domain" for r in tls.roots(c.args[1])) and any(r.kind == "arg" and r.desc == "config" for r in tls.roots(c.args[2]))
        ctx.check(ok, "Stream::tls|passes-domain", "Stream::tls passes its domain and configuration on", "Stream::tls passes other values", c.where())
        ch = _transformed(tls, c.args[1])
        ctx.check(not ch, "Stream::tls|domain-unchanged", "Stream::tls passes the domain on as given", "Stream::tls transforms the domain (through %s) before the TLS stream is built" % (ch,), c.where())
    ctx.floor("Stream::tls|new", len(tn), 1, "TlsStream::new in Stream::tls")


IDENT = r"(ToOwned.*::to_owned|ToString.*::to_string|String.*::from|From<.*str>.*::from|Into.*::into|AsRef.*::as_ref|Borrow.*::borrow|Deref(Mut)?.*::deref(_mut)?|Clone.*::clone|String::as_str|String::as_mut_str|str::as_ref|into_boxed_str|Box.*::from|::project|Pin.*::(as_mut|get_mut|new|new_unchecked|as_ref|get_ref|into_inner)|mem::take|mem::replace|Option.*::(take|unwrap|expect|as_ref|as_mut|as_deref))$"


def _transformed(unit, operand):
    """Calls other than representation changes / accessors, and string literals, in the backward slice of a name."""
    ra = unit.roots(operand)
    changed = sorted({norm(r.site.name) for r in ra if r.kind == "call" and not re.search(IDENT, norm(r.site.name))})
    # the message of an `expect` on the way is no part of the name
    msgs = set()
    for r in ra:
        if r.kind == "call" and re.search(r"::expect$", norm(r.site.name)) and len(r.site.args) > 1:
            msgs |= {str(x.desc) for x in unit.roots(r.site.args[1], through_calls=False) if x.kind == "const"}
    lits = sorted({str(r.desc) for r in ra if r.kind == "const" and str(r.desc).startswith('"')} - msgs)
    return changed[:4] + lits[:3]


def C12_4(ctx, facts):
    entries = []
    for k in (("client::conn::transport::TlsTransport", "Service", "call"), ("client::conn::transport::tls::TlsTransportWrapper", "Service", "call"),
              ("client::conn::transport::tls::future::TlsConnectionFuture", "Future", "poll"), ("client::conn::transport::future::TransportBraidFuture", "Future", "poll")):
        entries.append(facts.method(*k).key)
    for f in fwd.io_methods(facts):
        if fwd.self_suffix(f).endswith("client::conn::stream::tls::TlsStream"):
            entries.append(f.key)

    def scope(fn):
        return not fn.nkey.startswith(("server::", "<server::"))
    st = panics.run(ctx, facts, entries, c17.TABLE, "tls-connect", min_sites=3, scope=scope)
    ctx.assume("E-PANIC tls connect path: %s" % st)


def C12_5(ctx, facts):
    fwd.fwd_tls_stream(ctx, facts, "client::conn::stream::tls::TlsStream", "State", "client TlsStream")


def C12_6(ctx, facts):
    """A pooled connection is reused by key: an `https` request must never share a key with a plaintext origin.  C06.1's
    obligations on the key are claimed here: the scheme is a field of the key, it is the request URI's scheme unmodified, and
    equality / hashing are the derived ones over both fields (a hand-written Eq that ignores the scheme would put https and http
    requests to one host:port on the same connection)."""
    import c06
    n0 = len(ctx.obs)
    c06.C06_1(ctx, facts)
    mine = [o for o in ctx.obs[n0:] if o.key.startswith("UriKey")]
    ctx.obs[n0:] = mine
    ctx.floor("UriKey|claimed-obligations", len(mine), 6, "obligations on the pool key claimed from C06.1")


RULES = [
    ("C12.6", C12_6, CFG),
    ("C12.1", C12_1, CFG),
    ("C12.2", C12_2, CFG),
    ("C12.3", C12_3, CFG),
    ("C12.4", C12_4, CFG),
    ("C12.5", C12_5, CFG),
]
