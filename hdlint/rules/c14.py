"""C14: a waiting request takes a freed connection; its own dial is not wasted (level: other)."""
import pool
import pool2

META = {
    "thorough_extra": ["mocks", "client-only"],
    "level": "other",
    "explanation": "Necessary structural conditions of pre-emption and delayed drop, decided on all (feasible) paths of the MIR: (P12) Waiting::poll typestate - "
                   "a NotReady outcome never reaches a state reset / receiver close (path-sensitive exploration with a variant-set domain), a resolved channel always does; "
                   "(P13) Checkout::poll polls the waiter before the connector on every path and returns a received connection unchanged; (P9) PoolInner::push offers a "
                   "connection to queued waiters before the idle list and returns only after delivery or draining; (P14) the delayed-drop state is chosen iff "
                   "continue_after_preemption, as_delayed moves the connector into a checkout with the same token and pool, and the pinned drop spawns exactly that; "
                   "(P3) the background checkout's Pooled result returns through WhenReady; (C14.1) with the option off the connector is owned by value and no spawn is reachable."
                   " P12 / P13 are decision tables evaluated abstractly on the expanded units of Waiting::poll / Checkout::poll; P14 also checks the converse (as_delayed declines only when nothing is left to continue)."
                   " As built now: P9 (hand-back), P10 / P14 (pinned drop, as_delayed, the state a new checkout starts in) are the decision tables of pooltable.py; P16b (no try_lock on the hand-back path) is claimed here as well.",
    "trusted_base": ["rustc type/borrow checker", "tokio oneshot wakes the receiver's task on send/drop", "tokio::spawn runs the future"],
    "assumptions": ["wake-ups inside tokio's oneshot (our side registers the waker: E-WAKER)"],
    "undecided": "'no later than its next poll' in wall-clock terms; scheduling of the spawned task",
    "level_text": "static necessary conditions (typestate, poll order, must-pass-through) over all feasible paths; the timing clause of the property is not decided",
}


def C14_1(ctx, facts):
    adt = facts.adt("client::pool::checkout::InnerCheckoutConnecting")
    if adt is None:
        return ctx.missing("anchor", "InnerCheckoutConnecting not found")
    vs = {v["name"]: v for v in adt["variants"]}
    t = vs["Connecting"]["fields"][0]["ty"] if "Connecting" in vs and vs["Connecting"]["fields"] else None
    ctx.check(t is not None and t.startswith("client::conn::connector::Connector<"), "InnerCheckoutConnecting::Connecting|by-value",
              "with delayed drop disabled the connector is owned by value: dropping the checkout drops the attempt and leaves nothing behind",
              "Connecting holds %s" % t)
    d = pool2.checkout_drop(facts)
    spawns = d.calls(*pool2.SPAWN)
    # every spawn in the crate's pool module is accounted for: Pooled::drop (WhenReady) and the pinned drop (delayed checkout)
    allsp = [c for g in facts.fns.values() if g.nkey.startswith(("client::pool", "<client::pool")) for c in g.calls(*pool2.SPAWN)]
    ctx.check(len(allsp) == 2 and len(spawns) == 1, "pool|spawn-sites", "the pool spawns in exactly two places: WhenReady (Pooled::drop) and the delayed checkout (pinned drop)",
              "pool module spawns at %s" % [c.where() for c in allsp])


RULES = [
    ("P12", pool2.P12, ["default"]),
    ("P13", pool2.P13, ["default"]),
    ("P9", pool2.P9_aspects("waiters-first", "delivered-or-drained", "payload", "queue-kept"), ["default"]),
    ("P14", pool2.P14, ["default"]),
    ("P3", pool.P3_route, ["default"]),
    ("C14.1", C14_1, ["default"]),
    ("E-WAKER", pool2.E_WAKER_pool, ["default"]),
    # the abandoned attempt is continued: the pinned drop spawns exactly what as_delayed() returned, whenever it returned something
    ("P10s", pool2.P10_aspects("spawn", "keeps"), ["default"]),
    # the hand-back of a released connection is never skipped under lock contention
    ("P16b", pool2.no_try_lock, ["default"]),
    # a cancelled attempt releases its dependants only: a request dialing for itself keeps its place in the queue (and so
    # still takes a connection freed later)
    ("P11", pool2.P11, ["default"]),
]
