//! Type-level witnesses for the hyperdriver verification (run with `cargo +nightly test --doc --offline`;
//! the error codes are only enforced on nightly). Each `compile_fail` witness has a compiling twin that
//! differs only by the offending line, so that a witness whose path is merely wrong cannot pass.

/// W1 (C02): an HTTP connection cannot be duplicated - `HttpConnection<Body>: Clone` does not hold.
///
/// ```compile_fail,E0277
/// fn assert_clone<T: Clone>() {}
/// assert_clone::<hyperdriver::client::conn::connection::HttpConnection<hyperdriver::Body>>();
/// ```
///
/// Twin: the same type named the same way *is* `Send`.
///
/// ```
/// fn assert_send<T: Send>() {}
/// assert_send::<hyperdriver::client::conn::connection::HttpConnection<hyperdriver::Body>>();
/// ```
pub struct W1;

/// W2 (C02): the connection inside a `Pooled` handle cannot be reached from outside the pool module.
///
/// ```compile_fail,E0616
/// use hyperdriver::client::pool::{PoolableConnection, Pooled};
/// fn leak<C: PoolableConnection<hyperdriver::Body>>(p: &mut Pooled<C, hyperdriver::Body>) -> Option<C> {
///     p.connection.take()
/// }
/// ```
///
/// Twin: the public accessor compiles.
///
/// ```
/// use hyperdriver::client::pool::{PoolableConnection, Pooled};
/// fn reused<C: PoolableConnection<hyperdriver::Body>>(p: &mut Pooled<C, hyperdriver::Body>) -> bool {
///     p.is_reused()
/// }
/// ```
pub struct W2;

/// W3 (C02): `Pooled` itself cannot be cloned either (a second handle to an exclusive connection).
///
/// ```compile_fail,E0277
/// fn assert_clone<T: Clone>() {}
/// assert_clone::<hyperdriver::client::pool::Pooled<hyperdriver::client::conn::connection::HttpConnection<hyperdriver::Body>, hyperdriver::Body>>();
/// ```
///
/// ```
/// fn assert_send<T: Send>() {}
/// assert_send::<hyperdriver::client::pool::Pooled<hyperdriver::client::conn::connection::HttpConnection<hyperdriver::Body>, hyperdriver::Body>>();
/// ```
pub struct W3;

/// W4 (C06): pool tokens cannot be minted outside the pool - `Token` is not nameable from outside.
///
/// ```compile_fail,E0603
/// let _ = hyperdriver::client::pool::Token::zero();
/// ```
///
/// ```
/// let _ = hyperdriver::client::pool::Config::default();
/// ```
pub struct W4;
